"""AST fact base: modules, import maps, folded constants, classes, functions.

Built from /repo's current working tree on every run (parsing 243 modules takes
~0.4 s, so no cache is needed for this layer).
"""

from __future__ import annotations

import ast
import hashlib
import os
from dataclasses import dataclass, field
from pathlib import Path
from typing import Any, Iterator

from . import REPO


class _Unknown:
    def __repr__(self) -> str:
        return "UNKNOWN"

    def __bool__(self) -> bool:
        return False


UNKNOWN = _Unknown()


class AnchorVanished(Exception):
    """A named construct the rule is anchored in no longer resolves."""


@dataclass
class Module:
    name: str
    path: str  # absolute
    rel: str  # relative to repo root
    src: str
    tree: ast.Module
    imports: dict[str, str] = field(default_factory=dict)  # local -> qualified
    assigns: dict[str, ast.expr] = field(default_factory=dict)  # module-level NAME = expr
    is_pkg: bool = False


@dataclass
class Func:
    qual: str
    name: str
    module: Module
    cls: "Cls | None"
    node: ast.FunctionDef | ast.AsyncFunctionDef
    parent: "Func | None" = None  # enclosing function for nested defs

    @property
    def loc(self) -> str:
        return f"{self.module.rel}:{self.node.lineno}"

    @property
    def decorators(self) -> list[str]:
        return [ast.unparse(d) for d in self.node.decorator_list]

    @property
    def is_property(self) -> bool:
        return any(d in ("property", "cached_property", "functools.cached_property") for d in self.decorators)


@dataclass
class Cls:
    qual: str
    name: str
    module: Module
    node: ast.ClassDef
    base_exprs: list[str] = field(default_factory=list)
    bases: list[str] = field(default_factory=list)  # resolved quals (repo classes) or external dotted names
    methods: dict[str, Func] = field(default_factory=dict)
    assigns: dict[str, ast.expr] = field(default_factory=dict)  # class-level NAME = expr / NAME: T = expr
    annots: dict[str, ast.expr] = field(default_factory=dict)  # class-level NAME: T

    @property
    def loc(self) -> str:
        return f"{self.module.rel}:{self.node.lineno}"

    @property
    def is_dataclass(self) -> bool:
        return any("dataclass" in ast.unparse(d) for d in self.node.decorator_list)


class Repo:
    def __init__(self, root: str = REPO):
        self.root = root
        self.modules: dict[str, Module] = {}
        self.funcs: dict[str, Func] = {}
        self.classes: dict[str, Cls] = {}
        self._sub: dict[str, set[str]] | None = None
        self._load()

    # ------------------------------------------------------------------ load
    def _load(self) -> None:
        src_root = Path(self.root) / "src"
        paths = sorted(src_root.rglob("*.py"))
        if len(paths) < 100:
            raise AnchorVanished(f"only {len(paths)} python modules under {src_root}")
        for p in paths:
            rel = str(p.relative_to(self.root))
            parts = list(p.relative_to(self.root).with_suffix("").parts)
            is_pkg = parts[-1] == "__init__"
            if is_pkg:
                parts = parts[:-1]
            name = ".".join(parts)
            src = p.read_text(encoding="utf-8")
            tree = ast.parse(src, filename=str(p))
            m = Module(name=name, path=str(p), rel=rel, src=src, tree=tree, is_pkg=is_pkg)
            self.modules[name] = m
        for m in self.modules.values():
            self._index_module(m)
        for c in self.classes.values():
            c.bases = [self.resolve(c.module, b) or b for b in c.base_exprs]
        if os.environ.get("TLSA_NO_INLINE_CONSTS") != "1":
            self._inline_string_constants()
            self._inline_return_temps()
            self._unnegate_ifs()
            self._complete_positional_args()

    def _complete_positional_args(self) -> None:
        """Calls whose callee is known here - a function of the same module, a function imported from another src
        module, or `self.method(...)` of the enclosing class (through its bases): keyword arguments that continue the
        parameter list in order are ALSO appended to `call.args` (the keywords stay where they are).  A rule that reads
        `call.args[i]` and a rule that reads the keyword by name then both see `f(path, recursive=flag)` and
        `f(path, flag)` alike.  The appended expressions are the same node objects as the keyword values."""
        def params_of(fn: ast.AST, drop_first: bool):
            a = fn.args
            if a.vararg is not None or a.posonlyargs:
                return None
            ps = [x.arg for x in a.args]
            return ps[1:] if drop_first else ps

        for m in self.modules.values():
            cls_of: dict[int, Cls] = {}
            for c in self.classes.values():
                if c.module is m:
                    for n in ast.walk(c.node):
                        cls_of.setdefault(id(n), c)
            for call in [n for n in ast.walk(m.tree) if isinstance(n, ast.Call) and n.keywords]:
                if any(k.arg is None for k in call.keywords) or any(isinstance(x, ast.Starred) for x in call.args):
                    continue
                ps = None
                if isinstance(call.func, ast.Name):
                    q = self.resolve(m, call.func.id)
                    f = self.funcs.get(q) if q else None
                    if f is not None and f.cls is None and f.parent is None and not f.node.decorator_list:
                        ps = params_of(f.node, False)
                elif isinstance(call.func, ast.Attribute) and isinstance(call.func.value, ast.Name) and call.func.value.id == "self":
                    c = cls_of.get(id(call))
                    meth = self.find_method(c.qual, call.func.attr) if c is not None else None
                    if meth is not None and not any(d in ("staticmethod", "classmethod", "property") for d in meth.decorators):
                        ps = params_of(meth.node, True)
                if ps is None or len(call.args) > len(ps):
                    continue
                kws = {k.arg: k for k in call.keywords}
                i = len(call.args)
                call.n_written_args = i   # what the author wrote positionally
                while i < len(ps) and ps[i] in kws:
                    call.args.append(kws[ps[i]].value)
                    i += 1

    def _unnegate_ifs(self) -> None:
        """`if not (c): B else: A` (two arms, no elif) is presented as `if c: A else: B`."""
        for m in self.modules.values():
            for n in ast.walk(m.tree):
                if isinstance(n, ast.If) and n.orelse and not (len(n.orelse) == 1 and isinstance(n.orelse[0], ast.If)) and isinstance(n.test, ast.UnaryOp) and isinstance(n.test.op, ast.Not):
                    n.test = n.test.operand
                    n.body, n.orelse = n.orelse, n.body

    def _inline_return_temps(self) -> None:
        """`x = <expr>` immediately followed by `return x`, with x bound and used nowhere else in the function, is
        presented to the rules as `return <expr>` (the statement a maintainer may split or join at will).  Positions of
        the expression's nodes are kept, so call-graph sites still match."""
        def blocks(node):
            for field in ("body", "orelse", "finalbody"):
                b = getattr(node, field, None)
                if isinstance(b, list) and b and isinstance(b[0], ast.stmt):
                    yield b
            for h in getattr(node, "handlers", []) or []:
                yield h.body
            for c in getattr(node, "cases", []) or []:
                yield c.body

        for m in self.modules.values():
            for fn in [n for n in ast.walk(m.tree) if isinstance(n, (ast.FunctionDef, ast.AsyncFunctionDef))]:
                uses: dict[str, int] = {}
                for n in ast.walk(fn):
                    if isinstance(n, ast.Name):
                        uses[n.id] = uses.get(n.id, 0) + 1
                for holder in ast.walk(fn):
                    if isinstance(holder, (ast.FunctionDef, ast.AsyncFunctionDef)) and holder is not fn:
                        continue
                    for b in blocks(holder):
                        i = 0
                        while i + 1 < len(b):
                            st, nx = b[i], b[i + 1]
                            tg = st.targets[0] if isinstance(st, ast.Assign) and len(st.targets) == 1 else st.target if isinstance(st, ast.AnnAssign) and st.value is not None else None
                            if isinstance(tg, ast.Name) and isinstance(nx, ast.Return) and isinstance(nx.value, ast.Name) and nx.value.id == tg.id and uses.get(tg.id) == 2:
                                nx.value = st.value
                                del b[i]
                                continue
                            # an explaining variable for the very next test: `c = <expr>` / `if c:` (c used nowhere else)
                            if isinstance(tg, ast.Name) and uses.get(tg.id) == 2 and isinstance(nx, ast.If) and not isinstance(st.value, (ast.Yield, ast.YieldFrom, ast.Await, ast.NamedExpr)):
                                hit = [(p_, f_, idx) for p_ in ast.walk(nx.test) for f_, v_ in ast.iter_fields(p_)
                                       for idx, x_ in (enumerate(v_) if isinstance(v_, list) else [(None, v_)]) if isinstance(x_, ast.Name) and x_.id == tg.id and isinstance(x_.ctx, ast.Load)]
                                if isinstance(nx.test, ast.Name) and nx.test.id == tg.id:
                                    nx.test = st.value
                                    del b[i]
                                    continue
                                if len(hit) == 1:
                                    p_, f_, idx = hit[0]
                                    if idx is None:
                                        setattr(p_, f_, st.value)
                                    else:
                                        getattr(p_, f_)[idx] = st.value
                                    del b[i]
                                    continue
                            i += 1

    # ---------------------------------------------------- constant inlining
    def _inline_string_constants(self) -> None:
        """Inside function bodies, a reference to a module-level *string* constant (bound exactly once at module level to
        a str literal, never re-bound, never declared global; also when imported from another src module) is replaced by
        the literal itself.  Every rule then sees `node.type == "call_expression"` whether the author wrote the literal
        or hoisted it to a constant - the folding is done once, here, instead of in each rule.  Collections and numbers
        keep their names (rules speak about `_HARDCODED_EXCLUDE_DIRS`, `DEFAULT_MAX_...` by name)."""
        table: dict[str, dict[str, str]] = {}
        for m in self.modules.values():
            counts: dict[str, int] = {}
            vals: dict[str, str] = {}
            for st in m.tree.body:
                tg, v = (st.targets[0], st.value) if isinstance(st, ast.Assign) and len(st.targets) == 1 else (st.target, st.value) if isinstance(st, ast.AnnAssign) else (None, None)
                if isinstance(tg, ast.Name):
                    counts[tg.id] = counts.get(tg.id, 0) + 1
                    if isinstance(v, ast.Constant) and isinstance(v.value, str):
                        vals[tg.id] = v.value
            stored_elsewhere = set()
            for n in ast.walk(m.tree):
                if isinstance(n, ast.Global):
                    stored_elsewhere |= set(n.names)
            for st in m.tree.body:
                for n in ast.walk(st):
                    if isinstance(n, ast.Name) and isinstance(n.ctx, (ast.Store, ast.Del)) and not (isinstance(st, (ast.Assign, ast.AnnAssign)) and n is (st.targets[0] if isinstance(st, ast.Assign) else st.target)):
                        if not isinstance(st, (ast.FunctionDef, ast.AsyncFunctionDef, ast.ClassDef)):
                            stored_elsewhere.add(n.id)
            table[m.name] = {k: v for k, v in vals.items() if counts.get(k) == 1 and k not in stored_elsewhere}
        for m in self.modules.values():
            consts = dict(table[m.name])
            for local, q in m.imports.items():
                mod, _, nm = q.rpartition(".")
                if mod in table and nm in table[mod] and local not in consts:
                    consts[local] = table[mod][nm]
            if not consts:
                continue
            for fn in [n for n in ast.walk(m.tree) if isinstance(n, (ast.FunctionDef, ast.AsyncFunctionDef))]:
                bound = {a.arg for a in ast.walk(fn) if isinstance(a, ast.arg)}
                bound |= {n.id for n in ast.walk(fn) if isinstance(n, ast.Name) and isinstance(n.ctx, (ast.Store, ast.Del))}
                bound |= {(a.asname or a.name).split(".")[0] for n in ast.walk(fn) if isinstance(n, (ast.Import, ast.ImportFrom)) for a in n.names}
                skip = set()
                for d in fn.decorator_list + fn.args.defaults + [x for x in fn.args.kw_defaults if x is not None]:
                    skip |= {id(x) for x in ast.walk(d)}
                for parent in ast.walk(fn):
                    for field, val in ast.iter_fields(parent):
                        if isinstance(val, list):
                            for i, x in enumerate(val):
                                if isinstance(x, ast.Name) and isinstance(x.ctx, ast.Load) and x.id in consts and x.id not in bound and id(x) not in skip:
                                    val[i] = ast.copy_location(ast.Constant(value=consts[x.id]), x)
                        elif isinstance(val, ast.Name) and isinstance(val.ctx, ast.Load) and val.id in consts and val.id not in bound and id(val) not in skip:
                            if isinstance(parent, (ast.FunctionDef, ast.AsyncFunctionDef)) and field == "returns":
                                continue
                            if isinstance(parent, ast.arg):
                                continue
                            setattr(parent, field, ast.copy_location(ast.Constant(value=consts[val.id]), val))

    def _index_module(self, m: Module) -> None:
        pkg = m.name if m.is_pkg else m.name.rsplit(".", 1)[0] if "." in m.name else ""
        for node in ast.walk(m.tree):
            if isinstance(node, ast.Import):
                for a in node.names:
                    m.imports[a.asname or a.name.split(".")[0]] = a.name if a.asname else a.name.split(".")[0]
            elif isinstance(node, ast.ImportFrom):
                base = node.module or ""
                if node.level:
                    up = pkg.split(".") if pkg else []
                    if node.level > 1:
                        up = up[: len(up) - (node.level - 1)]
                    base = ".".join(up + ([node.module] if node.module else []))
                for a in node.names:
                    m.imports[a.asname or a.name] = f"{base}.{a.name}" if base else a.name
        for st in m.tree.body:
            self._index_stmt(m, st, None, None)

    def _index_stmt(self, m: Module, st: ast.stmt, cls: Cls | None, parent: Func | None) -> None:
        if isinstance(st, (ast.FunctionDef, ast.AsyncFunctionDef)):
            owner = cls.qual if cls else (parent.qual if parent else m.name)
            qual = f"{owner}.{st.name}"
            f = Func(qual=qual, name=st.name, module=m, cls=cls, node=st, parent=parent)
            if cls is not None and parent is None:
                # property setter/getter pairs share a name: keep the first (getter)
                if st.name in cls.methods:
                    qual = f"{owner}.{st.name}#{st.lineno}"
                    f.qual = qual
                else:
                    cls.methods[st.name] = f
            self.funcs[qual] = f
            for sub in ast.walk(st):
                if sub is st:
                    continue
                if isinstance(sub, (ast.FunctionDef, ast.AsyncFunctionDef)) and self._direct_parent_func(st, sub):
                    self._index_stmt(m, sub, None, f)
        elif isinstance(st, ast.ClassDef):
            owner = cls.qual if cls else m.name
            qual = f"{owner}.{st.name}"
            c = Cls(qual=qual, name=st.name, module=m, node=st, base_exprs=[ast.unparse(b.value if isinstance(b, ast.Subscript) else b) for b in st.bases])
            self.classes[qual] = c
            for sub in st.body:
                if isinstance(sub, ast.Assign):
                    for t in sub.targets:
                        if isinstance(t, ast.Name):
                            c.assigns[t.id] = sub.value
                elif isinstance(sub, ast.AnnAssign) and isinstance(sub.target, ast.Name):
                    c.annots[sub.target.id] = sub.annotation
                    if sub.value is not None:
                        c.assigns[sub.target.id] = sub.value
                self._index_stmt(m, sub, c, None)
        elif isinstance(st, ast.Assign) and cls is None and parent is None:
            for t in st.targets:
                if isinstance(t, ast.Name):
                    m.assigns[t.id] = st.value
        elif isinstance(st, ast.AnnAssign) and cls is None and parent is None:
            if isinstance(st.target, ast.Name) and st.value is not None:
                m.assigns[st.target.id] = st.value
        elif isinstance(st, (ast.If, ast.Try)) and cls is None and parent is None:
            for sub in ast.iter_child_nodes(st):
                if isinstance(sub, ast.stmt):
                    self._index_stmt(m, sub, cls, parent)

    @staticmethod
    def _direct_parent_func(outer: ast.AST, inner: ast.AST) -> bool:
        """True if *inner* is nested in *outer* with no other def/class in between."""
        stack = [(c, True) for c in ast.iter_child_nodes(outer)]
        while stack:
            n, _ = stack.pop()
            if n is inner:
                return True
            if isinstance(n, (ast.FunctionDef, ast.AsyncFunctionDef, ast.ClassDef)):
                continue
            stack.extend((c, True) for c in ast.iter_child_nodes(n))
        return False

    # -------------------------------------------------------------- resolve
    def resolve(self, m: Module, dotted: str, _depth: int = 0) -> str | None:
        """Resolve a dotted local name to a qualified repo symbol (class/function/module) or external dotted name."""
        if _depth > 8:
            return None
        head, _, rest = dotted.partition(".")
        if head in m.imports:
            q = m.imports[head]
            full = f"{q}.{rest}" if rest else q
            return self._canon(full, _depth)
        cand = f"{m.name}.{dotted}"
        if cand in self.classes or cand in self.funcs:
            return cand
        if head in m.assigns and not rest:
            return cand
        return None

    def _canon(self, full: str, _depth: int = 0) -> str:
        """Follow re-exports through package __init__ modules."""
        if full in self.classes or full in self.funcs or full in self.modules:
            return full
        # split into module part + attr part
        parts = full.split(".")
        for i in range(len(parts) - 1, 0, -1):
            mod = ".".join(parts[:i])
            if mod in self.modules:
                m = self.modules[mod]
                attr = ".".join(parts[i:])
                head = parts[i]
                if head in m.imports and _depth < 8:
                    q = m.imports[head]
                    rest = ".".join(parts[i + 1 :])
                    nxt = f"{q}.{rest}" if rest else q
                    if nxt != full:
                        return self._canon(nxt, _depth + 1)
                return f"{mod}.{attr}"
        return full

    def mro(self, cq: str) -> list[str]:
        out: list[str] = []
        todo = [cq]
        while todo:
            c = todo.pop(0)
            if c in out:
                continue
            out.append(c)
            if c in self.classes:
                todo.extend(self.classes[c].bases)
        return out

    def subclasses(self, cq: str, strict: bool = False) -> list[str]:
        if self._sub is None:
            self._sub = {}
            for c in self.classes.values():
                for b in self.mro(c.qual):
                    self._sub.setdefault(b, set()).add(c.qual)
        s = set(self._sub.get(cq, ()))
        if strict:
            s.discard(cq)
        return sorted(s)

    def find_method(self, cq: str, name: str) -> Func | None:
        for c in self.mro(cq):
            cl = self.classes.get(c)
            if cl and name in cl.methods:
                return cl.methods[name]
        return None

    def func(self, qual: str) -> Func:
        f = self.funcs.get(qual)
        if f is None:
            raise AnchorVanished(f"function {qual} not found")
        return f

    def func_by_role(self, qual: str, role: str, pred) -> Func:
        """The function known as `qual`; if that name no longer exists (a private function was renamed or moved inside
        its module/class), the unique function of the same module / class that satisfies pred (its role).  Raises
        AnchorVanished when zero or several candidates remain: the role cannot be located, nothing is decided."""
        f = self.funcs.get(qual)
        if f is not None:
            return f
        scope = qual.rsplit(".", 1)[0]
        cands = [g for q, g in self.funcs.items() if q.rsplit(".", 1)[0] == scope and g.parent is None]
        good = []
        for g in cands:
            try:
                if pred(g):
                    good.append(g)
            except Exception:  # noqa: BLE001
                continue
        if len(good) == 1:
            return good[0]
        raise AnchorVanished(f"function {qual} not found and its role ({role}) matches {len(good)} functions of {scope}")

    def cls(self, qual: str) -> Cls:
        c = self.classes.get(qual)
        if c is None:
            raise AnchorVanished(f"class {qual} not found")
        return c

    def mod(self, name: str) -> Module:
        m = self.modules.get(name)
        if m is None:
            raise AnchorVanished(f"module {name} not found")
        return m

    def funcs_in(self, prefix: str) -> list[Func]:
        return [f for q, f in sorted(self.funcs.items()) if q.startswith(prefix)]

    def modules_in(self, prefix: str) -> list[Module]:
        return [m for n, m in sorted(self.modules.items()) if n == prefix or n.startswith(prefix + ".")]

    # ---------------------------------------------------------------- fold
    def fold(self, m: Module, e: ast.AST | None, cls: Cls | None = None, _d: int = 0) -> Any:
        """Fold an expression to a Python constant where it is one statically."""
        if e is None or _d > 10:
            return UNKNOWN
        if isinstance(e, ast.Constant):
            return e.value
        if isinstance(e, (ast.Tuple, ast.List, ast.Set)):
            vals = [self.fold(m, x, cls, _d + 1) for x in e.elts]
            if any(v is UNKNOWN for v in vals):
                return UNKNOWN
            try:
                return tuple(vals) if isinstance(e, ast.Tuple) else list(vals) if isinstance(e, ast.List) else set(vals)
            except TypeError:
                return UNKNOWN
        if isinstance(e, ast.Dict):
            out = {}
            for k, v in zip(e.keys, e.values):
                if k is None:
                    sub = self.fold(m, v, cls, _d + 1)
                    if not isinstance(sub, dict):
                        return UNKNOWN
                    out.update(sub)
                    continue
                kk = self.fold(m, k, cls, _d + 1)
                if kk is UNKNOWN:
                    return UNKNOWN
                vv = self.fold(m, v, cls, _d + 1)
                try:
                    out[kk] = vv
                except TypeError:
                    return UNKNOWN
            return out
        if isinstance(e, ast.Call) and isinstance(e.func, ast.Name) and e.func.id in ("frozenset", "set", "tuple", "list"):
            if not e.args:
                return {"frozenset": frozenset(), "set": set(), "tuple": (), "list": []}[e.func.id]
            v = self.fold(m, e.args[0], cls, _d + 1)
            if v is UNKNOWN:
                return UNKNOWN
            try:
                return {"frozenset": frozenset, "set": set, "tuple": tuple, "list": list}[e.func.id](v)
            except TypeError:
                return UNKNOWN
        if isinstance(e, ast.Name):
            if cls is not None and e.id in cls.assigns:
                return self.fold(cls.module, cls.assigns[e.id], cls, _d + 1)
            if e.id in m.assigns:
                return self.fold(m, m.assigns[e.id], None, _d + 1)
            if e.id in m.imports:
                return self._fold_qual(self._canon(m.imports[e.id]), _d + 1)
            return UNKNOWN
        if isinstance(e, ast.Attribute):
            dotted = _dotted(e)
            if dotted is None:
                return UNKNOWN
            head, _, rest = dotted.partition(".")
            if head in ("self", "cls") and cls is not None and rest and "." not in rest:
                for cq in self.mro(cls.qual):
                    c = self.classes.get(cq)
                    if c and rest in c.assigns:
                        return self.fold(c.module, c.assigns[rest], c, _d + 1)
                    if c and rest in c.methods and c.methods[rest].is_property:
                        return self.fold_property(c.methods[rest])
                return UNKNOWN
            q = self.resolve(m, dotted)
            if q:
                return self._fold_qual(q, _d + 1)
            return UNKNOWN
        if isinstance(e, ast.BinOp) and isinstance(e.op, (ast.Add, ast.BitOr)):
            l, r = self.fold(m, e.left, cls, _d + 1), self.fold(m, e.right, cls, _d + 1)
            if l is UNKNOWN or r is UNKNOWN:
                return UNKNOWN
            try:
                return l + r if isinstance(e.op, ast.Add) else l | r
            except TypeError:
                return UNKNOWN
        if isinstance(e, ast.UnaryOp) and isinstance(e.op, ast.USub):
            v = self.fold(m, e.operand, cls, _d + 1)
            return -v if isinstance(v, (int, float)) else UNKNOWN
        if isinstance(e, ast.JoinedStr):
            parts = []
            for v in e.values:
                if isinstance(v, ast.Constant):
                    parts.append(str(v.value))
                elif isinstance(v, ast.FormattedValue):
                    s = self.fold(m, v.value, cls, _d + 1)
                    if s is UNKNOWN or v.format_spec is not None:
                        return UNKNOWN
                    parts.append(str(s))
            return "".join(parts)
        return UNKNOWN

    def _fold_qual(self, q: str, _d: int) -> Any:
        # Enum / class attribute: pkg.mod.Class.ATTR ; module constant: pkg.mod.NAME
        mod, _, attr = q.rpartition(".")
        if mod in self.modules and attr in self.modules[mod].assigns:
            mm = self.modules[mod]
            return self.fold(mm, mm.assigns[attr], None, _d)
        if mod in self.classes and attr in self.classes[mod].assigns:
            c = self.classes[mod]
            return self.fold(c.module, c.assigns[attr], c, _d)
        return UNKNOWN

    def fold_property(self, f: Func) -> Any:
        """A method/property whose body is `return <const>` (docstring allowed)."""
        body = [s for s in f.node.body if not (isinstance(s, ast.Expr) and isinstance(s.value, ast.Constant))]
        if len(body) == 1 and isinstance(body[0], ast.Return):
            return self.fold(f.module, body[0].value, f.cls)
        return UNKNOWN

    # -------------------------------------------------------------- digest
    def digest(self) -> str:
        h = hashlib.sha256()
        for name in sorted(self.modules):
            h.update(name.encode())
            h.update(self.modules[name].src.encode())
        return h.hexdigest()


def _dotted(e: ast.AST) -> str | None:
    parts = []
    while isinstance(e, ast.Attribute):
        parts.append(e.attr)
        e = e.value
    if isinstance(e, ast.Name):
        parts.append(e.id)
        return ".".join(reversed(parts))
    return None


dotted = _dotted


def calls_in(node: ast.AST) -> Iterator[ast.Call]:
    for n in ast.walk(node):
        if isinstance(n, ast.Call):
            yield n


def call_name(c: ast.Call) -> str:
    """Last component of the callee (method or function name)."""
    f = c.func
    if isinstance(f, ast.Attribute):
        return f.attr
    if isinstance(f, ast.Name):
        return f.id
    return ""


def kwarg(c: ast.Call, name: str, pos: int | None = None) -> ast.expr | None:
    for k in c.keywords:
        if k.arg == name:
            return k.value
    if pos is not None and len(c.args) > pos and not any(isinstance(a, ast.Starred) for a in c.args[: pos + 1]):
        return c.args[pos]
    return None


def _unparse_written(node: ast.AST) -> str:
    """ast.unparse of the code as written: arguments the fact base appended to `call.args` (see
    Repo._complete_positional_args) are left out."""
    touched = [c for c in ast.walk(node) if isinstance(c, ast.Call) and hasattr(c, "n_written_args") and len(c.args) > c.n_written_args]
    saved = [(c, c.args) for c in touched]
    try:
        for c in touched:
            c.args = c.args[: c.n_written_args]
        return ast.unparse(node)
    finally:
        for c, a in saved:
            c.args = a


def argv(c: ast.Call) -> list[ast.expr]:
    """All argument expressions of a call, positional and keyword (for "is X passed at all" questions)."""
    n = getattr(c, "n_written_args", len(c.args))
    return list(c.args[:n]) + [k.value for k in c.keywords if k.arg is not None]


def norm(node: ast.AST) -> str:
    """Normalised, position-free text of a construct (finding keys)."""
    s = _unparse_written(node)
    s = " ".join(s.split())
    return s if len(s) <= 160 else s[:157] + "..."


def strip_docstring(body: list[ast.stmt]) -> list[ast.stmt]:
    if body and isinstance(body[0], ast.Expr) and isinstance(body[0].value, ast.Constant) and isinstance(body[0].value.value, str):
        return body[1:]
    return body


def read_text(rel: str, root: str = REPO) -> str:
    p = os.path.join(root, rel)
    if not os.path.exists(p):
        raise AnchorVanished(f"file {rel} not found")
    with open(p, encoding="utf-8") as fh:
        return fh.read()
