"""Maintenance tool (never run by a check): python -m tlsa.mkknown  -> prints candidate known-finding entries for
every finding the checks report on the current tree that is not yet listed.  Entries are reviewed by hand before they
are added to known_findings.json."""

from __future__ import annotations

import contextlib
import io
import json
import os
import shutil
import sys
import tempfile

from . import REPO, VERIF
from .main import run_property


def main() -> None:
    props = sys.argv[1:] or [f"C{i:02d}" for i in range(1, 21)]
    out = []
    for p in props:
        tmp = tempfile.mkdtemp(prefix="tlsa-mk-")
        try:
            with contextlib.redirect_stdout(io.StringIO()):
                run_property(p, "quick", REPO, evidence_dir=tmp)
            ev = json.load(open(os.path.join(tmp, f"{p}.json")))
            for f in ev["coverage"].get("findings", []):
                if f["status"] == "new":
                    out.append(dict(property=p, status="known", key=f["key"], what=f["what"], where=f["loc"]))
        finally:
            shutil.rmtree(tmp, ignore_errors=True)
    json.dump(out, sys.stdout, indent=1)


if __name__ == "__main__":
    main()
