"""Regenerate tlsa/anchors_ref.json - the reference the rename canonicaliser (tlsa/canon.py) works from.

Many rules name private functions of thai-lint in string literals ("_should_include_dir", "_output_json", ...).  A rename
of such a function is a behaviour-preserving refactoring, and a check that then exits non-zero raises a false alarm.  This
module records, from the tree the rules were confirmed on (/repo as it stands), every private function whose simple name
occurs inside a string literal of the checker sources, with a fingerprint (parameter list + identifier bag of the body),
and the listing of all function names per module.  canon.py uses it only to *follow a rename*; it never decides a
property.

usage: python -m tlsa.anchors_ref
"""

from __future__ import annotations

import ast
import glob
import json
import os
import re
import subprocess
import sys

from . import REPO, VERIF
from .facts import Repo


def func_params(node) -> list[str]:
    a = node.args
    return [x.arg for x in a.posonlyargs + a.args + a.kwonlyargs] + ([a.vararg.arg] if a.vararg else []) + ([a.kwarg.arg] if a.kwarg else [])


def _doc(node):
    b = getattr(node, "body", None)
    if b and isinstance(b[0], ast.Expr) and isinstance(b[0].value, ast.Constant) and isinstance(b[0].value.value, str):
        return b[0].value
    return None


def func_bag(node) -> list[str]:
    """Identifier bag of a function body: attribute names, called names, short string constants and the statement kinds
    used (not local variable names, which a refactoring changes freely)."""
    out = set()
    doc = _doc(node)
    for n in ast.walk(node):
        if isinstance(n, ast.Attribute):
            out.add("." + n.attr)
        elif isinstance(n, ast.Call) and isinstance(n.func, ast.Name):
            out.add(n.func.id + "()")
        elif isinstance(n, ast.Constant) and isinstance(n.value, str) and len(n.value) <= 40 and n is not doc:
            out.add(repr(n.value))
        elif isinstance(n, (ast.If, ast.For, ast.While, ast.Try, ast.With, ast.Return, ast.Raise, ast.Yield, ast.Compare, ast.BoolOp)):
            out.add("#" + type(n).__name__)
    return sorted(out)


def mentioned_names() -> set[str]:
    names: set[str] = set()
    for p in glob.glob(os.path.join(VERIF, "tlsa", "**", "*.py"), recursive=True):
        if os.sep + "audit" + os.sep in p:
            continue
        for n in ast.walk(ast.parse(open(p, encoding="utf-8").read())):
            if isinstance(n, ast.Constant) and isinstance(n.value, str):
                names |= set(re.findall(r"[A-Za-z_][A-Za-z0-9_]*", n.value))
    # functions a recorded known finding is keyed by: a rename must not turn the known finding into a "new" one
    try:
        kf = json.load(open(os.path.join(VERIF, "known_findings.json")))
        for e in kf.get("findings", []):
            if e.get("status") == "known":
                names |= set(re.findall(r"[A-Za-z_][A-Za-z0-9_]*", json.dumps(e.get("key", ""))))
    except (OSError, ValueError):
        pass
    return names


def main() -> int:
    repo = Repo(REPO)
    names = {n for n in mentioned_names() if n.startswith("_") and not n.startswith("__")}
    fns = {}
    for q, f in repo.funcs.items():
        if f.parent is None and f.name in names:
            fns[q] = dict(module=f.module.name, cls=f.cls.qual if f.cls else None, name=f.name, params=func_params(f.node), bag=func_bag(f.node))
    mods: dict[str, list[str]] = {}
    for q, f in repo.funcs.items():
        if f.parent is None:
            mods.setdefault(f.module.name, []).append(q)
    allnames = sorted({f.name for f in repo.funcs.values()})
    head = subprocess.run(["git", "-C", REPO, "rev-parse", "--short", "HEAD"], capture_output=True, text=True).stdout.strip()
    with open(os.path.join(os.path.dirname(__file__), "anchors_ref.json"), "w") as fh:
        json.dump(dict(head=head, functions=fns, modules={m: sorted(v) for m, v in mods.items()}, names=allnames), fh, indent=0, sort_keys=True)
    print(f"anchors_ref.json: {len(fns)} private functions ({len({r['name'] for r in fns.values()})} names) at {head}")
    return 0


if __name__ == "__main__":
    sys.exit(main())
