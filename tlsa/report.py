"""Run bookkeeping: rule instances, findings, known-findings, evidence, exit code."""

from __future__ import annotations

import hashlib
import json
import os
import time
from dataclasses import dataclass, field

from . import VERIF


@dataclass
class Finding:
    prop: str
    rule: str
    symbol: str
    construct: str
    what: str
    loc: str = ""
    path: list[str] = field(default_factory=list)

    @property
    def key(self) -> dict:
        return {"rule": self.rule, "symbol": self.symbol, "construct": self.construct}

    @property
    def keystr(self) -> str:
        return f"{self.prop}|{self.rule}|{self.symbol}|{self.construct}"


class AnalysisError(Exception):
    pass


class Run:
    def __init__(self, prop: str, tier: str, root: str, seed: int = 0):
        self.prop = prop
        self.tier = tier
        self.root = root
        self.seed = seed
        self.t0 = time.time()
        self.findings: list[Finding] = []
        self.instances: list[dict] = []  # every evaluated instance
        self.rules: dict[str, dict] = {}
        self.errors: list[str] = []
        self.extra: dict = {}
        self.assumptions: list[str] = []
        self.trusted: list[str] = []

    # ------------------------------------------------------------ rules
    def rule(self, rid: str, text: str, floor: int = 1, decides: str = "") -> str:
        self.rules[rid] = dict(text=text, floor=floor, decides=decides, n=0, ok=0, findings=0, undecided=0, nontrivial=0)
        return rid

    def ok(self, rid: str, symbol: str, detail: str = "", nontrivial: bool = True) -> None:
        r = self.rules[rid]
        r["n"] += 1
        r["ok"] += 1
        r["nontrivial"] += 1 if nontrivial else 0
        self.instances.append(dict(rule=rid, symbol=symbol, verdict="ok", detail=detail, nontrivial=nontrivial))

    def finding(self, rid: str, symbol: str, construct: str, what: str, loc: str = "", path: list[str] | None = None) -> None:
        r = self.rules[rid]
        r["n"] += 1
        r["findings"] += 1
        r["nontrivial"] += 1
        f = Finding(self.prop, rid, symbol, construct, what, loc, path or [])
        self.findings.append(f)
        self.instances.append(dict(rule=rid, symbol=symbol, verdict="finding", detail=what, construct=construct, loc=loc, nontrivial=True))

    def undecided(self, rid: str, symbol: str, why: str) -> None:
        r = self.rules[rid]
        r["n"] += 1
        r["undecided"] += 1
        self.instances.append(dict(rule=rid, symbol=symbol, verdict="undecided", detail=why, nontrivial=False))

    def error(self, msg: str) -> None:
        self.errors.append(msg)

    def require(self, cond: bool, msg: str) -> None:
        if not cond:
            raise AnalysisError(msg)

    # ----------------------------------------------------------- finish
    def finish(self, explanation: str, known_path: str | None = None, evidence_dir: str | None = None, baseline: dict | None = None) -> int:
        known_path = known_path or os.path.join(VERIF, "known_findings.json")
        evidence_dir = evidence_dir or os.path.join(VERIF, "evidence")
        os.makedirs(os.path.join(evidence_dir, "replay"), exist_ok=True)
        known = _load_known(known_path, self.prop)
        # instance floors
        for rid, r in self.rules.items():
            if r["n"] < r["floor"]:
                self.errors.append(f"rule {rid}: {r['n']} instances < floor {r['floor']} (anchor vanished or rule no longer matches)")
        # decided->undecided regression against frozen baseline
        if baseline:
            for rid, r in self.rules.items():
                mx = baseline.get(rid, {}).get("max_undecided")
                if mx is not None and r["undecided"] > mx:
                    self.errors.append(f"rule {rid}: {r['undecided']} undecided instances > frozen {mx}")
        lines: list[str] = []
        n_known = 0
        n_viol = 0
        seen_keys = set()
        all_findings = []
        for f in self.findings:
            if f.keystr in seen_keys:
                continue
            seen_keys.add(f.keystr)
            k = known.get((f.rule, f.symbol, f.construct))
            all_findings.append(dict(key=f.key, what=f.what, loc=f.loc, status="known" if k is not None else "new"))
            if k is not None:
                n_known += 1
                lines.append(f"KNOWN-FINDING: property={self.prop} {f.rule} {f.symbol}: {f.what} [{f.loc}]")
            else:
                n_viol += 1
                h = hashlib.sha1(f.keystr.encode()).hexdigest()[:12]
                rp = os.path.join(evidence_dir, "replay", f"{self.prop}-{h}.json")
                with open(rp, "w") as fh:
                    json.dump(dict(property=self.prop, key=f.key, what=f.what, loc=f.loc, path=f.path, rule_text=self.rules[f.rule]["text"]), fh, indent=1)
                lines.append(f"  {f.rule} {f.symbol} @ {f.loc}: {f.what}")
                lines.append(f"    construct: {f.construct}")
                for p in f.path[:12]:
                    lines.append(f"      via {p}")
                lines.append(f"VIOLATION property={self.prop} replay={rp}")
        wall = time.time() - self.t0
        n_inst = sum(r["n"] for r in self.rules.values())
        n_ok = sum(r["ok"] for r in self.rules.values())
        n_und = sum(r["undecided"] for r in self.rules.values())
        distinct_nt = len({(i["rule"], i["symbol"], i.get("construct", "")) for i in self.instances if i["nontrivial"]})
        # samples: a few instances per rule
        samples = []
        per = {}
        for i in self.instances:
            per.setdefault(i["rule"], [])
            if len(per[i["rule"]]) < 3 or i["verdict"] != "ok" and len(per[i["rule"]]) < 8:
                per[i["rule"]].append(i)
        for rid, lst in per.items():
            for i in lst:
                samples.append({k: v for k, v in i.items() if k != "nontrivial"})
        ev = dict(
            property_id=self.prop,
            tier=self.tier,
            seed=self.seed,
            level="other",
            coverage=dict(
                explanation=explanation,
                rule="each case is one (rule, code construct) instance re-discovered from /repo's current source; an instance is non-trivial when its verdict needed a resolved call, a folded constant, a followed flow or a table comparison (not mere syntactic absence); distinct by (rule, symbol, construct)",
                evaluations=n_inst,
                distinct_nontrivial=distinct_nt,
                obligations=n_inst,
                discharged=n_ok,
                undecided=n_und,
                known_findings=n_known,
                new_violations=n_viol,
                rules={rid: dict(text=r["text"], decides=r["decides"], instances=r["n"], ok=r["ok"], findings=r["findings"], undecided=r["undecided"], floor=r["floor"]) for rid, r in self.rules.items()},
                samples=samples[:120],
                findings=all_findings,
                exhaustive=True,
                trusted_base=self.trusted or ["python ast", "mypy type export (call resolution)", "frozen idiom tables in tlsa/props"],
                analysed_root=self.root,
                **self.extra,
            ),
            assumptions=self.assumptions,
            wall_s=round(wall, 3),
            violations=n_viol,
        )
        if self.errors:
            ev["coverage"]["analysis_errors"] = self.errors
        with open(os.path.join(evidence_dir, f"{self.prop}.json"), "w") as fh:
            json.dump(ev, fh, indent=1, default=str)
        for rid, r in self.rules.items():
            print(f"[{self.prop}] {rid}: {r['n']} instances, {r['ok']} ok, {r['findings']} findings, {r['undecided']} undecided  -- {r['text'][:90]}")
        for ln in lines:
            print(ln)
        if self.errors:
            for e in self.errors:
                print(f"ANALYSIS-ERROR property={self.prop} {e}")
            # a concretely located new violation outranks an instance-floor shortfall (which it may itself cause)
            return 1 if n_viol else 2
        print(f"[{self.prop}] {n_inst} instances over {len(self.rules)} rules: {n_ok} ok, {n_known} known findings, {n_viol} new violations, {n_und} undecided ({wall:.1f}s)")
        return 1 if n_viol else 0


def _load_known(path: str, prop: str) -> dict:
    if not os.path.exists(path):
        return {}
    with open(path) as fh:
        data = json.load(fh)
    out = {}
    for e in data.get("findings", []):
        if e.get("property") == prop and e.get("status") == "known":
            k = e["key"]
            out[(k["rule"], k["symbol"], k["construct"])] = e
    return out
