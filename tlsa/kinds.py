"""Tree-sitter node-kind literals used by the TypeScript / Rust analyzers."""

from __future__ import annotations

import ast

from .facts import UNKNOWN, Repo, call_name


def module_language(name: str) -> str | None:
    last = name.split(".")
    if any("rust" in p for p in last[2:] or last) or name.endswith("rust_base") or name.endswith("rust_context"):
        if "rust" in name:
            return "rust"
    if "typescript" in name or "_ts_" in name or name.endswith(".tsx"):
        return "typescript"
    return None


def kind_literals(repo: Repo, cg, m) -> list[tuple[str, str, int, str]]:
    """[(kind, how, line, function)] for one module."""
    out = []
    owner = {}
    for f in repo.funcs.values():
        if f.module is m:
            for n in ast.walk(f.node):
                owner.setdefault(id(n), f)

    def fn(n):
        f = owner.get(id(n))
        return f.qual.replace("src.", "", 1) if f else m.name.replace("src.", "", 1)

    def cls_of(n):
        f = owner.get(id(n))
        return f.cls if f else None

    def strs(e, n):
        v = repo.fold(m, e, cls_of(n))
        if isinstance(v, str):
            return [v]
        if isinstance(v, (tuple, list, set, frozenset)):
            return [x for x in v if isinstance(x, str)]
        return []

    for n in ast.walk(m.tree):
        if isinstance(n, ast.Compare) and len(n.ops) == 1:
            sides = [n.left, n.comparators[0]]
            if any(isinstance(s, ast.Attribute) and s.attr in ("type", "kind") for s in sides):
                other = sides[1] if isinstance(sides[0], ast.Attribute) and sides[0].attr in ("type", "kind") else sides[0]
                for k in strs(other, n):
                    out.append((k, "compare", n.lineno, fn(n)))
        elif isinstance(n, ast.Call):
            nm = call_name(n)
            if nm in ("child_by_field_name", "children_by_field_name") and n.args:
                for k in strs(n.args[0], n):
                    out.append((k, "field", n.lineno, fn(n)))
            elif nm and ("type" in nm or nm in ("walk_tree",)):
                site = cg.site_at(m.name, n.lineno, n.col_offset)
                if site is None:
                    continue
                for cq in site["callees"]:
                    g = repo.funcs.get(cq)
                    if g is None:
                        continue
                    ps = [a.arg for a in g.node.args.args]
                    off = 1 if g.cls is not None and ps and ps[0] in ("self", "cls") else 0
                    for i, a in enumerate(n.args):
                        if i + off < len(ps) and ("type" in ps[i + off] or "kind" in ps[i + off]):
                            for k in strs(a, n):
                                out.append((k, f"arg:{nm}", n.lineno, fn(n)))
                    break
    # class / module level kind tables
    tables = []
    for nm, e in m.assigns.items():
        tables.append((nm, e, None))
    for c in repo.classes.values():
        if c.module is m:
            for nm, e in c.assigns.items():
                tables.append((nm, e, c))
    for nm, e, c in tables:
        if nm.isupper() and "NODE" in nm:
            v = repo.fold(m, e, c)
            if isinstance(v, (tuple, list, set, frozenset)):
                for k in v:
                    if isinstance(k, str):
                        out.append((k, f"table:{nm}", getattr(e, "lineno", 0), (c.qual if c else m.name).replace("src.", "", 1)))
            elif isinstance(v, dict):
                for k in v:
                    if isinstance(k, str):
                        out.append((k, f"table:{nm}", getattr(e, "lineno", 0), (c.qual if c else m.name).replace("src.", "", 1)))
    return out
