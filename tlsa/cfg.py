"""Structured control-flow paths through a function body.

Acyclic path enumeration over the statement kinds thai-lint uses: if/elif/else,
for/while (0 or 1 iteration), try/except/else/finally, with, match, return,
raise, break, continue.  A path is a list of events:

  ("stmt", node)            simple statement executed
  ("test", expr, bool)      branch condition and the direction taken
  ("iter", node, bool)      loop header, entered or skipped
  ("with", node)            with-items evaluated
  ("except", handler)       exception handler entered (body of try cut at an arbitrary point)
  ("case", match_case)      match arm taken
and ends with one of
  ("return", node) ("raise", node) ("end", None)

Path-insensitive apart from constant tests.  The enumerator gives up (returns
None) beyond ``limit`` paths so callers can report UNDECIDED instead of guessing.
"""

from __future__ import annotations

import ast
from typing import Callable, Iterable

Event = tuple
Path = list


NORETURN_CALLS = {"sys.exit", "exit", "os._exit", "quit", "handle_linting_error", "ctx.exit", "ctx.abort"}


class TooManyPaths(Exception):
    pass


def enumerate_paths(body: list[ast.stmt], limit: int = 4000) -> list[Path] | None:
    try:
        out = []
        for path, status in _seq(body, limit):
            if status == "fall":
                path = path + [("end", None)]
            elif status in ("break", "continue"):
                path = path + [("end", None)]
            out.append(path)
            if len(out) > limit:
                raise TooManyPaths
        return out
    except TooManyPaths:
        return None


def _const_test(e: ast.expr):
    if isinstance(e, ast.Constant):
        return bool(e.value)
    return None


def _seq(stmts: list[ast.stmt], limit: int) -> list[tuple[Path, str]]:
    """Return list of (events, status) with status in fall/return/raise/break/continue."""
    results: list[tuple[Path, str]] = [([], "fall")]
    for st in stmts:
        nxt: list[tuple[Path, str]] = []
        alive = [(p, s) for p, s in results if s == "fall"]
        done = [(p, s) for p, s in results if s != "fall"]
        if not alive:
            break
        sub = _stmt(st, limit)
        for p, _ in alive:
            for q, s in sub:
                nxt.append((p + q, s))
                if len(nxt) + len(done) > limit:
                    raise TooManyPaths
        results = done + nxt
    return results


def _stmt(st: ast.stmt, limit: int) -> list[tuple[Path, str]]:
    if isinstance(st, ast.Return):
        return [([("return", st)], "return")]
    if isinstance(st, ast.Raise):
        return [([("raise", st)], "raise")]
    if isinstance(st, ast.Break):
        return [([], "break")]
    if isinstance(st, ast.Continue):
        return [([], "continue")]
    if isinstance(st, ast.If):
        c = _const_test(st.test)
        out = []
        if c is not False:
            for p, s in _seq(st.body, limit):
                out.append(([("test", st.test, True)] + p, s))
        if c is not True:
            for p, s in _seq(st.orelse, limit):
                out.append(([("test", st.test, False)] + p, s))
        return out
    if isinstance(st, (ast.For, ast.AsyncFor, ast.While)):
        out = []
        hdr = st
        # zero iterations
        for p, s in _seq(st.orelse, limit):
            out.append(([("iter", hdr, False)] + p, s))
        # one iteration
        for p, s in _seq(st.body, limit):
            if s in ("fall", "continue"):
                for p2, s2 in _seq(st.orelse, limit):
                    out.append(([("iter", hdr, True)] + p + p2, s2))
            elif s == "break":
                out.append(([("iter", hdr, True)] + p, "fall"))
            else:
                out.append(([("iter", hdr, True)] + p, s))
        return out
    if isinstance(st, (ast.With, ast.AsyncWith)):
        return [([("with", st)] + p, s) for p, s in _seq(st.body, limit)]
    if isinstance(st, (ast.Try, getattr(ast, "TryStar", ast.Try))):
        out = []
        fin = _seq(st.finalbody, limit) if st.finalbody else [([], "fall")]

        def with_finally(p, s):
            res = []
            for fp, fs in fin:
                res.append((p + fp, s if fs == "fall" else fs))
            return res

        body_paths = _seq(st.body, limit)
        for p, s in body_paths:
            if s == "fall":
                for p2, s2 in _seq(st.orelse, limit) if st.orelse else [([], "fall")]:
                    out.extend(with_finally(p + p2, s2))
            else:
                out.extend(with_finally(p, s))
        # exceptional paths: the handler may be entered after any prefix of the body; we model the two
        # extremes that matter for must-pass-through queries: nothing of the body ran.
        for h in st.handlers:
            for p, s in _seq(h.body, limit):
                out.extend(with_finally([("except", h)] + p, s))
        return out
    if isinstance(st, ast.Match):
        out = []
        for case in st.cases:
            for p, s in _seq(case.body, limit):
                out.append(([("test", st.subject, True), ("case", case)] + p, s))
        if not any(isinstance(c.pattern, ast.MatchAs) and c.pattern.pattern is None and c.guard is None for c in st.cases):
            out.append(([("test", st.subject, False)], "fall"))
        return out
    if isinstance(st, (ast.FunctionDef, ast.AsyncFunctionDef, ast.ClassDef)):
        return [([], "fall")]
    if isinstance(st, ast.Expr) and isinstance(st.value, ast.Call) and ast.unparse(st.value.func) in NORETURN_CALLS:
        return [([("stmt", st), ("raise", st)], "raise")]
    return [([("stmt", st)], "fall")]


# ---------------------------------------------------------------- queries
def event_nodes(ev: Event) -> Iterable[ast.AST]:
    k = ev[0]
    if k in ("stmt", "return", "raise"):
        if ev[1] is not None:
            yield ev[1]
    elif k == "test":
        yield ev[1]
    elif k == "iter":
        n = ev[1]
        if isinstance(n, ast.While):
            yield n.test
        else:
            yield n.iter
            yield n.target
    elif k == "with":
        for it in ev[1].items:
            yield it.context_expr
            if it.optional_vars is not None:
                yield it.optional_vars
    elif k == "case":
        if ev[1].guard is not None:
            yield ev[1].guard


def event_has(ev: Event, pred: Callable[[ast.AST], bool]) -> bool:
    for root in event_nodes(ev):
        for n in ast.walk(root):
            if pred(n):
                return True
    return False


def first_index(path: Path, pred: Callable[[ast.AST], bool]) -> int | None:
    for i, ev in enumerate(path):
        if event_has(ev, pred):
            return i
    return None


def terminal(path: Path) -> Event:
    return path[-1]


def returns_nonempty(ev: Event) -> bool:
    """A return that is not provably an empty list / None / False."""
    if ev[0] != "return":
        return False
    v = ev[1].value
    if v is None:
        return False
    if isinstance(v, (ast.List, ast.Tuple)) and not v.elts:
        return False
    if isinstance(v, ast.Constant) and v.value in (None, False):
        return False
    return True



def path_returns_nonempty(path: Path) -> bool:
    """returns_nonempty for the path's final event, also resolving `return v` where the last assignment to v on this
    very path is an empty list/tuple literal (single-return style: `v = []; if ...: v = f(); return v`)."""
    if not path:
        return False
    ev = path[-1]
    if not returns_nonempty(ev):
        return False
    v = ev[1].value
    if isinstance(v, ast.Name):
        last = None
        for e in path[:-1]:
            if e[0] == "stmt" and isinstance(e[1], (ast.Assign, ast.AnnAssign)) and e[1].value is not None:
                tgts = e[1].targets if isinstance(e[1], ast.Assign) else [e[1].target]
                if any(isinstance(t, ast.Name) and t.id == v.id for t in tgts):
                    last = e[1].value
            elif e[0] == "stmt" and isinstance(e[1], (ast.AugAssign,)) and isinstance(e[1].target, ast.Name) and e[1].target.id == v.id:
                last = e[1]
            elif e[0] == "stmt" and isinstance(e[1], ast.Expr) and isinstance(e[1].value, ast.Call) and isinstance(e[1].value.func, ast.Attribute) and isinstance(e[1].value.func.value, ast.Name) and e[1].value.func.value.id == v.id:
                last = e[1]   # v.append(...) / v.extend(...): may be non-empty
        if isinstance(last, (ast.List, ast.Tuple)) and not last.elts:
            return False
    return True
