"""Facts about the linter plug-ins: rule classes, rule-specific reachability, violation sinks,
the emitted rule-id universe, and a small inter-procedural constant/argument back-tracer."""

from __future__ import annotations

import ast
from collections import deque
from dataclasses import dataclass, field
from typing import Any

from .facts import UNKNOWN, Cls, Func, Repo, dotted, kwarg, norm
from .report import AnalysisError

BASE_RULE = "src.core.base.BaseLintRule"
ABSTRACT_BASES = {BASE_RULE, "src.core.base.MultiLanguageLintRule", "src.core.python_lint_rule.PythonOnlyLintRule"}

SINKS = {
    "new:src.core.types.Violation": ("rule_id", "file_path", "line", "column", "message", "severity", "suggestion"),
    "new:src.core.violation_builder.ViolationInfo": ("rule_id", "file_path", "line", "message", "column", "severity", "suggestion"),
    "src.core.violation_builder.build_violation_from_params": ("rule_id", "file_path", "line", "message", "column", "severity", "suggestion"),
    "src.core.violation_builder.BaseViolationBuilder.build_from_params": ("rule_id", "file_path", "line", "message", "column", "severity", "suggestion"),
}
SINK_INTERNAL_MODULES = {"src.core.violation_builder", "src.core.types"}


@dataclass
class RuleInfo:
    cls: Cls
    qual: str
    pkg: str  # src.linters.<pkg>
    rule_id: Any
    kind: str  # multi | pyonly | plain
    check: Func  # resolved through MRO
    finalize: Func | None  # None when not overridden
    lang_entries: dict[str, Func] = field(default_factory=dict)

    @property
    def short(self) -> str:
        return self.cls.name


class AstIndex:
    def __init__(self, repo: Repo):
        self.repo = repo
        self._calls: dict[str, dict[tuple[int, int], ast.Call]] = {}
        self._owner: dict[str, dict[int, str]] = {}

    def call_at(self, module: str, span) -> ast.Call | None:
        idx = self._calls.get(module)
        if idx is None:
            idx = {}
            for n in ast.walk(self.repo.modules[module].tree):
                if isinstance(n, ast.Call):
                    idx.setdefault((n.lineno, n.col_offset), []).append(n)
            self._calls[module] = idx
        line, col = span[0], span[1]
        end_line, end_col = (span[2], span[3]) if len(span) >= 4 else (None, None)
        for dc in (0, 1, -1):
            cs = idx.get((line, col + dc))
            if cs:
                if len(cs) == 1 or end_col in (None, -1):
                    return cs[0]
                # several calls start here (a.b().c()): pick the one with the matching end
                for c in cs:
                    if c.end_lineno == end_line and abs((c.end_col_offset or 0) - end_col) <= 1:
                        return c
                return min(cs, key=lambda c: (abs((c.end_lineno or 0) - (end_line or 0)), abs((c.end_col_offset or 0) - (end_col or 0))))
        return None


class Linters:
    def __init__(self, ctx):
        self.ctx = ctx
        self.repo: Repo = ctx.repo
        self.cg = ctx.cg
        self.idx = AstIndex(self.repo)
        self.rules = self._rules()
        self._reach_cache: dict[str, dict] = {}
        self._sinks = None

    # ------------------------------------------------------------ rules
    def _rules(self) -> list[RuleInfo]:
        out = []
        for cq in self.repo.subclasses(BASE_RULE, strict=True):
            if cq in ABSTRACT_BASES or not cq.startswith("src.linters."):
                continue
            c = self.repo.classes[cq]
            mro = self.repo.mro(cq)
            kind = "multi" if "src.core.base.MultiLanguageLintRule" in mro else "pyonly" if "src.core.python_lint_rule.PythonOnlyLintRule" in mro else "plain"
            f = self.repo.find_method(cq, "rule_id")
            rid = self.repo.fold_property(f) if f else UNKNOWN
            chk = self.repo.find_method(cq, "check")
            if chk is None:
                raise AnalysisError(f"{cq} has no check()")
            fin = self.repo.find_method(cq, "finalize")
            if fin is not None and fin.cls is not None and fin.cls.qual == BASE_RULE:
                fin = None
            ri = RuleInfo(cls=c, qual=cq, pkg=".".join(cq.split(".")[:3]), rule_id=rid, kind=kind, check=chk, finalize=fin)
            for lang, m in (("python", "_check_python"), ("typescript", "_check_typescript"), ("rust", "_check_rust"), ("python", "_analyze")):
                fm = self.repo.find_method(cq, m)
                if fm is not None and fm.cls is not None and fm.cls.qual not in ABSTRACT_BASES:
                    ri.lang_entries[lang] = fm
            out.append(ri)
        return out

    def rule(self, short: str) -> RuleInfo:
        for r in self.rules:
            if r.short == short:
                return r
        raise AnalysisError(f"rule class {short} not found")

    # ----------------------------------------------- rule-specific reach
    def reach_from(self, rule: RuleInfo, roots: list[str], kinds=("call", "ref", "prop", "nested", "classref")) -> dict:
        """BFS where self-calls made in inherited template code dispatch to *this* rule's overrides only."""
        anc = set(self.repo.mro(rule.qual)) - {rule.qual}
        other_rules = {r.qual for r in self.rules if r.qual != rule.qual}
        pred: dict[str, tuple | None] = {}
        dq = deque()
        for r in roots:
            if r not in pred:
                pred[r] = None
                dq.append(r)
        while dq:
            f = dq.popleft()
            for s in self.cg.out.get(f, ()):
                if s["kind"] not in kinds:
                    continue
                callees = s["callees"]
                if s["recv"] and any(rc in anc for rc in s["recv"]):
                    fm = self.repo.find_method(rule.qual, s["name"])
                    callees = [fm.qual] if fm is not None else []
                for c in callees:
                    # never hop into another rule class's methods
                    oc = c.rsplit(".", 1)[0]
                    if oc in other_rules:
                        continue
                    if c not in pred:
                        pred[c] = (f, s)
                        dq.append(c)
        return pred

    def rule_roots(self, rule: RuleInfo, with_init: bool = False) -> list[str]:
        roots = [rule.check.qual]
        if rule.finalize is not None:
            roots.append(rule.finalize.qual)
        if with_init:
            # helper objects built in the constructor may capture function references (builder tables)
            init = self.repo.find_method(rule.qual, "__init__")
            if init is not None:
                roots.append(init.qual)
        return roots

    def reach(self, rule: RuleInfo) -> dict:
        if rule.qual not in self._reach_cache:
            self._reach_cache[rule.qual] = self.reach_from(rule, self.rule_roots(rule, with_init=True))
        return self._reach_cache[rule.qual]

    # ------------------------------------------------------------ sinks
    def sinks(self) -> list[dict]:
        """Violation construction sites outside the shared builder module."""
        if self._sinks is not None:
            return self._sinks
        out = []
        for s in self.cg.sites:
            if s["kind"] != "call":
                continue
            hit = [c for c in s["callees"] if c in SINKS]
            if not hit or s["module"] in SINK_INTERNAL_MODULES:
                continue
            call = self.idx.call_at(s["module"], s["span"])
            if call is None:
                raise AnalysisError(f"no ast call for sink at {s['module']}:{s['span']}")
            names = SINKS[hit[0]]
            args = {}
            for i, k in enumerate(names):
                v = kwarg(call, k, i)
                if v is not None:
                    args[k] = v
            out.append(dict(site=s, call=call, args=args, caller=s["caller"], module=s["module"], kind=hit[0]))
        self._sinks = out
        return out

    # ------------------------------------------------- argument tracing
    def func_of(self, qual: str) -> Func | None:
        return self.repo.funcs.get(qual)

    def param_index(self, f: Func, name: str) -> int | None:
        a = f.node.args
        names = [x.arg for x in a.posonlyargs + a.args]
        if name in names:
            i = names.index(name)
            if f.cls is not None and names and names[0] in ("self", "cls") and not any("staticmethod" in d for d in f.decorators):
                return i - 1
            return i
        return None

    def param_default(self, f: Func, name: str) -> ast.expr | None:
        a = f.node.args
        pos = a.posonlyargs + a.args
        names = [x.arg for x in pos]
        if name in names:
            i = names.index(name)
            off = len(pos) - len(a.defaults)
            if i >= off:
                return a.defaults[i - off]
        for k, d in zip(a.kwonlyargs, a.kw_defaults):
            if k.arg == name:
                return d
        return None

    def call_arg(self, call: ast.Call, f: Func, name: str) -> ast.expr | None:
        for k in call.keywords:
            if k.arg == name:
                return k.value
        i = self.param_index(f, name)
        if i is not None and i < len(call.args) and not any(isinstance(x, ast.Starred) for x in call.args[: i + 1]):
            return call.args[i]
        return None

    def arg_exprs(self, fqual: str, param: str) -> list[tuple[dict, ast.Call, ast.expr | None]]:
        """All (site, call, expr) passing a value for `param` of function fqual."""
        f = self.func_of(fqual)
        if f is None:
            return []
        out = []
        targets = [fqual]
        if f.name == "__init__" and f.cls is not None:
            targets.append(f"new:{f.cls.qual}")
        seen = set()
        for t in targets:
            for s in self.cg.inn.get(t, ()):
                if s["kind"] != "call" or id(s) in seen:
                    continue
                seen.add(id(s))
                call = self.idx.call_at(s["module"], s["span"])
                if call is None:
                    continue
                out.append((s, call, self.call_arg(call, f, param)))
        return out

    def const_values(self, fqual: str, expr: ast.expr, depth: int = 4) -> set:
        """Possible constant values of expr evaluated inside function fqual (UNKNOWN in set if not all known)."""
        f = self.func_of(fqual)
        if f is None:
            return {UNKNOWN}
        v = self.repo.fold(f.module, expr, f.cls)
        if v is not UNKNOWN:
            try:
                return {v}
            except TypeError:
                return {UNKNOWN}
        if depth <= 0:
            return {UNKNOWN}
        if isinstance(expr, ast.IfExp):
            return self.const_values(fqual, expr.body, depth) | self.const_values(fqual, expr.orelse, depth)
        # self.rule_id inside a rule class
        d = dotted(expr)
        if d and d.startswith("self.") and f.cls is not None:
            attr = d[5:]
            if "." not in attr:
                m = self.repo.find_method(f.cls.qual, attr)
                if m is not None and m.is_property:
                    pv = self.repo.fold_property(m)
                    if pv is not UNKNOWN:
                        return {pv}
                # abstract property on base: collect concrete subclasses' values
                if m is not None and m.is_property and f.cls.qual in ABSTRACT_BASES:
                    return {UNKNOWN}
                # attribute assigned in __init__ from a parameter
                return self._self_attr_values(f.cls, attr, depth - 1)
        if isinstance(expr, ast.Name):
            # parameter of this function?
            a = f.node.args
            pnames = [x.arg for x in a.posonlyargs + a.args + a.kwonlyargs]
            if expr.id in pnames:
                # reassigned locally? then unknown
                if any(isinstance(n, ast.Name) and n.id == expr.id and isinstance(n.ctx, ast.Store) for n in ast.walk(f.node)):
                    return {UNKNOWN}
                vals: set = set()
                sites = self.arg_exprs(fqual, expr.id)
                if not sites:
                    return {UNKNOWN}
                for s, call, e in sites:
                    if e is None:
                        dflt = self.param_default(f, expr.id)
                        vals |= self.const_values(fqual, dflt, 0) if dflt is not None else {UNKNOWN}
                    else:
                        vals |= self.const_values(s["caller"], e, depth - 1)
                return vals
            # single local assignment
            assigns = [n for n in ast.walk(f.node) if isinstance(n, ast.Assign) and any(isinstance(t, ast.Name) and t.id == expr.id for t in n.targets)]
            if len(assigns) == 1:
                return self.const_values(fqual, assigns[0].value, depth - 1)
        return {UNKNOWN}

    def _self_attr_values(self, cls: Cls, attr: str, depth: int) -> set:
        vals: set = set()
        found = False
        for cq in self.repo.mro(cls.qual):
            c = self.repo.classes.get(cq)
            if c is None:
                continue
            for m in c.methods.values():
                for n in ast.walk(m.node):
                    if isinstance(n, (ast.Assign, ast.AnnAssign)):
                        tgts = n.targets if isinstance(n, ast.Assign) else [n.target]
                        for t in tgts:
                            if isinstance(t, ast.Attribute) and isinstance(t.value, ast.Name) and t.value.id == "self" and t.attr == attr and n.value is not None:
                                found = True
                                vals |= self.const_values(m.qual, n.value, depth)
        return vals if found else {UNKNOWN}

    # -------------------------------------------------------------- IDS
    def emitted_ids(self) -> dict[str, list[dict]]:
        """rule id -> list of sink records; UNKNOWN ids are kept under the key '?'."""
        out: dict[str, list[dict]] = {}
        for sk in self.sinks():
            e = sk["args"].get("rule_id")
            vals = self.const_values(sk["caller"], e) if e is not None else {UNKNOWN}
            for v in vals:
                out.setdefault(v if isinstance(v, str) else "?", []).append(sk)
        return out


def leaf_exprs(L: "Linters", fqual: str, expr: ast.expr, depth: int = 4, _seen: set | None = None) -> list[tuple[str, ast.expr]]:
    """Expressions that can flow into `expr` (evaluated in fqual): follows parameters to call-site arguments,
    single local assignments, IfExp/BoolOp-or branches.  Returns [(function, leaf expression)]."""
    _seen = _seen if _seen is not None else set()
    f = L.func_of(fqual)
    if f is None or depth < 0:
        return [(fqual, expr)]
    key = (fqual, ast.dump(expr))
    if key in _seen:
        return []
    _seen.add(key)
    if isinstance(expr, ast.IfExp):
        return leaf_exprs(L, fqual, expr.body, depth, _seen) + leaf_exprs(L, fqual, expr.orelse, depth, _seen)
    if isinstance(expr, ast.Name):
        a = f.node.args
        pnames = [x.arg for x in a.posonlyargs + a.args + a.kwonlyargs]
        stores = [n for n in ast.walk(f.node) if isinstance(n, (ast.Assign, ast.AnnAssign)) and any(isinstance(t, ast.Name) and t.id == expr.id for t in (n.targets if isinstance(n, ast.Assign) else [n.target]))]
        if expr.id in pnames and not stores:
            out: list[tuple[str, ast.expr]] = []
            sites = L.arg_exprs(fqual, expr.id)
            if not sites:
                return [(fqual, expr)]
            for s, call, e in sites:
                if e is None:
                    d = L.param_default(f, expr.id)
                    if d is not None:
                        out.append((fqual, d))
                else:
                    out.extend(leaf_exprs(L, s["caller"], e, depth - 1, _seen))
            return out
        if stores and expr.id not in pnames:
            out = []
            for st in stores:
                if st.value is not None and not isinstance(st.value, ast.Tuple):
                    # tuple-unpacking targets are not followed
                    if isinstance(st, ast.Assign) and not all(isinstance(t, ast.Name) for t in st.targets):
                        out.append((fqual, expr))
                    else:
                        out.extend(leaf_exprs(L, fqual, st.value, depth - 1, _seen))
            return out or [(fqual, expr)]
    return [(fqual, expr)]
