"""Generate /verif/MANIFEST.json from the table below: python -m tlsa.manifest"""

from __future__ import annotations

import importlib
import json
import os

from . import VERIF

BASE_NOTE = (
    "Trusted base: Python's ast, mypy's exported expression types (call resolution; unresolved receivers are "
    "over-approximated by method name), the frozen idiom/construct tables in tlsa/props, and for doc-derived oracles "
    "the assumption that docs/ and the config template state the intended interface. The rules decide necessary "
    "structural conditions of the property on every instance in the current tree; the run-time behaviour for "
    "arbitrary inputs is not established."
)

# id -> (claimed?, technique, level text, extra note)
PROPS: dict[str, dict] = {
    "C14": dict(
        technique="static analysis: must-pass-through (gate dominance) on lint_file paths, who-may-call on the rule-execution chain, table agreement, walk-shape rule",
        text="Exhaustive evaluation of 4 repository-specific structural rules (W1-W4) over every instance in the current tree: both exclusion gates dominate rule execution on all CFG paths of lint_file and rules are reachable only through it; pruning and per-file predicates share the documented tables; the os.walk shape (top-down, pruned in place, non-recursive break after first level). Each rule is a necessary condition of the property; pattern semantics on arbitrary trees are not established.",
        ref="DESIGN.md §4 C14",
    ),
}

NOT_BUILT_REASON = "check not built yet in this commit (static rules designed in DESIGN.md §4; see git log for progress)"


def generate() -> dict:
    props = [json.loads(l)["id"] for l in open(os.path.join(VERIF, "properties.jsonl"))]
    checks = []
    na = []
    for pid in props:
        p = PROPS.get(pid)
        if p is None or not p.get("claimed", True):
            na.append(dict(property_id=pid, reason=(p or {}).get("na_reason", NOT_BUILT_REASON)))
            continue
        checks.append(
            dict(
                property_id=pid,
                quick_cmd=f"./check {pid} --tier quick",
                thorough_cmd=f"./check {pid} --tier thorough",
                evidence_file=f"/verif/evidence/{pid}.json",
                replay_cmd_template=f"./check {pid} --replay {{path}}",
                engine="tlsa",
                level_claimed=dict(category="other", text=p["text"], design_ref=p["ref"]),
                level_note=BASE_NOTE + (" " + p["note"] if p.get("note") else ""),
                technique=p["technique"],
            )
        )
    return dict(
        version=1,
        setup_cmd="/venv/bin/python -c \"import mypy, yaml, tree_sitter, tree_sitter_typescript, tree_sitter_rust\" && /venv/bin/python -m compileall -q tlsa >/dev/null && echo tlsa-ready",
        hooks=dict(
            guard="THAILINT_VERIF",
            enable="no hooks: checks read /repo's source and never execute it",
            baseline_off_cmd="cd /repo && /venv/bin/python -m pytest -ra -q -p no:cacheprovider --timeout=900 --continue-on-collection-errors",
            source_commits=[],
            add_only=True,
        ),
        engines=[
            dict(
                name="tlsa",
                path="/verif/tlsa",
                serves_properties=[c["property_id"] for c in checks],
                kind_free_text="repository-specific static analysis: ast fact base + mypy-resolved call graph + structured CFG paths + rule templates (table/sibling agreement, must-pass-through, typestate, who-may-call, dimension analysis, operator tables, key provenance)",
            )
        ],
        checks=checks,
        not_applicable=na,
        notes="All checks are static: nothing under /repo/src is imported or executed. Exit 2 + ANALYSIS-ERROR means the analysis could not decide (anchor vanished / instance floor not met), never a property violation.",
    )


def main() -> None:
    m = generate()
    with open(os.path.join(VERIF, "MANIFEST.json"), "w") as fh:
        json.dump(m, fh, indent=1)
    print(f"MANIFEST.json: {len(m['checks'])} checks, {len(m['not_applicable'])} not applicable")


if __name__ == "__main__":
    main()
