"""Generate /verif/MANIFEST.json from the table below: python -m tlsa.manifest"""

from __future__ import annotations

import importlib
import json
import os

from . import VERIF

BASE_NOTE = (
    "Trusted base: Python's ast, mypy's exported expression types (call resolution; unresolved receivers are "
    "over-approximated by method name), the frozen idiom/construct tables in tlsa/props, and for doc-derived oracles "
    "the assumption that docs/ and the config template state the intended interface. The rules decide necessary "
    "structural conditions of the property on every instance in the current tree; the run-time behaviour for "
    "arbitrary inputs is not established."
)

# id -> (claimed?, technique, level text, extra note)
def _p(technique, text, ref, note=""):
    return dict(technique=technique, text=text, ref=ref, note=note)


_COMMON = " Exhaustive over every instance re-discovered from /repo's current tree; each rule is a necessary structural condition of the property (breaking it breaks the behaviour for some input), the run-time behaviour on arbitrary inputs is not established. Findings recorded in known_findings.json are printed as KNOWN-FINDING."

PROPS: dict[str, dict] = {
    "C01": _p("static analysis: sibling agreement of the three depth walkers (signature start+1*k), doc/table agreement, operator table at the threshold site, grammar-vocabulary check of node-kind literals",
              "Rules N1-N7 over 3 walkers, 3 construct tables, 3 threshold sites, the Python child traversal, the sibling early-exit guards and every node-kind literal of the nesting package." + _COMMON, "DESIGN.md 4 C01"),
    "C02": _p("static analysis: path dominance of the allow-list test over violation construction (CFG + helper implication summaries), admission-predicate rule, handler discipline, exemption reachability in the call graph",
              "Rules M1-M4, M6-M13 (M13: no character-set strip of literal text) over the three language branches of the magic-number rule (allow-list dominance, admission, handlers, exemption reachability, traversal completeness, radix literals, config memoisation, ancestor-walk completeness, sibling UPPER_CASE predicates, twin bounds tests)." + _COMMON, "DESIGN.md 4 C02"),
    "C03": _p("static analysis: writer/reader template agreement, same-list rule, SQL text rules, hash-input rule",
              "Narrow claim: rules D1-D8 (D8: the skipped multi-line import closes on `)` anywhere in the line) decide the message codec, list identity, the duplicate/ordering SQL, the hash input/normaliser order, the window arithmetic, the overlap predicates and the sync/async method finders; soundness/completeness of duplicate detection itself is not decided." + _COMMON, "DESIGN.md 4 C03"),
    "C04": _p("static analysis: call-graph reachability of the ignore gate per rule and language branch, site-level gate-flow (path-sensitive value flow of constructed Violations through gate idioms), marker/regex sibling matrices, line-model def-use, scope coverage on CFG paths",
              "Rules I1(T1,T2), I2-I10 (I9 DRY filter order, I10 separator-stripped patterns) over 20 rule classes, 49 violation construction sites, 5 marker recognisers, 6 directive regexes and every line-list lookup." + _COMMON, "DESIGN.md 4 C04"),
    "C05": _p("static analysis: key provenance (documented section names vs metadata keys read), enabled-gate dominance with helper implication summaries, option wiring doc->from_dict->field->read, exception-path analysis to exit 2, CLI override level coverage, carrier/normalisation rules, threshold operator table",
              "Rules K1, K3, K4, K6-K12, K14 over 20 rule classes, 16 config classes (~110 documented options), 7 override helpers and all config readers." + _COMMON, "DESIGN.md 4 C05"),
    "C06": _p("static analysis: sibling agreement of the 19 command tails, exit-constant and handler rules, renderer iteration rules, constant-bound analysis of line/column arguments, static type of file_path from mypy",
              "Rules X1-X8 (X8: who may write to standard output) over 20 commands, 3 renderers and 49 construction sites." + _COMMON, "DESIGN.md 4 C06"),
    "C07": _p("static analysis: typestate/instance pairing of check() and finalize() on the parallel path, codec table agreement, future-consumption shape, handler discipline of the worker",
              "Narrow claim: rules P1-P5 (P5: work items forward path, root and config unchanged); completion order and partitioning are not decided." + _COMMON, "DESIGN.md 4 C07"),
    "C08": _p("static analysis: typestate of rule state (written under check vs reset on every finalize path), finalize pairing of lint_file callers, hash-value use rule, who-may-write reachability over the call graph with positive control, metadata key provenance",
              "Rules S1-S12 over 2 stateful rules, all lint_file callers, all hash() sites, every function reachable from the lint entry points, ~45 long-lived helper classes (accumulating attributes, content memos), all module-level names of src (run-time mutation), functools caches and the SQL of the two stores." + _COMMON, "DESIGN.md 4 C08"),
    "C09": _p("static analysis: who-may-call rule for cwd-rooted parser acquisition, path-predicate provenance (relative_to before directory-component predicates)",
              "Rules Q1-Q4 over 14 parser acquisitions and 21 path-predicate functions." + _COMMON, "DESIGN.md 4 C09"),
    "C10": _p("static analysis: sibling agreement of the library and CLI entry points over resolved orchestrator callees and their finalize behaviour",
              "Rules A1-A4 over both entry points and the five orchestrator lint methods." + _COMMON, "DESIGN.md 4 C10"),
    "C11": _p("static analysis: ValueError-escape rule over resolved callees with enumerated safe idioms, SyntaxError handler rule, frozen swallow table, unbounded-recursion walker detection, read-handler rule, regex-AST ambiguity analysis, mypy Optional diagnostics",
              "Rules E1-E12 over every function reachable from a rule (~900), the 67 regular expressions of src (E5: ambiguity degree from the regex AST), mypy's None/Optional diagnostics (E8), the SQL insert sites of the two stores (E9) and the magic-number message builders (E10)." + _COMMON, "DESIGN.md 4 C11"),
    "C12": _p("static analysis: dimension (unit) analysis of line/column values - backwards inter-procedural tracing through parameters, dataclass fields, dict keys, tuple positions and returns to parser sources",
              "Rules B1-B9 (B9: the quoted TypeScript function name is read from the direct parent) over 49 construction sites and every call that passes a node position (B5 same-node line/column, B6 no parent line for a part, B7 record line of class-level findings); sinks whose sources cannot be followed are counted as undecided (frozen maximum), never as violations." + _COMMON, "DESIGN.md 4 C12"),
    "C13": _p("static analysis: line-model def-use rule (splitlines vs parser newline model)",
              "Narrow claim: only the line-model and lookup-arithmetic clauses (L1-L8; L8 = the DRY import-skip state is threaded unchanged through blank/comment lines; L6 = no tree-sitter byte offset applied to a str, L7 = sibling walks / last-child picks allow for comment nodes) of the edit-invariance property are decided; all relations between two runs over program pairs are out of reach of a static argument." + _COMMON, "DESIGN.md 4 C13"),
    "C14": _p("static analysis: must-pass-through (gate dominance) on lint_file paths, who-may-call on the rule-execution chain, table agreement, walk-shape rule",
              "Rules W1-W6 over lint_file's CFG paths, the rule-execution call chain, the exclusion tables and the os.walk loop." + _COMMON, "DESIGN.md 4 C14"),
    "C15": _p("static analysis: constant propagation of emitted rule ids x command filter predicates (table evaluation), export/constructibility rules, language-guard dominance, section-key disjointness",
              "Rules U1-U8 over 20 commands x 37 emitted ids, 20 rule classes, the language detector and the shared parse helpers." + _COMMON, "DESIGN.md 4 C15"),
    "C16": _p("static analysis: operator table at the SRP threshold site, branch symmetry of from_dict, sibling record tables, public-method feature matrix",
              "Rules T1-T4, T6-T12 (T12: one keyword predicate in the three analyzers) over the evaluator, the config class, three analyzers and three method predicates." + _COMMON, "DESIGN.md 4 C16"),
    "C17": _p("static analysis: registry exhaustiveness (classifier strings = builder table = config-key table = config fields), sibling predicate agreement, grammar vocabulary",
              "Rules R1-R9 (R8 also: every sibling comment kind stepped over inside the attribute scan; R9: recursive containment searches test their own node) over the three Rust linters and every Rust node-kind literal." + _COMMON, "DESIGN.md 4 C17"),
    "C18": _p("static analysis: must-precede/short-circuit on CFG paths, control dependence of the global checks, consumed-vs-validated table agreement, exception-path analysis, prefix-boundary and path-relativisation rules",
              "Rules V1-V8 over the rule checker, matcher, validator and path resolver." + _COMMON, "DESIGN.md 4 C18"),
    "C19": _p("static analysis: doc<->code table agreement (rule ids, supported languages), grammar vocabulary of the TypeScript analyzers",
              "Narrow claim: rules Y1-Y5 (Y5: a parent_map climb behind a documented exemption tests every ancestor) decide necessary conditions for a documented example to be reportable at all; whether an example is detected where embedded is behaviour over programs and not decided." + _COMMON, "DESIGN.md 4 C19"),
    "C20": _p("static analysis: table agreement (template sections, placeholders, presets, choices), key-normalisation rule, validate-before-write dominance on CFG paths",
              "Rules G1-G9 over the merge helpers (sections, key spellings, insert position, line break), the load/store path and parser agreement, the template, the preset table, the validators and the three writing commands." + _COMMON, "DESIGN.md 4 C20"),
}

NOT_BUILT_REASON = "check not built yet in this commit (static rules designed in DESIGN.md §4; see git log for progress)"


def generate() -> dict:
    props = [json.loads(l)["id"] for l in open(os.path.join(VERIF, "properties.jsonl"))]
    checks = []
    na = []
    for pid in props:
        p = PROPS.get(pid)
        if p is None or not p.get("claimed", True):
            na.append(dict(property_id=pid, reason=(p or {}).get("na_reason", NOT_BUILT_REASON)))
            continue
        checks.append(
            dict(
                property_id=pid,
                quick_cmd=f"./check {pid} --tier quick",
                thorough_cmd=f"./check {pid} --tier thorough",
                evidence_file=f"/verif/evidence/{pid}.json",
                replay_cmd_template=f"./check {pid} --replay {{path}}",
                engine="tlsa",
                level_claimed=dict(category="other", text=p["text"], design_ref=p["ref"]),
                level_note=BASE_NOTE + (" " + p["note"] if p.get("note") else ""),
                technique=p["technique"],
            )
        )
    return dict(
        version=1,
        setup_cmd="/venv/bin/python -c \"import mypy, yaml, tree_sitter, tree_sitter_typescript, tree_sitter_rust\" && /venv/bin/python -m compileall -q tlsa >/dev/null && echo tlsa-ready",
        hooks=dict(
            guard="THAILINT_VERIF",
            enable="no hooks: checks read /repo's source and never execute it",
            baseline_off_cmd="cd /repo && /venv/bin/python -m pytest -ra -q -p no:cacheprovider --timeout=900 --continue-on-collection-errors",
            source_commits=[],
            add_only=True,
        ),
        engines=[
            dict(
                name="tlsa",
                path="/verif/tlsa",
                serves_properties=[c["property_id"] for c in checks],
                kind_free_text="repository-specific static analysis: ast fact base + mypy-resolved call graph + structured CFG paths + rule templates (table/sibling agreement, must-pass-through, typestate, who-may-call, dimension analysis, operator tables, key provenance)",
            )
        ],
        checks=checks,
        not_applicable=na,
        notes="All checks are static: nothing under /repo/src is imported or executed. Exit 2 + ANALYSIS-ERROR means the analysis could not decide (anchor vanished / instance floor not met), never a property violation.",
    )


def main() -> None:
    m = generate()
    with open(os.path.join(VERIF, "MANIFEST.json"), "w") as fh:
        json.dump(m, fh, indent=1)
    print(f"MANIFEST.json: {len(m['checks'])} checks, {len(m['not_applicable'])} not applicable")


if __name__ == "__main__":
    main()
