"""C09 - results do not depend on how paths are spelled or where the project lives.

Decides (structure only):
 Q1 every ignore-parser acquisition reachable from rule code resolves to a parser rooted at the orchestrator's project
    root: either the call passes a root, or get_ignore_parser() reuses the already configured parser when called
    without one (the default is Path.cwd());
 Q2 a predicate over directory components of the linted file's path (substring on str(path), membership in
    path.parts, fnmatch, startswith) is applied to a value derived from relative_to(<project root>); right-anchored
    Path.match and tests on path.name/suffix are location independent and accepted;
 Q3 the orchestrator hands its own project_root to the ignore parser and to the rules (_project_root);
 Q4 tables keyed by a file path are written and read under the same canonicalisation.
Not decided: the decisions fnmatch/glob patterns make.
"""

from __future__ import annotations

import ast

from .. import inline
from ..facts import call_name, norm
from ..linters import Linters
from ..util import alpha, is_call_named

IGN = "src.linter_config.ignore"
# predicate sites that are fine although the function itself does not relativise, each with the reason
Q2_OK = {
    # scope prefix (a class or a module: private helpers may be renamed or split) -> why its predicates are fine
    "src.linter_config.pattern_utils.": "its only entry, matches_pattern, is called by IgnoreDirectiveParser.is_ignored with relative_to(project_root) (decided under C14-W4)",
    "src.linters.file_placement.directory_matcher.DirectoryMatcher.": "operates on the string PathResolver.get_relative_path produced (decided under C18-V6)",
    "src.linters.magic_numbers.context_analyzer.is_test_file": "tests file_path.name only (location independent)",
}


def _q2_ok(qual: str) -> str | None:
    for k, why in Q2_OK.items():
        if qual == k or (k.endswith(".") and qual.startswith(k)):
            return why
    return None


def _pathlike(e) -> bool:
    s = ast.unparse(e).lower()
    return "path" in s or "file" in s


def path_predicates(repo, f):
    strnames = set()
    for n in ast.walk(f.node):
        if isinstance(n, ast.Assign) and isinstance(n.value, ast.Call) and call_name(n.value) == "str" and n.value.args and _pathlike(n.value.args[0]):
            strnames |= {t.id for t in n.targets if isinstance(t, ast.Name)}
    hits = []
    for n in ast.walk(f.node):
        if isinstance(n, ast.Compare) and len(n.ops) == 1 and isinstance(n.ops[0], (ast.In, ast.NotIn)):
            r = n.comparators[0]
            if (isinstance(r, ast.Call) and call_name(r) == "str" and r.args and _pathlike(r.args[0])) or (isinstance(r, ast.Name) and (r.id in strnames or r.id in ("path_str", "file_path", "path", "filepath"))) or (isinstance(r, ast.Attribute) and r.attr == "parts"):
                hits.append(n)
        elif isinstance(n, ast.For) and isinstance(n.iter, ast.Attribute) and n.iter.attr == "parts":
            hits.append(n.iter)
        elif isinstance(n, ast.Call) and call_name(n) in ("fnmatch", "fnmatchcase"):
            hits.append(n)
        elif isinstance(n, ast.Call) and call_name(n) == "startswith" and isinstance(n.func, ast.Attribute) and "path" in ast.unparse(n.func.value).lower() and ".name" not in ast.unparse(n.func.value):
            hits.append(n)
    return hits


def check(run, ctx):
    repo, cg = ctx.repo, ctx.cg
    L = Linters(ctx)
    Q1 = run.rule("Q1", "ignore-parser acquisitions in rule code are rooted at the orchestrator's project root (explicit root, or get_ignore_parser() reuses the configured parser)", floor=12,
                  decides="a .thailintignore / config ignore list in an unrelated working directory never affects the linted project")
    gp = repo.func(f"{IGN}.get_ignore_parser")
    reuse = _reuses_configured(gp)
    sites = []
    for f in repo.funcs.values():
        if f.qual == gp.qual:
            continue
        for n in ast.walk(f.node):
            if is_call_named(n, "get_ignore_parser") and isinstance(n.func, ast.Name):
                sites.append((f, n))
    run.require(len(sites) >= 12, f"only {len(sites)} get_ignore_parser call sites")
    for f, n in sorted(sites, key=lambda t: t[0].qual):
        sym = f.qual.replace("src.", "", 1)
        arg = n.args[0] if n.args else None
        if arg is not None and not (isinstance(arg, ast.Constant) and arg.value is None):
            # an argument that may be None (parameter defaulting to None) behaves like the zero-argument form
            maybe_none = isinstance(arg, ast.Name) and any(a.arg == arg.id for a in f.node.args.args) and L.param_default(f, arg.id) is not None and isinstance(L.param_default(f, arg.id), ast.Constant) and L.param_default(f, arg.id).value is None
            if not maybe_none or reuse:
                run.ok(Q1, sym, f"get_ignore_parser({norm(arg)})" + (" (None falls back to the configured parser)" if maybe_none else ""))
                continue
        if reuse:
            run.ok(Q1, sym, "zero-argument call reuses the parser the orchestrator configured")
        else:
            run.finding(Q1, sym, "cwd-rooted-parser", f"{f.qual} acquires its ignore parser with {norm(n)}: the root defaults to Path.cwd(), so repository ignore patterns are read from (and matched against) the working directory instead of the linted project", f"{f.module.rel}:{n.lineno}")
    oi = repo.func("src.orchestrator.core.Orchestrator.__init__")

    Q3 = run.rule("Q3", "Orchestrator passes self.project_root to get_ignore_parser and writes it as _project_root; rules are discovered lazily after that", floor=3)
    c = [n for n in ast.walk(oi.node) if is_call_named(n, "get_ignore_parser")]
    (run.ok(Q3, "Orchestrator.__init__", "get_ignore_parser(self.project_root)") if c and c[0].args and ast.unparse(c[0].args[0]) == "self.project_root" else run.finding(Q3, "Orchestrator.__init__", "parser-root", "the orchestrator's ignore parser is not rooted at its project_root", oi.loc))
    (run.ok(Q3, "lazy discovery", "rules are constructed after the parser is configured") if not any(is_call_named(n, "discover_rules", "_ensure_rules_discovered") for n in ast.walk(oi.node)) else run.finding(Q3, "Orchestrator.__init__", "eager-discovery", "rules are constructed inside __init__ (possibly before the ignore parser is configured)", oi.loc))
    lf = repo.func("src.orchestrator.core.Orchestrator.lint_file")
    ok = any(isinstance(n, ast.Dict) and any(isinstance(k, ast.Constant) and k.value == "_project_root" and ast.unparse(v) == "self.project_root" for k, v in zip(n.keys, n.values)) for n in inline.flat_nodes(repo, lf))   # the context may be built by a private helper
    (run.ok(Q3, "lint_file metadata", "_project_root = self.project_root") if ok else run.finding(Q3, "Orchestrator.lint_file", "metadata-root", "rules are not told the orchestrator's project root", lf.loc))

    gd = repo.func("src.cli.utils.get_or_detect_project_root")
    ppar = gd.node.args.args[0].arg
    from ..util import expand_locals
    starts = [c_ for c_ in ast.walk(gd.node) if is_call_named(c_, "get_project_root")]
    run.require(bool(starts), "get_or_detect_project_root no longer calls get_project_root")
    off_target = [c_ for c_ in starts if not (c_.args and any(isinstance(x, ast.Name) and x.id == ppar for x in ast.walk(expand_locals(gd.node, c_.args[0]))))]
    spelled = [c_ for c_ in ast.walk(gd.node) if is_call_named(c_, "is_absolute")]
    # file or directory is asked of the file system (is_dir()/is_file()), not read off the name (.suffix, '.' in name)
    by_name = [x for x in ast.walk(gd.node) if (isinstance(x, ast.Attribute) and x.attr in ("suffix", "suffixes", "stem")) or (isinstance(x, ast.Call) and call_name(x) in ("splitext",))
               or (isinstance(x, ast.Compare) and isinstance(x.ops[0], ast.In) and isinstance(x.left, ast.Constant) and x.left.value == ".")]
    if by_name:
        run.finding(Q3, "get_or_detect_project_root", f"kind-by-name:{alpha(gd.node, by_name[0])}", f"whether the first target is a file or a directory is read off its name (`{norm(by_name[0])}`): a project directory with a dot in its name (`site.v2`, `example.com`) is taken for a file when named directly, the search starts one level too high and its own configuration and ignore file are not found - `cd site.v2 && thailint ... .` still finds them", f"{gd.module.rel}:{by_name[0].lineno}")
    if off_target or spelled:
        w_ = norm(off_target[0]) if off_target else norm(spelled[0])
        run.finding(Q3, "get_or_detect_project_root", f"root-search-start:{w_}", f"the search for the project root does not always start at the first target (`{w_}`): how the target is spelled (relative vs absolute) or the working directory decides which project configuration and ignore file are found", gd.loc)
    else:
        run.ok(Q3, "get_or_detect_project_root", "the upward search starts at the first target (its directory), whatever its spelling")

    Q2 = run.rule("Q2", "path predicates over directory components are applied to project-relative paths", floor=15,
                  decides="built-in exclusions, test-file exemptions and per-linter ignore patterns are decided by the path inside the project")
    n_sites = 0
    for f in sorted(repo.funcs.values(), key=lambda x: x.qual):
        if f.parent is not None or not f.module.name.startswith(("src.linters", "src.orchestrator", "src.core", "src.linter_config")):
            continue
        hits = path_predicates(repo, f)
        if not hits:
            continue
        n_sites += 1
        sym = f.qual.replace("src.", "", 1)
        rel = any(is_call_named(n, "relative_to") for n in ast.walk(f.node))
        if _q2_ok(f.qual):
            run.ok(Q2, sym, f"allowed: {_q2_ok(f.qual)}", nontrivial=False)
        elif rel:
            run.ok(Q2, sym, f"{norm(hits[0])} after relative_to(...)")
        else:
            # one finding per predicate: a second, different predicate in a function that already has a known one is new
            seen_txt = set()
            for h in hits:
                t_ = norm(h)
                if t_ in seen_txt:
                    continue
                seen_txt.add(t_)
                run.finding(Q2, sym, f"absolute-path-predicate:{alpha(f.node, h)}", f"{f.qual}: `{t_}` inspects the file path as spelled by the caller (absolute when the target was absolute), so directory names leading to the project decide the verdict", f.loc)
    run.require(n_sites >= 15, f"only {n_sites} path-predicate functions found")

    Q4 = run.rule("Q4", "path-keyed tables: the key written and the key looked up go through the same canonicalisation (resolve/absolute/relative_to/...)", floor=3,
                  decides="what is recorded for a file under one spelling is found again under the spelling the lookup uses")
    CANON = {"resolve", "absolute", "relative_to", "as_posix", "lower", "normpath", "realpath", "abspath", "expanduser", "casefold", "normcase"}

    def canon(f, e):
        # canonicalising calls in the key expression, in the helpers it calls (a `_key(path)` function) and in the local
        # definitions of the names it uses
        out = {call_name(x) for x in inline.expr_nodes(repo, f, e) if isinstance(x, ast.Call) and call_name(x) in CANON}
        for nm in {x.id for x in ast.walk(e) if isinstance(x, ast.Name)}:
            for a in ast.walk(f.node):
                if isinstance(a, ast.Assign) and any(isinstance(t, ast.Name) and t.id == nm for t in a.targets):
                    out |= {call_name(x) for x in inline.expr_nodes(repo, f, a.value) if isinstance(x, ast.Call) and call_name(x) in CANON}
        return out

    def param_reads(g, pname, depth=2, seen=None):
        """(function, key expression) for every lookup `p.get(k)`, `p[k]`, `k in p` on parameter p of g, following p when it is passed on"""
        seen = seen or set()
        if (g.qual, pname) in seen or depth < 0:
            return []
        seen.add((g.qual, pname))
        out_ = []
        for n in ast.walk(g.node):
            if isinstance(n, ast.Call) and isinstance(n.func, ast.Attribute) and n.func.attr in ("get", "pop") and isinstance(n.func.value, ast.Name) and n.func.value.id == pname and n.args:
                out_.append((g, n.args[0]))
            if isinstance(n, ast.Subscript) and isinstance(n.ctx, ast.Load) and isinstance(n.value, ast.Name) and n.value.id == pname:
                out_.append((g, n.slice))
            if isinstance(n, ast.Compare) and isinstance(n.ops[0], (ast.In, ast.NotIn)) and isinstance(n.comparators[0], ast.Name) and n.comparators[0].id == pname:
                out_.append((g, n.left))
            if isinstance(n, ast.Call):
                out_ += passed_reads(g, n, lambda a: isinstance(a, ast.Name) and a.id == pname, depth - 1, seen)
        return out_

    def passed_reads(owner, call, is_table, depth=2, seen=None):
        """lookups performed by the callee(s) of `call` on the parameter that receives the table"""
        out_ = []
        pos = [i for i, a in enumerate(call.args) if is_table(a)]
        kws = [k.arg for k in call.keywords if k.arg and is_table(k.value)]
        if not pos and not kws:
            return out_
        st = cg.site_of(owner.module.name, call)
        for cq_ in (st or {}).get("callees", ()):
            g = repo.funcs.get(cq_)
            if g is None:
                continue
            params = [a.arg for a in g.node.args.posonlyargs + g.node.args.args]
            if g.cls is not None and params and params[0] in ("self", "cls"):
                params = params[1:]
            for i in pos:
                if i < len(params):
                    out_ += param_reads(g, params[i], depth, seen)
            for kname in kws:
                out_ += param_reads(g, kname, depth, seen)
        return out_

    for cq, c in sorted(repo.classes.items()):
        if not cq.startswith("src."):
            continue
        stores, reads = {}, {}
        for m in c.methods.values():
            for n in ast.walk(m.node):
                if isinstance(n, ast.Assign):
                    for t in n.targets:
                        if isinstance(t, ast.Subscript) and isinstance(t.value, ast.Attribute) and isinstance(t.value.value, ast.Name) and t.value.value.id == "self":
                            stores.setdefault(t.value.attr, []).append((m, t.slice))
                if isinstance(n, ast.Subscript) and isinstance(n.ctx, ast.Load) and isinstance(n.value, ast.Attribute) and isinstance(n.value.value, ast.Name) and n.value.value.id == "self":
                    reads.setdefault(n.value.attr, []).append((m, n.slice))
                if isinstance(n, ast.Call) and isinstance(n.func, ast.Attribute) and n.func.attr in ("get", "pop") and isinstance(n.func.value, ast.Attribute) and isinstance(n.func.value.value, ast.Name) and n.func.value.value.id == "self" and n.args:
                    reads.setdefault(n.func.value.attr, []).append((m, n.args[0]))
                if isinstance(n, ast.Compare) and isinstance(n.ops[0], (ast.In, ast.NotIn)) and isinstance(n.comparators[0], ast.Attribute) and isinstance(n.comparators[0].value, ast.Name) and n.comparators[0].value.id == "self":
                    reads.setdefault(n.comparators[0].attr, []).append((m, n.left))
                if isinstance(n, ast.Call):   # the table handed to another function: its lookups count as reads
                    for a_ in list(n.args) + [k.value for k in n.keywords]:
                        if isinstance(a_, ast.Attribute) and isinstance(a_.value, ast.Name) and a_.value.id == "self":
                            attr_ = a_.attr
                            for g_, k_ in passed_reads(m, n, lambda x, attr_=attr_: isinstance(x, ast.Attribute) and isinstance(x.value, ast.Name) and x.value.id == "self" and x.attr == attr_):
                                reads.setdefault(attr_, []).append((g_, k_))
                            # the table stored in a record field (IgnoreContext(file_contents=self._file_contents)): wherever
                            # <record>.<field> is handed to a function of the same package, that function's lookups are reads too
                            st_ = cg.site_of(m.module.name, n)
                            if st_ and any(c_.startswith("new:") for c_ in st_.get("callees", ())):
                                for kw_ in n.keywords:
                                    if kw_.value is a_ and kw_.arg:
                                        pkg_ = m.module.name.rsplit(".", 1)[0]
                                        for h_ in repo.funcs.values():
                                            if not h_.module.name.startswith(pkg_) or h_.parent is not None:
                                                continue
                                            for c2 in ast.walk(h_.node):
                                                if isinstance(c2, ast.Call):
                                                    for g_, k_ in passed_reads(h_, c2, lambda x, fld=kw_.arg: isinstance(x, ast.Attribute) and x.attr == fld and not (isinstance(x.value, ast.Name) and x.value.id == "self")):
                                                        reads.setdefault(attr_, []).append((g_, k_))
        for attr, sts in stores.items():
            if not any("path" in ast.unparse(k).lower() or "file" in ast.unparse(k).lower() for _, k in sts):
                continue
            sym = f"{cq.replace('src.', '', 1)}.{attr}"
            wk = set()
            for m, k in sts:
                wk |= canon(m, k)
            bad = None
            for m, k in reads.get(attr, []):
                rk = canon(m, k)
                if rk != wk:
                    bad = (m, k, rk)
            if bad:
                run.finding(Q4, sym, f"key-canonicalisation:{sorted(wk)}!={sorted(bad[2])}", f"{sym} is written under a key canonicalised with {sorted(wk) or 'nothing'} but {bad[0].name} looks it up with {norm(bad[1])} ({sorted(bad[2]) or 'nothing'}): entries recorded for a relatively spelled (or symlinked) file are not found", c.loc)
            else:
                run.ok(Q4, sym, f"writer and {len(reads.get(attr, []))} reader(s) use the same key form {sorted(wk) or '(as spelled)'}")
    return __doc__


def _reuses_configured(gp) -> bool:
    """get_ignore_parser returns the cached parser when called without a root (instead of re-rooting at cwd)."""
    for n in ast.walk(gp.node):
        if isinstance(n, ast.If):
            t = ast.unparse(n.test)
            if "project_root is None" in t and "_CACHED_PARSER" in t and any(isinstance(s, ast.Return) and ast.unparse(s.value) == "_CACHED_PARSER" for s in n.body):
                return True
    return False
