"""C03 - DRY findings are sound, mutual and complete (narrow structural claim).

Decides (structure only):
 D1 message writer/reader agreement: DRYViolationBuilder._build_message writes "...(<n> lines, ..." and the two
    _extract_line_count readers recover n between "(" and " lines" (breaking it makes overlap filtering and
    inline-ignore ranges fall back silently to 5 and 1);
 D2 the occurrence count, the "Also found in" list and the per-block loop all use the same de-duplicated list;
 D3 duplicates are hashes with COUNT(*) >= 2, block lookup has a total ORDER BY, min_occurrences compares with >=;
 D4 every block hash is hash("\\n".join(<lines normalised by token_hasher.normalize_line>)).
Not decided: hash equality => text equality, window completeness, mutuality after overlap de-duplication.
"""

from __future__ import annotations

import ast
import re

from .. import inline
from ..facts import UNKNOWN, call_name, norm
from ..util import expand_locals, is_call_named

PKG = "src.linters.dry"


def check(run, ctx):
    repo = ctx.repo
    D1 = run.rule("D1", "the message template and the two line-count readers agree on the '(' ... ' lines' delimiters around the line count", floor=4)
    bm = repo.func(f"{PKG}.violation_builder.DRYViolationBuilder._build_message")
    js = next((n.value for n in ast.walk(bm.node) if isinstance(n, ast.Assign) and isinstance(n.value, ast.JoinedStr)), None)
    run.require(js is not None, "_build_message: f-string template not found")
    parts = js.values
    first_fv = next((i for i, p in enumerate(parts) if isinstance(p, ast.FormattedValue)), None)
    run.require(first_fv is not None and first_fv > 0, "_build_message: no interpolated field")
    before = parts[first_fv - 1].value if isinstance(parts[first_fv - 1], ast.Constant) else ""
    after = parts[first_fv + 1].value if first_fv + 1 < len(parts) and isinstance(parts[first_fv + 1], ast.Constant) else ""
    fld = ast.unparse(parts[first_fv].value)
    writer_ok = before.endswith("(") and before.count("(") == 1 and after.startswith(" lines") and fld == bm.node.args.args[1].arg
    (run.ok(D1, "writer", f"{before!r}{{{fld}}}{after[:8]!r}") if writer_ok else run.finding(D1, "_build_message", f"template:{before!r}{{{fld}}}{after[:10]!r}", "the line count is no longer written as the first '(' <n> ' lines' group of the message", bm.loc))
    bv = repo.func(f"{PKG}.violation_builder.DRYViolationBuilder.build_violation")
    # roles, not names: the line count is whatever build_violation passes as the first argument of _build_message
    bmc = next((c for c in ast.walk(bv.node) if is_call_named(c, "_build_message")), None)
    run.require(bmc is not None and len(bmc.args) >= 2, "build_violation no longer calls _build_message(line_count, occurrence_count, ...)")
    lc = expand_locals(bv.node, bmc.args[0])
    blk = bv.node.args.args[1].arg
    ok = lc is not None and ast.unparse(lc) in (f"{blk}.end_line - {blk}.start_line + 1", f"1 + {blk}.end_line - {blk}.start_line", f"1 + ({blk}.end_line - {blk}.start_line)")
    (run.ok(D1, "line_count value", "end_line - start_line + 1") if ok else run.finding(D1, "build_violation", f"line_count:{norm(lc) if lc is not None else None}", "the written line count is not end_line - start_line + 1", bv.loc))
    for fq in (f"{PKG}.violation_filter.ViolationFilter._extract_line_count", f"{PKG}.violation_generator.ViolationGenerator._extract_line_count"):
        f = repo.func_by_role(fq, "reads the line count back out of the message with two .index(<delimiter>) calls",
                              lambda g: sum(1 for x in ast.walk(g.node) if is_call_named(x, "index") and x.args and isinstance(x.args[0], ast.Constant)) >= 2)
        idx = [n.args[0].value for n in sorted((x for x in ast.walk(f.node) if is_call_named(x, "index") and x.args and isinstance(x.args[0], ast.Constant)), key=lambda x: (x.lineno, x.col_offset))]
        ok = len(idx) == 2 and before.endswith(idx[0]) and after.startswith(idx[1])
        (run.ok(D1, f"reader {f.cls.name}", f"between {idx[0]!r} and {idx[1]!r}") if ok else run.finding(D1, f"{f.cls.name}.{f.name}", f"delimiters:{idx}", f"reader delimiters {idx} do not match the writer's {before[-1:]!r} ... {after[:6]!r}", f.loc))

    D2 = run.rule("D2", "occurrence count, 'Also found in' list and the per-block loop use one list", floor=3)
    oc = expand_locals(bv.node, bmc.args[1])
    lr = next((n for n in ast.walk(bv.node) if is_call_named(n, "_get_location_refs")), None)
    p2 = bv.node.args.args[2].arg
    ok = oc is not None and ast.unparse(oc) == f"len({p2})" and lr is not None and len(lr.args) == 2 and ast.unparse(lr.args[1]) == p2
    (run.ok(D2, "build_violation", f"len({p2}) and _get_location_refs(block, {p2})") if ok else run.finding(D2, "build_violation", "different-lists", "the occurrence count and the location list are not computed from the same list", bv.loc))
    cv = repo.func(f"{PKG}.violation_generator.ViolationGenerator._collect_violations")
    okc = False
    # `for b in L: build_violation(b, L, ...)` as a loop or as a comprehension / generator, unfiltered
    iters = [(n.target, n.iter, n, []) for n in ast.walk(cv.node) if isinstance(n, ast.For)]
    iters += [(g.target, g.iter, n, g.ifs) for n in ast.walk(cv.node) if isinstance(n, (ast.ListComp, ast.GeneratorExp)) for g in n.generators]
    for tgt, it, scope, ifs in iters:
        if isinstance(it, ast.Name) and isinstance(tgt, ast.Name) and not ifs:
            for c in ast.walk(scope):
                if is_call_named(c, "build_violation") and len(c.args) >= 2 and isinstance(c.args[1], ast.Name) and c.args[1].id == it.id and isinstance(c.args[0], ast.Name) and c.args[0].id == tgt.id:
                    okc = True
    (run.ok(D2, "_collect_violations", "for block in L: build_violation(block, L, ...)") if okc else run.finding(D2, "_collect_violations", "loop-list", "violations are not built for each member of the list whose size is reported", cv.loc))
    # the threshold is tested on the list that is reported (the de-duplicated one), not on a list before it
    thr = [c for c in inline.flat_nodes(repo, cv) if is_call_named(c, "_meets_min_occurrences") and c.args]
    reported = {c.args[1].id for c in ast.walk(cv.node) if is_call_named(c, "build_violation") and len(c.args) >= 2 and isinstance(c.args[1], ast.Name)}
    for c in thr:
        a = c.args[0]
        same = isinstance(a, ast.Name) and a.id in reported
        (run.ok(D2, "_collect_violations threshold", f"_meets_min_occurrences({norm(a)}) tests the reported list") if same else run.finding(D2, "_collect_violations", f"threshold-list:{norm(a)}", f"min_occurrences is tested on `{norm(a)}` but the violations report {sorted(reported)}: overlapping windows of one place (periodic code) count towards the threshold before de-duplication, so a single place can be reported as a duplicate of itself", f"{cv.module.rel}:{c.lineno}"))
    gl = repo.func(f"{PKG}.violation_builder.DRYViolationBuilder._get_location_refs")
    comp = next((n for n in ast.walk(gl.node) if isinstance(n, ast.ListComp) and n.generators[0].ifs), None)
    cond_e = comp.generators[0].ifs[0] if comp is not None else None
    if isinstance(cond_e, ast.Call):   # the predicate may be a private helper: take its return expression
        h_ = inline.resolve_call(repo, gl, cond_e)
        rets_ = [r_.value for r_ in ast.walk(h_.node) if isinstance(r_, ast.Return) and r_.value is not None] if h_ is not None else []
        cond_e = rets_[0] if len(rets_) == 1 else cond_e
    cond = ast.unparse(cond_e) if cond_e is not None else ""
    ok = "file_path" in cond and "start_line" in cond and " or " in cond and "!=" in cond
    (run.ok(D2, "_get_location_refs", "all other members (differs in file or start line)") if ok else run.finding(D2, "_get_location_refs", f"other-filter:{cond}", "the 'other locations' are not exactly the members differing in file or start line", gl.loc))

    D3 = run.rule("D3", "duplicate query HAVING COUNT(*) >= 2; block lookup ORDER BY file_path, start_line; _meets_min_occurrences uses >=", floor=3)
    q = repo.func(f"{PKG}.cache_query.CacheQueryService.get_duplicate_hashes")
    sql = " ".join(" ".join(s.split()) for s in [n.value for n in ast.walk(q.node) if isinstance(n, ast.Constant) and isinstance(n.value, str) and "SELECT" in n.value.upper()])
    m = re.search(r"HAVING\s+COUNT\(\*\)\s*(>=|>)\s*(\d+)", sql, re.I)
    ok = bool(m) and ((m.group(1) == ">=" and m.group(2) == "2") or (m.group(1) == ">" and m.group(2) == "1")) and re.search(r"GROUP BY\s+hash_value", sql, re.I)
    (run.ok(D3, "get_duplicate_hashes", m.group(0)) if ok else run.finding(D3, "get_duplicate_hashes", f"having:{m.group(0) if m else None}", "a hash must count as duplicated from two occurrences on", q.loc))
    q2 = repo.func(f"{PKG}.cache_query.CacheQueryService.find_blocks_by_hash")
    sql = " ".join(" ".join(s.split()) for s in [n.value for n in ast.walk(q2.node) if isinstance(n, ast.Constant) and isinstance(n.value, str) and "SELECT" in n.value.upper()])
    m = re.search(r"ORDER BY\s+([\w,\s]+)$", sql, re.I)
    cols = [c.strip().lower() for c in m.group(1).split(",")] if m else []
    (run.ok(D3, "find_blocks_by_hash", f"ORDER BY {cols}") if cols[:2] == ["file_path", "start_line"] else run.finding(D3, "find_blocks_by_hash", f"order:{cols}", "block lookup has no total ORDER BY file_path, start_line: the reported locations depend on insertion order", q2.loc))
    mm = repo.func(f"{PKG}.violation_generator.ViolationGenerator._meets_min_occurrences")
    r = [n for n in ast.walk(mm.node) if isinstance(n, ast.Return) and isinstance(n.value, ast.Compare)]
    ok = r and isinstance(r[-1].value.ops[0], ast.GtE) and "len(blocks)" == ast.unparse(r[-1].value.left) and "min_occurrences" in ast.unparse(r[-1].value.comparators[0])
    (run.ok(D3, "_meets_min_occurrences", "len(blocks) >= min_occurrences") if ok else run.finding(D3, "_meets_min_occurrences", f"compare:{norm(r[-1].value) if r else None}", "min_occurrences is not applied as len(blocks) >= min_occurrences", mm.loc))

    D4 = run.rule("D4", "every builtin hash() in the DRY package hashes '\\n'.join(lines) of lines normalised through token_hasher.normalize_line", floor=3)
    for m_ in repo.modules_in(PKG):
        for f in [x for x in repo.funcs.values() if x.module is m_ and x.parent is None]:
            for n in ast.walk(f.node):
                if isinstance(n, ast.Call) and isinstance(n.func, ast.Name) and n.func.id == "hash" and n.args:
                    a = n.args[0]
                    src = a
                    if isinstance(a, ast.Name):
                        asg = [x.value for x in ast.walk(f.node) if isinstance(x, ast.Assign) and any(isinstance(t, ast.Name) and t.id == a.id for t in x.targets)]
                        src = asg[-1] if asg else a
                    joined = isinstance(src, ast.Call) and call_name(src) == "join" and isinstance(src.func.value, ast.Constant) and src.func.value.value == "\n"
                    norm_used = any(is_call_named(x, "normalize_line") for g in repo.funcs.values() if g.module is m_ for x in ast.walk(g.node))
                    sym = f"{f.qual.replace('src.linters.', '')}"
                    if joined and norm_used:
                        run.ok(D4, sym, "hash('\\n'.join(...)) in a module that normalises through normalize_line")
                    else:
                        run.finding(D4, sym, f"hash-input:{norm(src)}", f"{norm(n)}: the hashed text is not the newline-join of normalize_line()-normalised lines (identical code after normalisation would hash differently across analyzers)", f"{m_.rel}:{n.lineno}")
    nl = repo.func(f"{PKG}.token_hasher.normalize_line")
    ok = any(is_call_named(n, "_strip_comments") for n in ast.walk(nl.node)) and any(is_call_named(n, "split") for n in ast.walk(nl.node)) and any(is_call_named(n, "join") for n in ast.walk(nl.node))
    (run.ok(D4, "normalize_line", "strips comments, collapses whitespace") if ok else run.finding(D4, "normalize_line", "normaliser", "normalize_line no longer strips comments and collapses whitespace", nl.loc))
    # order: the whitespace collapse must be the outermost step, applied to the comment-stripped text
    # (stripping a trailing comment after collapsing leaves the blank that separated code and comment)
    rets = [n for n in ast.walk(nl.node) if isinstance(n, ast.Return) and n.value is not None and not (isinstance(n.value, ast.Name) or isinstance(n.value, ast.Constant))]
    last = rets[-1].value if rets else None
    collapse_outer = isinstance(last, ast.Call) and call_name(last) == "join" and last.args and isinstance(last.args[0], ast.Call) and call_name(last.args[0]) == "split"
    strip_first = False
    if collapse_outer:
        inner = last.args[0].func.value
        src_names = {x.id for x in ast.walk(inner) if isinstance(x, ast.Name)}
        strip_first = is_call_named(inner, "_strip_comments") or any(isinstance(a, ast.Assign) and any(isinstance(t, ast.Name) and t.id in src_names for t in a.targets) and contains_call(a.value, "_strip_comments") for a in ast.walk(nl.node))
    (run.ok(D4, "normalize_line order", "' '.join(<comment-stripped>.split()) - collapse applied last") if collapse_outer and strip_first else run.finding(D4, "normalize_line", "order", "whitespace is collapsed before comments are stripped (or the result is not re-collapsed): `x = f(y)  # note` and `x = f(y)` normalise to different strings, so a duplicated block with a trailing comment in one copy is missed", nl.loc))

    D5 = run.rule("D5", "window arithmetic of the three rolling-hash implementations: for n normalised lines and window w exactly max(0, n - w + 1) windows of length w are produced", floor=3,
                  decides="a run of exactly min_duplicate_lines lines (or a file that consists of nothing else) is still covered")
    for fq in (f"{PKG}.token_hasher.rolling_hash", f"{PKG}.python_analyzer.PythonDuplicateAnalyzer._rolling_hash_with_tracking", f"{PKG}.typescript_analyzer.TypeScriptDuplicateAnalyzer._rolling_hash_with_tracking"):
        f = repo.func(fq)
        verdict = _window_count_ok(f)
        sym = fq.replace("src.linters.", "")
        if verdict is True:
            run.ok(D5, sym, "guard and range give max(0, n-w+1) windows for n in w-1..w+5")
        elif verdict is None:
            run.undecided(D5, sym, "guard/loop shape not recognised")
        else:
            run.finding(D5, sym, f"window-count:{verdict}", f"{sym}: for (n lines, window w) = {verdict[0]} the code produces {verdict[1]} windows, expected {verdict[2]}: duplicated runs at the boundary are dropped (or phantom windows created)", f.loc)
    # the window size decides only inside the rolling hashes: outside them min_duplicate_lines is handed on, never compared
    n_w = 0
    for f in sorted(repo.funcs_in(f"{PKG}."), key=lambda x: x.qual):
        if f.module.name.endswith(".config") or f.parent is not None:
            continue
        par = {c: p_ for p_ in ast.walk(f.node) for c in ast.iter_child_nodes(p_)}
        for a in ast.walk(f.node):
            if not (isinstance(a, ast.Attribute) and a.attr == "min_duplicate_lines" and isinstance(a.ctx, ast.Load)):
                continue
            n_w += 1
            up = par.get(a)
            names = set()
            if isinstance(up, (ast.Assign, ast.AnnAssign)):   # bound to a local: look at the uses of the local
                tg = up.targets[0] if isinstance(up, ast.Assign) else up.target
                if isinstance(tg, ast.Name):
                    names.add(tg.id)
            uses = [a] + [n for n in ast.walk(f.node) if isinstance(n, ast.Name) and n.id in names and isinstance(n.ctx, ast.Load)]
            bad = None
            for u in uses:
                q = par.get(u)
                while isinstance(q, (ast.keyword,)):
                    q = par.get(q)
                if isinstance(q, (ast.Compare, ast.BinOp, ast.BoolOp, ast.UnaryOp, ast.IfExp, ast.If, ast.While)):
                    bad = q
            sym = f.qual.replace("src.linters.", "")
            if bad is None:
                run.ok(D5, sym, "min_duplicate_lines is only handed on as the window size")
            else:
                run.finding(D5, sym, f"window-size-compared:{norm(bad)}", f"{sym}: `{norm(bad)}` decides with min_duplicate_lines outside the rolling hash (a size pre-filter with its own arithmetic): a file or run of exactly the window length can be dropped before it is hashed", f"{f.module.rel}:{bad.lineno}")
    run.require(n_w >= 3, f"D5: only {n_w} uses of min_duplicate_lines found outside the config class (3 confirmed)")
    D6 = run.rule("D6", "overlap tests between inclusive line ranges are inclusive: start <= end (or the negation of end < start), also when written as max(starts) <= min(ends)", floor=4,
                  decides="two windows that share a single line overlap: the shifted copy of a periodic block is removed and not counted as a further occurrence")
    def _kind(e):
        """'start' / 'end' for a plain name or attribute that denotes a range bound (locals are expanded by the caller)"""
        t = ast.unparse(e).rsplit(".", 1)[-1].lower()
        if isinstance(e, ast.Call) and call_name(e) in ("max", "min") and len(e.args) >= 2:
            ks = {_kind(a) for a in e.args}
            return ks.pop() if len(ks) == 1 else None
        if not isinstance(e, (ast.Name, ast.Attribute)):
            return None
        if t in ("start_line", "start", "lineno") or t.endswith("_start") or t.startswith("start_"):
            return "start"
        if t in ("end_line", "end", "end_lineno") or t.endswith("_end") or t.startswith("end_"):
            return "end"
        return None
    n_d6 = 0
    for f in sorted(repo.funcs_in(f"{PKG}."), key=lambda x: x.qual):
        if "overlap" not in f.name.lower():
            continue
        negated = {id(c) for n in ast.walk(f.node) if isinstance(n, ast.UnaryOp) and isinstance(n.op, ast.Not) for c in ast.walk(n.operand) if isinstance(c, ast.Compare)}
        for c in [n for n in ast.walk(f.node) if isinstance(n, ast.Compare) and len(n.ops) == 1]:
            l_, r_ = expand_locals(f.node, c.left), expand_locals(f.node, c.comparators[0])
            kl, kr = _kind(l_), _kind(r_)
            if {kl, kr} != {"start", "end"}:
                continue
            n_d6 += 1
            op = type(c.ops[0]).__name__
            # orient as  start OP end
            if kl == "end":
                op = {"Lt": "Gt", "Gt": "Lt", "LtE": "GtE", "GtE": "LtE"}.get(op, op)
            inclusive = (op == "LtE") if id(c) not in negated else (op == "Gt")     # positive: start <= end ; negated: not (start > end)
            sym = f"{f.qual.replace('src.linters.dry.', '')}:{norm(c)}"
            if inclusive:
                run.ok(D6, sym, "inclusive bound")
            elif op in ("Lt", "Gt", "LtE", "GtE"):
                run.finding(D6, f.qual.replace("src.linters.dry.", ""), f"exclusive-overlap:{norm(c)}", f"`{norm(c)}` treats two inclusive line ranges that share exactly one line as disjoint: both shifted copies of a periodic block survive de-duplication and are counted as separate occurrences", f"{f.module.rel}:{c.lineno}")
    run.require(n_d6 >= 4, f"only {n_d6} start/end comparisons found in the overlap predicates of the DRY package")

    D7 = run.rule("D7", "DRY helpers that look for the methods of a class (parameter of type ast.ClassDef) test for FunctionDef and AsyncFunctionDef together", floor=1,
                  decides="a duplicated run inside `async def` methods is treated like one inside plain methods (the class-field filter does not swallow it)")
    for f in sorted(repo.funcs_in(f"{PKG}."), key=lambda x: x.qual):
        if not any(a.annotation is not None and "ClassDef" in ast.unparse(a.annotation) for a in f.node.args.args):
            continue
        for n in ast.walk(f.node):
            if not (isinstance(n, ast.Call) and call_name(n) == "isinstance" and len(n.args) == 2):
                continue
            kexpr = n.args[1]
            if isinstance(kexpr, ast.Name) and kexpr.id in f.module.assigns:   # the tuple of node classes hoisted to a module constant
                kexpr = f.module.assigns[kexpr.id]
            if "FunctionDef" in ast.unparse(kexpr):
                kinds = {x.attr for x in ast.walk(kexpr) if isinstance(x, ast.Attribute)} | {x.id for x in ast.walk(kexpr) if isinstance(x, ast.Name)}
                sym = f"{f.qual.replace('src.linters.dry.', '')}:{norm(n)}"
                if {"FunctionDef", "AsyncFunctionDef"} <= kinds:
                    run.ok(D7, sym, "sync and async defs")
                else:
                    missing = "AsyncFunctionDef" if "AsyncFunctionDef" not in kinds else "FunctionDef"
                    run.finding(D7, f.qual.replace("src.linters.dry.", ""), f"def-kind-missing:{missing}", f"`{norm(n)}` does not cover {missing}: a class whose methods are all `async def` has no 'first method', so its whole body counts as field area and every duplicate inside it is discarded", f"{f.module.rel}:{n.lineno}")
    # ---------------------------------------------------------------- D8
    D8 = run.rule("D8", "the skip state of a multi-line import ends at the first line that contains the closing parenthesis anywhere (`')' in line`), not only at a line that is or ends with it", floor=1,
                  decides="`export function f(` ... `): T {` or `) {` / `);` closes the skipped header: the body that follows is hashed, so duplicates in it are reported")
    # by role: whatever runs in should_skip_import_line's `if <state parameter>:` branch, helpers included
    hc = repo.func("src.linters.dry.token_hasher.should_skip_import_line")
    run.require(len(hc.node.args.args) >= 2, "should_skip_import_line: no state parameter")
    st_par = hc.node.args.args[1].arg
    branch = next((n for n in ast.walk(hc.node) if isinstance(n, ast.If) and isinstance(n.test, ast.Name) and n.test.id == st_par), None)
    run.require(branch is not None, "should_skip_import_line: no `if <state>:` branch found - D8 cannot locate the continuation handling")
    flat = [x for st_ in branch.body for x in ast.walk(st_)]
    for c_ in [x for x in flat if isinstance(x, ast.Call)]:
        h_ = inline.resolve_call(repo, hc, c_)
        if h_ is not None and h_.module is hc.module:
            flat += list(inline.flat_nodes(repo, h_))
    anywhere = [n for n in flat if isinstance(n, ast.Compare) and len(n.ops) == 1 and isinstance(n.ops[0], (ast.In, ast.NotIn)) and repo.fold(hc.module, n.left) == ")"]
    anywhere += [n for n in flat if isinstance(n, ast.Call) and call_name(n) in ("find", "count", "index", "rfind", "partition") and n.args and repo.fold(hc.module, n.args[0]) == ")"]
    anchored = [n for n in flat if (isinstance(n, ast.Call) and call_name(n) in ("endswith", "startswith", "fullmatch", "match") and n.args and any(isinstance(c, ast.Constant) and isinstance(c.value, str) and ")" in c.value for c in ast.walk(n.args[0])))
                or (isinstance(n, ast.Compare) and len(n.ops) == 1 and isinstance(n.ops[0], (ast.Eq, ast.NotEq)) and any(repo.fold(hc.module, x) == ")" for x in [n.left] + n.comparators))]
    if anchored:
        run.finding(D8, "token_hasher.should_skip_import_line[continuation]", f"anchored-close:{norm(anchored[0])[:40]}", f"the import-continuation state is left only when `{norm(anchored[0])[:60]}`: a closing line that carries more text (`): string {{`, `) {{`, `);` after an `export function f(` header the tokeniser took for an import) never closes it, the rest of the file is skipped and its duplicates are not reported", hc.loc)
    elif anywhere:
        run.ok(D8, "should_skip_import_line[continuation]", f"closes on `{norm(anywhere[0])[:40]}`")
    else:
        run.undecided(D8, "should_skip_import_line[continuation]", "closing test not recognised")
    return __doc__


def contains_call(node, name):
    return any(is_call_named(x, name) for x in ast.walk(node))


def _window_count_ok(f):
    """Evaluate the guard `if <cond>: return []` and `for i in range(<expr>)` symbolically for small n, w."""
    params = [a.arg for a in f.node.args.args if a.arg not in ("self", "cls")]
    if len(params) < 2:
        return None
    L, W = params[0], params[1]
    assigns = {}
    for n in ast.walk(f.node):
        if isinstance(n, ast.Assign) and len(n.targets) == 1 and isinstance(n.targets[0], ast.Name):
            assigns.setdefault(n.targets[0].id, n.value)
    guard = next((n for n in f.node.body if isinstance(n, ast.If) and any(isinstance(s, ast.Return) and isinstance(s.value, (ast.List, ast.Tuple)) and not s.value.elts for s in n.body)), None)
    loop = next((n for n in ast.walk(f.node) if isinstance(n, ast.For) and isinstance(n.iter, ast.Call) and call_name(n.iter) == "range" and len(n.iter.args) == 1), None)
    if loop is None:
        return None
    sl = next((n for n in ast.walk(loop) if isinstance(n, ast.Subscript) and isinstance(n.slice, ast.Slice) and isinstance(n.value, ast.Name) and n.value.id == L), None)

    def ev(e, n_, w_, depth=0):
        if depth > 6:
            raise ValueError
        if isinstance(e, ast.Constant) and isinstance(e.value, (int, bool)):
            return e.value
        if isinstance(e, ast.Name):
            if e.id == W:
                return w_
            if e.id in assigns:
                return ev(assigns[e.id], n_, w_, depth + 1)
            raise ValueError
        if isinstance(e, ast.Call) and call_name(e) == "len" and e.args and isinstance(e.args[0], ast.Name) and e.args[0].id == L:
            return n_
        if isinstance(e, ast.Call) and call_name(e) in ("max", "min"):
            vals = [ev(a, n_, w_, depth + 1) for a in e.args]
            return max(vals) if call_name(e) == "max" else min(vals)
        if isinstance(e, ast.BinOp) and isinstance(e.op, (ast.Add, ast.Sub, ast.Mult)):
            a, b = ev(e.left, n_, w_, depth + 1), ev(e.right, n_, w_, depth + 1)
            return a + b if isinstance(e.op, ast.Add) else a - b if isinstance(e.op, ast.Sub) else a * b
        if isinstance(e, ast.UnaryOp) and isinstance(e.op, ast.Not):
            return not ev(e.operand, n_, w_, depth + 1)
        if isinstance(e, ast.UnaryOp) and isinstance(e.op, ast.USub):
            return -ev(e.operand, n_, w_, depth + 1)
        if isinstance(e, ast.BoolOp):
            vals = [ev(v, n_, w_, depth + 1) for v in e.values]
            return all(vals) if isinstance(e.op, ast.And) else any(vals)
        if isinstance(e, ast.Compare) and len(e.ops) == 1:
            a, b = ev(e.left, n_, w_, depth + 1), ev(e.comparators[0], n_, w_, depth + 1)
            op = e.ops[0]
            return {ast.Lt: a < b, ast.LtE: a <= b, ast.Gt: a > b, ast.GtE: a >= b, ast.Eq: a == b, ast.NotEq: a != b}[type(op)]
        raise ValueError

    try:
        for w_ in (3, 5):
            for n_ in (w_ - 1, w_, w_ + 1, w_ + 5, 0):
                g = ev(guard.test, n_, w_) if guard is not None else False
                cnt = 0 if g else max(0, ev(loop.iter.args[0], n_, w_))
                want = max(0, n_ - w_ + 1)
                if cnt != want:
                    return ((n_, w_), cnt, want)
        if sl is not None:
            lo, up = sl.slice.lower, sl.slice.upper
            i = loop.target.id if isinstance(loop.target, ast.Name) else None
            if not (isinstance(lo, ast.Name) and lo.id == i and isinstance(up, ast.BinOp) and isinstance(up.op, ast.Add) and {ast.unparse(up.left), ast.unparse(up.right)} == {i, W}):
                return (("slice", ast.unparse(sl.slice)), "?", f"{i}:{i}+{W}")
    except (ValueError, KeyError, AttributeError):
        return None
    return True
