"""C01 - nesting linter: exact depth, off-by-one boundary, cross-language agreement.

Decides (structure only):
 N1 the three depth walkers denote the same function of "number of enclosing nesting constructs k":
    depth = start + 1*k, maximum recorded with a strict `>`, and start is the documented base (1);
 N2 the construct tables (_CONTROL_STRUCTURES + the If special case; the two NESTING_NODE_TYPES sets) cover the
    constructs docs/nesting-linter.md lists for that language, count a documented construct pair once
    (match/case), and handle else-if chains the same way in all three walkers;
 N3 the three _process_*_functions are siblings: skip iff max_depth <= config.max_nesting_depth, the message
    interpolates the compared max_depth, the override branch of NestingConfig.from_dict reads the same key;
 N4 every node-kind literal the TypeScript/Rust nesting code compares with .type is a *named* kind of the linked
    grammar (anonymous keyword tokens only by allowlist).
Not decided: the depth computed for a particular source tree.
"""

from __future__ import annotations

import ast
import re

from .. import inline, kinds
from ..facts import UNKNOWN, call_name, dotted, kwarg, norm
from ..util import contains, is_call_named

PKG = "src.linters.nesting"
# documented construct -> node kinds that must be counted (frozen from docs/nesting-linter.md "Statements That
# Increase Depth"; the doc phrases are re-checked on every run so a doc change fails the run instead of passing)
DOC_CONSTRUCTS = {
    "python": {
        "`for` / `while`": ["For", "AsyncFor", "While"],
        "`with` / `async with`": ["With", "AsyncWith"],
        "`try` / `except` / `finally`": ["Try", "TryStar"],
        "`match` / `case`": ["Match"],
    },
    "typescript": {
        "`if` / `else`": ["if_statement"],
        "`for` / `for...in` / `for...of`": ["for_statement", "for_in_statement"],
        "`while` / `do...while`": ["while_statement", "do_statement"],
        "`try` / `catch` / `finally`": ["try_statement"],
        "`switch` / `case`": ["switch_statement"],
    },
    "rust": {
        "`if` / `else`": ["if_expression"],
        "`match` arms": ["match_expression"],
        "`for` / `while` / `loop`": ["for_expression", "while_expression", "loop_expression"],
        "Closure expressions": ["closure_expression"],
        "`async` blocks": ["async_block"],
    },
}
# kinds counted although the docs do not list them, each with a reason
EXTRA_OK = {"typescript": {"with_statement": "deprecated JS `with`, same role as Python's with"}, "rust": {}, "python": {}}
# a documented pair "`x` / `y`" is one nesting level: these kinds must NOT be counted next to their partner
PAIR_ONCE = {"python": {"match_case": "Match"}, "typescript": {"switch_case": "switch_statement", "else_clause": "if_statement", "catch_clause": "try_statement"}, "rust": {"match_arm": "match_expression", "else_clause": "if_expression"}}
ANON_OK = {}


def check(run, ctx):
    repo = ctx.repo
    doc = ctx.text("docs/nesting-linter.md")
    m = re.search(r"[Ss]tarts? at depth (\d+)\*{0,2} for (?:the )?function body", doc) or re.search(r"[Nn]esting depth starts at (\d+)", doc)
    run.require(m is not None, "docs/nesting-linter.md no longer states the base depth")
    doc_base = int(m.group(1))

    N1 = run.rule("N1", "depth-walker signature: depth(k enclosing constructs) = start + 1*k with start = documented base, max recorded with strict >, identical in the Python, TypeScript and Rust walkers", floor=9,
                  decides="the reported depth is the documented one and the same skeleton gets the same depth in every language")
    sigs = {}
    # ---- python
    pa = repo.mod(f"{PKG}.python_analyzer")
    cmd = repo.func(f"{PKG}.python_analyzer.PythonNestingAnalyzer.calculate_max_depth")
    # the module-level walker functions, by name or (when a private name changed) by role
    def _has_aug(g):
        return any(isinstance(n, ast.AugAssign) and isinstance(n.op, ast.Add) and isinstance(n.target, ast.Name) and n.target.id in {a.arg for a in g.node.args.args} for n in ast.walk(g.node))
    def _mentions_orelse(g):
        return any(isinstance(n, ast.Attribute) and n.attr == "orelse" for n in ast.walk(g.node))
    vn = repo.func_by_role(f"{PKG}.python_analyzer._visit_node", "the dispatcher calculate_max_depth starts the walk with",
                           lambda g: g.cls is None and any(is_call_named(c, g.name) for c in ast.walk(cmd.node)))
    vcs = repo.func_by_role(f"{PKG}.python_analyzer._visit_control_structure", "adds one level for a control structure (depth parameter += 1) without looking at orelse",
                            lambda g: g.cls is None and _has_aug(g) and not _mentions_orelse(g))
    vif = repo.func_by_role(f"{PKG}.python_analyzer._visit_if_node", "adds one level for an if statement and handles its orelse",
                            lambda g: g.cls is None and _has_aug(g) and _mentions_orelse(g))
    vch = repo.func_by_role(f"{PKG}.python_analyzer._visit_children", "visits the children of a node at unchanged depth",
                            lambda g: g.cls is None and not _has_aug(g) and any(is_call_named(c, vn.name) for c in ast.walk(g.node)) and any(isinstance(n, (ast.For, ast.comprehension)) for n in ast.walk(g.node)) and g.name != vn.name)
    calls = [c for c in ast.walk(cmd.node) if is_call_named(c, vn.name)]
    run.require(len(calls) == 1, f"python calculate_max_depth: expected one {vn.name} call")
    start_py = repo.fold(pa, calls[0].args[1])
    inc_py, rec_after = _py_inc(vcs)
    inc_if, rec_if = _py_inc(vif)
    rec = repo.func(f"{PKG}.python_analyzer._DepthTracker.record")
    strict_py = any(isinstance(n, ast.Compare) and isinstance(n.ops[0], ast.Gt) and "depth" in ast.unparse(n.left) for n in ast.walk(rec.node))
    sigs["python"] = dict(start=start_py, inc=inc_py, strict=strict_py, loc=cmd.loc)
    if inc_py == 1 and rec_after and inc_if == 1 and rec_if:
        run.ok(N1, "python increment", "current_depth += 1 then record, for control structures and for if")
    else:
        run.finding(N1, "python_analyzer._visit_control_structure", f"inc:{inc_py}/{inc_if}", "a nesting construct does not add exactly 1 before the depth is recorded", vcs.loc)
    c2 = [c for c in ast.walk(vch.node) if is_call_named(c, vn.name)]
    vch_depth = vch.node.args.args[1].arg if len(vch.node.args.args) > 1 else None   # the depth parameter, whatever it is called
    if c2 and isinstance(c2[0].args[1], ast.Name) and c2[0].args[1].id == vch_depth:
        run.ok(N1, "python non-nesting nodes", "children visited at unchanged depth")
    else:
        run.finding(N1, "python_analyzer._visit_children", "depth-changed", "non-nesting nodes change the depth passed to their children", vch.loc)
    # ---- tree-sitter walkers
    for lang, cq in (("typescript", f"{PKG}.typescript_analyzer.TypeScriptNestingAnalyzer"), ("rust", f"{PKG}.rust_analyzer.RustNestingAnalyzer")):
        f = repo.func(f"{cq}.calculate_max_depth")
        # the depth walker is the closure that calls itself, whatever its name
        inner = next((n for n in ast.walk(f.node) if isinstance(n, ast.FunctionDef) and n is not f.node and any(isinstance(c, ast.Call) and isinstance(c.func, ast.Name) and c.func.id == n.name for c in ast.walk(n))), None)
        run.require(inner is not None, f"{lang}: self-recursive depth-walker closure not found")
        init = [c for c in ast.walk(f.node) if is_call_named(c, inner.name) and not any(c is x for x in ast.walk(inner))]
        run.require(len(init) == 1, f"{lang}: expected one initial visit_node call")
        start = repo.fold(f.module, init[0].args[1])
        inc = None
        # roles, not names: the closure's parameters are (node, depth); the child depth is whatever the
        # `depth + k if <nesting node> else depth` expression is bound to
        npar, dpar = (inner.args.args[0].arg, inner.args.args[1].arg) if len(inner.args.args) >= 2 else (None, None)
        child_names = set()
        for n in ast.walk(inner):
            if isinstance(n, ast.IfExp) and isinstance(n.body, ast.BinOp) and isinstance(n.body.op, ast.Add) and ast.unparse(n.body.left) == dpar and isinstance(n.body.right, ast.Constant):
                if ast.unparse(n.orelse) == dpar and "NESTING_NODE_TYPES" in ast.unparse(n.test):
                    inc = n.body.right.value
                    child_names |= {t.id for a in ast.walk(inner) if isinstance(a, ast.Assign) and a.value is n for t in a.targets if isinstance(t, ast.Name)}
        if inc is None:
            # statement form: child = depth ; if <nesting node>: child = depth + k
            for n in ast.walk(inner):
                if isinstance(n, ast.If) and "NESTING_NODE_TYPES" in ast.unparse(n.test) and len(n.body) == 1 and isinstance(n.body[0], ast.Assign):
                    a_ = n.body[0]
                    v_ = a_.value
                    if isinstance(v_, ast.BinOp) and isinstance(v_.op, ast.Add) and ast.unparse(v_.left) == dpar and isinstance(v_.right, ast.Constant) and isinstance(a_.targets[0], ast.Name):
                        nm_ = a_.targets[0].id
                        if not n.orelse:
                            # child = depth ; if <nesting node>: child = depth + k
                            base_defs = [b_ for b_ in ast.walk(inner) if isinstance(b_, ast.Assign) and b_ is not a_ and any(isinstance(t, ast.Name) and t.id == nm_ for t in b_.targets)]
                            okb = len(base_defs) == 1 and ast.unparse(base_defs[0].value) == dpar and base_defs[0].lineno < n.lineno
                        else:
                            # if <nesting node>: child = depth + k  else: child = depth
                            okb = len(n.orelse) == 1 and isinstance(n.orelse[0], ast.Assign) and ast.unparse(n.orelse[0].targets[0]) == nm_ and ast.unparse(n.orelse[0].value) == dpar
                        if okb:
                            inc = v_.right.value
                            child_names.add(nm_)
        # the maximum: `if depth > m: m = depth` on a variable of the enclosing function
        strict = any(isinstance(n, ast.If) and isinstance(n.test, ast.Compare) and isinstance(n.test.ops[0], ast.Gt) and ast.unparse(n.test.left) == dpar and isinstance(n.test.comparators[0], ast.Name)
                     and any(isinstance(a, ast.Assign) and ast.unparse(a.targets[0]) == n.test.comparators[0].id and ast.unparse(a.value) == dpar for a in n.body) for n in ast.walk(inner))
        rec_calls = [c for c in ast.walk(inner) if is_call_named(c, inner.name)]
        child_ok = rec_calls and all(len(c.args) > 1 and ((isinstance(c.args[1], ast.Name) and c.args[1].id in child_names) or isinstance(c.args[1], ast.IfExp)) for c in rec_calls)
        loops_children = any(isinstance(n, ast.For) and ast.unparse(n.iter) in (f"{npar}.children", f"{npar}.named_children") for n in ast.walk(inner))
        sigs[lang] = dict(start=start, inc=inc, strict=strict, loc=f.loc)
        if inc == 1 and child_ok and loops_children:
            run.ok(N1, f"{lang} increment", "children of a nesting node visited at current_depth + 1, others unchanged")
        else:
            run.finding(N1, f"{lang}_analyzer.calculate_max_depth", f"inc:{inc}", "nesting nodes do not add exactly 1 for all their children", f.loc)
    for lang, s in sigs.items():
        if s["strict"]:
            run.ok(N1, f"{lang} max", "maximum kept with strict >")
        else:
            run.finding(N1, f"{lang} walker", "non-strict-max", "the maximum depth is not tracked with `depth > max_depth`", s["loc"])
        if s["start"] == doc_base:
            run.ok(N1, f"{lang} base", f"body statements start at {s['start']} (documented {doc_base})")
        else:
            run.finding(N1, f"{lang} walker", f"base:{s['start']}", f"the {lang} walker starts body statements at depth {s['start']}; the documentation (and the other walkers: { {k: v['start'] for k, v in sigs.items()} }) use {doc_base}: the same skeleton gets a depth that differs by {doc_base - s['start'] if isinstance(s['start'], int) else '?'}", s["loc"])

    # ------------------------------------------------------------- N2
    N2 = run.rule("N2", "construct tables cover the documented constructs of each language, count a documented pair once, and treat else-if chains alike", floor=20,
                  decides="every documented control structure adds one level, in every language")
    tables = {}
    # the table of depth-increasing node classes: the module-level tuple the dispatcher tests with isinstance(node, <table>)
    cs_name = next((x.args[1].id for x in ast.walk(vn.node) if isinstance(x, ast.Call) and call_name(x) == "isinstance" and len(x.args) == 2 and isinstance(x.args[1], ast.Name) and isinstance(pa.assigns.get(x.args[1].id), ast.Tuple)), "_CONTROL_STRUCTURES")
    cs_expr = pa.assigns.get(cs_name)
    run.require(isinstance(cs_expr, ast.Tuple), "the control-structure table is not a module-level tuple literal tested by the dispatcher")
    tables["python"] = {ast.unparse(e).replace("ast.", "") for e in cs_expr.elts}
    if_special = any(isinstance(n, ast.Call) and call_name(n) == "isinstance" and ast.unparse(n.args[1]) == "ast.If" for n in ast.walk(vn.node))
    (run.ok(N2, "python If", "handled by _visit_if_node") if if_special else run.finding(N2, "python_analyzer._visit_node", "no-if", "`if` is not dispatched to the if handler", vn.loc))
    for lang, cq in (("typescript", f"{PKG}.typescript_analyzer.TypeScriptNestingAnalyzer"), ("rust", f"{PKG}.rust_analyzer.RustNestingAnalyzer")):
        c = repo.cls(cq)
        v = repo.fold(c.module, c.assigns.get("NESTING_NODE_TYPES"), c)
        run.require(isinstance(v, (set, frozenset, tuple, list)), f"{lang}: NESTING_NODE_TYPES not foldable")
        tables[lang] = set(v)
    section = doc[doc.find("### Statements That Increase Depth"):]
    section = section[: section.find("\n## ")] if "\n## " in section else section
    for lang, constructs in DOC_CONSTRUCTS.items():
        loc = {"python": pa.rel, "typescript": "src/linters/nesting/typescript_analyzer.py", "rust": "src/linters/nesting/rust_analyzer.py"}[lang]
        for phrase, kinds_needed in constructs.items():
            run.require(phrase in section, f"docs/nesting-linter.md no longer lists {phrase!r} (update DOC_CONSTRUCTS after reading the docs)")
            for k in kinds_needed:
                if k in tables[lang]:
                    run.ok(N2, f"{lang}:{k}", f"documented as {phrase}")
                else:
                    run.finding(N2, f"{lang} table", f"missing:{k}", f"documented construct {phrase} ({k}) does not increase the {lang} depth: code nested under it is under-counted", loc)
        documented = {k for ks in constructs.values() for k in ks} | ({"If"} if lang == "python" else set())
        for k in sorted(tables[lang] - documented):
            if k in PAIR_ONCE[lang] and PAIR_ONCE[lang][k] in tables[lang]:
                run.finding(N2, f"{lang} table", f"double-count:{k}", f"{k} is counted in addition to {PAIR_ONCE[lang][k]}: the documented pair is one nesting level (as in the other languages), here it adds two", loc)
            elif k in EXTRA_OK[lang]:
                run.ok(N2, f"{lang}:{k}", f"extra kind allowed: {EXTRA_OK[lang][k]}", nontrivial=False)
            else:
                run.finding(N2, f"{lang} table", f"undocumented:{k}", f"{k} increases the {lang} depth but the documentation does not list it", loc)
    # else-if chains
    # an elif chain counts once: the if handler (or a helper it calls) recognises `orelse == [If]`
    has_elif = {"python": any(isinstance(n, ast.Call) and call_name(n) == "isinstance" and len(n.args) == 2 and ast.unparse(n.args[1]) == "ast.If" for n in inline.flat_nodes(repo, vif))}
    for lang, cq in (("typescript", f"{PKG}.typescript_analyzer.TypeScriptNestingAnalyzer.calculate_max_depth"), ("rust", f"{PKG}.rust_analyzer.RustNestingAnalyzer.calculate_max_depth")):
        f = repo.func(cq)
        has_elif[lang] = any(isinstance(n, ast.Constant) and n.value in ("else_clause", "else") for n in ast.walk(f.node))
    for lang, h in has_elif.items():
        if h == has_elif["python"]:
            run.ok(N2, f"{lang} else-if", "else-if chains collapsed" if h else "not collapsed (as in python)")
        else:
            run.finding(N2, f"{lang} walker", "else-if-not-collapsed", f"the Python walker counts an if/elif/else chain once (_is_elif_chain) but the {lang} walker has no else-if handling: each `else if` adds a level, so the same skeleton gets a different depth", repo.func(f"{PKG}.{lang}_analyzer.{'TypeScript' if lang == 'typescript' else 'Rust'}NestingAnalyzer.calculate_max_depth").loc)

    # ------------------------------------------------------------- N3
    N3 = run.rule("N3", "the three _process_*_functions skip iff max_depth <= config.max_nesting_depth, report the compared max_depth, and NestingConfig reads max_nesting_depth in both branches", floor=8,
                  decides="the verdict flips exactly when the depth exceeds the limit, and the message states that depth")
    rq = f"{PKG}.linter.NestingDepthRule"
    for nm, builder_ in (("_process_python_functions", "create_nesting_violation"), ("_process_typescript_functions", "create_typescript_nesting_violation"), ("_process_rust_functions", "create_rust_nesting_violation")):
        f = repo.func_by_role(f"{rq}.{nm}", f"the rule method that compares each function's depth with the limit and calls {builder_}",
                              lambda g, b_=builder_: any(is_call_named(c, b_) for c in ast.walk(g.node)) and any(is_call_named(c, "calculate_max_depth") for c in ast.walk(g.node)))
        cmp_ = [n for n in ast.walk(f.node) if isinstance(n, ast.If) and isinstance(n.test, ast.Compare) and "max_nesting_depth" in ast.unparse(n.test)]
        if len(cmp_) != 1:
            run.finding(N3, nm, "threshold-test", f"{nm}: expected exactly one comparison with config.max_nesting_depth", f.loc)
            continue
        t = cmp_[0].test
        # roles, not names: the depth is the first result of calculate_max_depth(...)
        asg = [n for n in ast.walk(f.node) if isinstance(n, ast.Assign) and isinstance(n.value, ast.Call) and call_name(n.value) == "calculate_max_depth"]
        dv = None
        if asg:
            tg = asg[0].targets[0]
            dv = tg.elts[0].id if isinstance(tg, ast.Tuple) and isinstance(tg.elts[0], ast.Name) else tg.id if isinstance(tg, ast.Name) else None
        run.require(dv is not None, f"{nm}: the depth returned by calculate_max_depth is not bound to a name")
        l_, r_ = ast.unparse(t.left), ast.unparse(t.comparators[0])
        op = type(t.ops[0]).__name__ if len(t.ops) == 1 else None
        if r_ == dv and l_.endswith("max_nesting_depth"):     # limit <op> depth  ->  depth <op'> limit
            op = {"GtE": "LtE", "Gt": "Lt", "LtE": "GtE", "Lt": "Gt"}.get(op, op)
            l_, r_ = r_, l_
        skips = any(isinstance(s_, (ast.Continue, ast.Return)) for s_ in cmp_[0].body)
        reports = any(isinstance(c, ast.Call) and call_name(c).startswith("create_") for s_ in cmp_[0].body for c in ast.walk(s_))
        good = l_ == dv and r_.endswith("max_nesting_depth") and ((op == "LtE" and skips and not reports) or (op == "Gt" and reports))
        if good:
            run.ok(N3, f"{nm} threshold", "reported iff depth > limit")
        else:
            run.finding(N3, nm, f"threshold:{norm(t)}", f"{nm}: the skip condition is `{norm(t)}`; a function is reported iff its depth strictly exceeds the limit", f.loc)
        # the compared value comes from calculate_max_depth and is the one handed to the builder
        b = [c for c in ast.walk(f.node) if isinstance(c, ast.Call) and call_name(c).startswith("create_") and call_name(c).endswith("nesting_violation")]
        ok = b and ((len(b[0].args) > 1 and ast.unparse(b[0].args[1]) == dv) or any(ast.unparse(k.value) == dv for k in b[0].keywords))
        (run.ok(N3, f"{nm} message operand", "builder receives the compared depth") if ok else run.finding(N3, nm, "operand", f"{nm}: the depth handed to the violation builder is not the compared max_depth", f.loc))
    for nm in ("create_nesting_violation", "create_typescript_nesting_violation", "create_rust_nesting_violation"):
        f = repo.func(f"{PKG}.violation_builder.NestingViolationBuilder.{nm}")
        # the builder may delegate to a private helper: look at the flattened function (helpers inlined, parameters substituted)
        sk = next((c for c in inline.flat_nodes(repo, f) if is_call_named(c, "build_from_params", "Violation")), None)
        msg = kwarg(sk, "message") if sk else None
        names = {n.id for n in ast.walk(msg) if isinstance(n, ast.Name)} if msg is not None else set()
        # one level of local definitions (message = f"..."; text = str(max_depth))
        for _ in range(2):
            for a_ in inline.flat_nodes(repo, f):
                if isinstance(a_, ast.Assign) and any(isinstance(t_, ast.Name) and t_.id in names for t_ in a_.targets):
                    names |= {n.id for n in ast.walk(a_.value) if isinstance(n, ast.Name)}
        depth_param = f.node.args.args[2].arg if len(f.node.args.args) > 2 else "max_depth"
        (run.ok(N3, f"{nm} message", f"interpolates {depth_param}") if depth_param in names else run.finding(N3, nm, "message", f"{nm}: the message does not state the computed depth", f.loc))
    fd = repo.func(f"{PKG}.config.NestingConfig.from_dict")
    keys = [repo.fold(fd.module, n.args[0], fd.cls) for n in ast.walk(fd.node) if isinstance(n, ast.Call) and call_name(n) == "get" and n.args]   # literal keys or hoisted constants
    n_key = keys.count("max_nesting_depth")
    (run.ok(N3, "NestingConfig.from_dict", f"max_nesting_depth read in {n_key} places (override, fallback, default branch)") if n_key >= 3 else run.finding(N3, "NestingConfig.from_dict", f"reads:{n_key}", "the language-override branch and the default branch do not read the same key", fd.loc))

    # ------------------------------------------------------------- N4
    N4 = run.rule("N4", "node-kind literals in the TypeScript/Rust nesting code are named kinds of the linked grammar", floor=20,
                  decides="every function form the grammar can produce (function expressions included) is actually analysed")
    g = ctx.grammar
    for m in repo.modules_in(PKG):
        lang = kinds.module_language(m.name)
        if not lang:
            continue
        for k, how, line, fn in kinds.kind_literals(repo, ctx.cg, m):
            _kind_verdict(run, N4, g[lang], lang, m, k, how, line, fn, ANON_OK)
    # ------------------------------------------------------------- N5
    from . import shared

    N5 = run.rule("N5", "traversal completeness: the depth walkers and function collectors descend into every child (no statement-bearing field or subtree is skipped)", floor=4,
                  decides="the deepest statement is found wherever it sits (inside match/case arms, handlers, else branches, nested blocks)")
    loops = [n for n in ast.walk(vch.node) if isinstance(n, (ast.For, ast.comprehension))]
    uses_all = any(is_call_named(n.iter, "iter_child_nodes") for n in loops)
    if uses_all:
        bad = _descent_guard(vch, loops)
        if bad is None:
            run.ok(N5, "python _visit_children", "ast.iter_child_nodes(node): every child, and every statement-bearing child is descended into")
        else:
            run.finding(N5, "python_analyzer._visit_children", f"guarded-descent:{bad[0]}", f"_visit_children descends only into children satisfying `{bad[1]}`, which leaves out {bad[0]}: Python's statement-bearing child nodes are statements, except handlers and match_case arms, so control structures nested there are never counted", vch.loc)
    else:
        need = shared.statement_fields()
        have = {c.value for c in ast.walk(vch.node) if isinstance(c, ast.Constant) and isinstance(c.value, str)} | {v for c in ast.walk(vch.node) if isinstance(c, ast.Name) for v in (repo.fold(vch.module, c) if isinstance(repo.fold(vch.module, c), (tuple, list, set, frozenset)) else ())}
        missing = sorted(need - have)
        if missing:
            run.finding(N5, "python_analyzer._visit_children", f"fields-skipped:{missing}", f"_visit_children no longer iterates all child nodes and its field list lacks {missing} (Python's statement-bearing fields are {sorted(need)}): control structures nested there are never counted", vch.loc)
        else:
            run.ok(N5, "python _visit_children", f"field list covers {sorted(need)}")
    for fn, f in (("_visit_control_structure", vcs), ("_visit_if_node", vif)):
        if fn == "_visit_if_node":
            ok = contains(f.node, lambda x: isinstance(x, ast.Attribute) and x.attr == "body") and contains(f.node, lambda x: isinstance(x, ast.Attribute) and x.attr == "orelse")
        else:
            ok = any(is_call_named(x, vch.name) for x in ast.walk(f.node))
        (run.ok(N5, f"python {fn}", "descends into the construct's blocks") if ok else run.finding(N5, f"python_analyzer.{fn}", "no-descent", f"{fn} does not descend into the construct's blocks", f.loc))
    for lang, cq in (("typescript", f"{PKG}.typescript_analyzer.TypeScriptNestingAnalyzer.calculate_max_depth"), ("rust", f"{PKG}.rust_analyzer.RustNestingAnalyzer.calculate_max_depth")):
        f = repo.func(cq)
        inner = next((n for n in ast.walk(f.node) if isinstance(n, ast.FunctionDef) and n is not f.node and any(isinstance(c, ast.Call) and isinstance(c.func, ast.Name) and c.func.id == n.name for c in ast.walk(n))), None)
        run.require(inner is not None, f"{lang}: self-recursive depth-walker closure not found")
        loops = [n for n in ast.walk(inner) if isinstance(n, ast.For)]
        ok = len(loops) == 1 and ast.unparse(loops[0].iter) == f"{inner.args.args[0].arg}.children" and not any(isinstance(x, (ast.If, ast.Continue, ast.Break)) for x in loops[0].body) and not any(isinstance(x, ast.Return) for x in ast.walk(inner))
        (run.ok(N5, f"{lang} visit_node", "for child in node.children: visit_node(child, ...) unconditionally") if ok else run.finding(N5, f"{lang} visit_node", "pruned-walk", f"the {lang} depth walker does not visit every child unconditionally", f.loc))
    for rec in shared.whole_tree_finders(ctx):
        if ".nesting." in rec["func"]:
            (run.ok(N5, rec["func"], rec["detail"]) if rec["ok"] else run.finding(N5, rec["func"], "partial-descent", f"{rec['func']}: {rec['detail']}", rec["loc"]))
    for rec in shared.collector_walkers(ctx, prefixes=(PKG,)):
        (run.ok(N5, rec["func"], rec["detail"]) if rec["ok"] else run.finding(N5, rec["func"], "pruned-walk", f"{rec['func']}: {rec['detail']}: functions nested below such a node are never analysed", rec["loc"]))
    N7 = run.rule("N7", "the TypeScript and Rust depth calculators give up (depth 0) only when the function has no body: their early-exit guards are siblings", floor=2,
                  decides="every function with a body gets its depth computed - a body the grammar parses with error nodes (JSX under the TypeScript grammar) included")
    guards = {}
    for lang, cq in (("typescript", f"{PKG}.typescript_analyzer.TypeScriptNestingAnalyzer.calculate_max_depth"), ("rust", f"{PKG}.rust_analyzer.RustNestingAnalyzer.calculate_max_depth")):
        f = repo.func(cq)
        early = [n for n in f.node.body if isinstance(n, ast.If) and any(isinstance(s_, ast.Return) for s_ in n.body)]
        # normalise the tested name: the local bound to the body node
        tests = []
        for n in early:
            names = sorted({x.id for x in ast.walk(n.test) if isinstance(x, ast.Name)})
            txt = ast.unparse(n.test)
            for i_, nm_ in enumerate(names):
                txt = re.sub(rf"\b{re.escape(nm_)}\b", f"v{i_}", txt)
            tests.append(txt)
        guards[lang] = (tests, f)
    allowed = {"not v0", "v0 is None"}
    for lang, (tests, f) in guards.items():
        extra = [t for t in tests if t not in allowed]
        if extra:
            run.finding(N7, f"{lang} calculate_max_depth", f"extra-early-exit:{extra[0]}", f"the {lang} depth calculator also returns depth 0 when `{extra[0]}`: functions whose body meets that condition are never reported, whatever their nesting", f.loc)
        else:
            run.ok(N7, f"{lang} calculate_max_depth", f"early exits {tests}: only for a missing body")

    N6 = run.rule("N6", "NestingDepthRule does not keep the parsed (language-dependent) NestingConfig on the rule instance without a language key", floor=1,
                  decides="the limit applied to a function is the one configured for its own language, whatever file the run saw first")
    from ..linters import Linters
    from . import shared

    recs = [r_ for r_ in shared.config_memoisation(ctx, Linters(ctx)) if r_["rule"] == "NestingDepthRule"]
    run.require(bool(recs), "NestingDepthRule: no config-loading method found")
    for rec in recs:
        if rec["bad"]:
            run.finding(N6, f"{rec['rule']}.{rec['name']}", f"memoised:{rec['store']}", f"{rec['func'].qual} keeps the parsed configuration on the rule instance ({rec['store']}) with no test of the file's language: the first file's language fixes max_nesting_depth for every later file of the run", rec["func"].loc)
        else:
            run.ok(N6, f"{rec['rule']}.{rec['name']}", "no instance-level memoisation of the parsed configuration")
    run.extra["walker_signatures"] = {k: {a: b for a, b in v.items() if a != "loc"} for k, v in sigs.items()}
    return __doc__


def _descent_guard(vch, loops):
    """The recursive visit inside `for child in ast.iter_child_nodes(node)` may be guarded by a type test; the test is
    evaluated for every concrete ast class that can hold statements (stmt subclasses, ExceptHandler, match_case).
    Returns None when all of them are descended into, else (missing class names, guard text)."""
    need = [c for c in vars(ast).values() if isinstance(c, type) and issubclass(c, (ast.stmt, ast.excepthandler, ast.match_case)) and c not in (ast.stmt, ast.excepthandler)]

    def classes(e, depth=0):
        if isinstance(e, ast.Tuple):
            out = []
            for x in e.elts:
                c = classes(x, depth)
                if c is None:
                    return None
                out += c
            return out
        nm = e.attr if isinstance(e, ast.Attribute) else e.id if isinstance(e, ast.Name) else None
        c = getattr(ast, nm, None) if nm else None
        if not isinstance(c, type) and isinstance(e, ast.Name) and depth < 4 and e.id in vch.module.assigns:
            return classes(vch.module.assigns[e.id], depth + 1)     # a hoisted class tuple (_BLOCK_HOLDERS = (ast.stmt, ...))
        return [c] if isinstance(c, type) else None

    def ev(t, cls):
        if isinstance(t, ast.Call) and isinstance(t.func, ast.Name) and t.func.id == "isinstance" and len(t.args) == 2:
            cs = classes(t.args[1])
            return None if cs is None else issubclass(cls, tuple(cs))
        if isinstance(t, ast.UnaryOp) and isinstance(t.op, ast.Not):
            v = ev(t.operand, cls)
            return None if v is None else not v
        if isinstance(t, ast.BoolOp):
            vs = [ev(v, cls) for v in t.values]
            if any(v is None for v in vs):
                return None
            return all(vs) if isinstance(t.op, ast.And) else any(vs)
        return None

    for loop in loops:
        if not isinstance(loop, ast.For) or not is_call_named(loop.iter, "iter_child_nodes"):
            continue
        for st in loop.body:
            guards = []  # (test, polarity) pairs enclosing the visit call / skipping it
            if isinstance(st, ast.If):
                has_call_body = any(isinstance(c, ast.Call) for b in st.body for c in ast.walk(b))
                skips = any(isinstance(x, ast.Continue) for x in st.body)
                if skips:
                    guards.append((st.test, False))
                elif has_call_body and not st.orelse:
                    guards.append((st.test, True))
            for test, pol in guards:
                missing = []
                for c in need:
                    v = ev(test, c)
                    if v is None:
                        continue
                    if v != pol:
                        missing.append(c.__name__)
                if missing:
                    return (sorted(missing)[:6], ast.unparse(test))
    return None


def _py_inc(f):
    inc = None
    rec_after = False
    seen_inc = False
    for st in ast.walk(f.node):
        if isinstance(st, ast.AugAssign) and isinstance(st.op, ast.Add) and isinstance(st.target, ast.Name) and st.target.id in {a.arg for a in f.node.args.args} and isinstance(st.value, ast.Constant):
            inc = st.value.value
    # order: the += precedes tracker.record in source order
    body = list(ast.walk(f.node))
    pos_inc = next((i for i, n in enumerate(body) if isinstance(n, ast.AugAssign)), None)
    pos_rec = next((i for i, n in enumerate(body) if isinstance(n, ast.Call) and call_name(n) == "record"), None)
    if pos_inc is not None and pos_rec is not None:
        inc_line = body[pos_inc].lineno
        rec_line = body[pos_rec].lineno
        rec_after = rec_line > inc_line
    return inc, rec_after


def _kind_verdict(run, rid, vocab, lang, m, k, how, line, fn, anon_ok):
    sym = f"{fn}:{k}"
    loc = f"{m.rel}:{line}"
    if how == "field":
        if k in vocab.fields:
            run.ok(rid, sym, f"field name of the {lang} grammar")
        else:
            run.finding(rid, fn, f"unknown-field:{k}", f"{k!r} is not a field name of the {lang} grammar: child_by_field_name always returns None", loc)
        return
    if k in vocab.named:
        run.ok(rid, sym, f"named {lang} node kind")
    elif k in vocab.anonymous:
        if not (k[0].isalpha() or k[0] == "_"):
            run.ok(rid, sym, "punctuation/operator token", nontrivial=False)
        elif (fn, k) in anon_ok:
            run.ok(rid, sym, f"keyword token, allowed: {anon_ok[(fn, k)]}", nontrivial=False)
        else:
            twin = [x for x in vocab.named if x.startswith(k + "_")]
            run.finding(rid, fn, f"anonymous-kind:{k}", f"{k!r} is only the anonymous keyword token in the {lang} grammar (the syntax node is one of {sorted(twin)[:4]}): the branch never sees the construct it is written for", loc)
    else:
        run.finding(rid, fn, f"unknown-kind:{k}", f"{k!r} is not a node kind of the linked {lang} grammar: the comparison can never be true", loc)
