"""C18 - file-placement verdicts follow the allow/deny rules exactly.

Decides (structure only):
 V1 deny is evaluated before allow and short-circuits, in _check_directory_rules and _check_global_patterns;
 V2 the global checks run only when no directory rule covers the file ("directory overrides global");
 V3 every pattern list the matcher consumes is validated by PatternValidator, and its ValueError is not swallowed
    between the validator and the orchestrator's _safe_check_rule;
 V4 find_matching_rule keeps the strictly deepest matching directory, and "matching" respects path-component
    boundaries (directory `src` must not cover `srcs/x.py`);
 V5 matcher and validator compile the same pattern language (matcher flags = IGNORECASE, validator flags subset);
 V6 the path judged is project-relative for relative as well as absolute spellings of the file.
Not decided: regular-expression semantics.
"""

from __future__ import annotations

import ast

from .. import cfg
from .. import inline
from ..facts import call_name, dotted, norm
from ..linters import Linters
from ..util import func_paths, is_call_named, is_caught

PKG = "src.linters.file_placement"


def check(run, ctx):
    repo, cg = ctx.repo, ctx.cg
    rc = f"{PKG}.rule_checker.RuleChecker"

    V1 = run.rule("V1", "deny before allow with short-circuit, in _check_directory_rules and _check_global_patterns", floor=4, decides="deny takes precedence over allow")
    f = repo.func(f"{rc}._check_directory_rules")
    paths = func_paths(f)
    run.require(paths is not None, "_check_directory_rules: too many paths")
    ok_order, n_allow, short = True, 0, False
    for p in paths:
        ia = cfg.first_index(p, lambda n: is_call_named(n, "_check_directory_allow_rules"))
        idn = cfg.first_index(p, lambda n: is_call_named(n, "_check_directory_deny_rules"))
        if ia is not None:
            n_allow += 1
            if idn is None or idn > ia:
                ok_order = False
        if idn is not None and ia is None and p[-1][0] == "return":
            short = True
    (run.ok(V1, "_check_directory_rules order", f"deny evaluated before allow on all {n_allow} allow paths") if ok_order and n_allow else run.finding(V1, "_check_directory_rules", "order", "allow patterns can be evaluated without/before the deny patterns", f.loc))
    (run.ok(V1, "_check_directory_rules short-circuit", "a deny hit returns before allow is consulted") if short else run.finding(V1, "_check_directory_rules", "no-short-circuit", "a deny hit does not return before the allow check", f.loc))
    f = repo.func(f"{rc}._check_global_patterns")
    paths = func_paths(f)
    ok_order, n_allow, short = True, 0, False
    for p in paths or []:
        ia = cfg.first_index(p, lambda n: is_call_named(n, "match_allow_patterns"))
        idn = cfg.first_index(p, lambda n: is_call_named(n, "match_deny_patterns"))
        if ia is not None:
            n_allow += 1
        if idn is not None and ia is None and cfg.returns_nonempty(p[-1]):
            short = True
    # deny lookup precedes allow lookup in source order (the try blocks are sequential)
    pos = {call_name(n): n.lineno for n in ast.walk(f.node) if isinstance(n, ast.Call) and call_name(n) in ("match_allow_patterns", "match_deny_patterns")}
    ok_order = pos.get("match_deny_patterns", 10**9) < pos.get("match_allow_patterns", -1)
    (run.ok(V1, "_check_global_patterns order", "deny evaluated before allow") if ok_order else run.finding(V1, "_check_global_patterns", "order", "global allow is evaluated before global deny", f.loc))
    (run.ok(V1, "_check_global_patterns short-circuit", "a deny hit returns its violation") if short else run.finding(V1, "_check_global_patterns", "no-short-circuit", "a global deny hit does not return before the allow check", f.loc))

    V2 = run.rule("V2", "in check_all_rules the global_deny / global_patterns checks are control-dependent on 'no directory rule matched'", floor=2,
                  decides="a file covered by a directory rule is judged by that rule only (directory overrides global)")
    f = repo.func(f"{rc}.check_all_rules")
    for g in ("_check_global_deny", "_check_global_patterns"):
        calls = [n for n in ast.walk(f.node) if is_call_named(n, g)]
        run.require(len(calls) == 1, f"check_all_rules: expected one call to {g}")
        guarded = False
        for n in ast.walk(f.node):
            if isinstance(n, ast.If) and any(c is calls[0] for b in n.body + n.orelse for c in ast.walk(b)):
                names = {x.id for x in ast.walk(n.test) if isinstance(x, ast.Name)} | {x.attr for x in ast.walk(n.test) if isinstance(x, ast.Attribute)}
                if any("dir" in x or "match" in x or "covered" in x for x in names):
                    guarded = True
        early = any(isinstance(n, ast.If) and any(isinstance(s, ast.Return) for s in n.body) and any("dir" in x.id or "match" in x.id for x in ast.walk(n.test) if isinstance(x, ast.Name)) and n.lineno < calls[0].lineno for n in ast.walk(f.node))
        if guarded or early:
            run.ok(V2, g, "runs only when no directory rule matched")
        else:
            run.finding(V2, f"check_all_rules:{g}", "unconditional-global", f"{g} runs unconditionally after the directory rules: a file its directory rule allows is still reported by the global patterns (docs: 'Directory overrides global')", f.loc)

    V3 = run.rule("V3", "pattern lists consumed by the rule checker = pattern lists PatternValidator validates; validation ValueError is not swallowed up to _safe_check_rule", floor=6,
                  decides="a syntactically invalid pattern is rejected as a configuration error")
    consumed = _keys_used(repo, f"{PKG}.rule_checker.")
    # keys validated = keys touched by functions reachable from validate_config through self-calls
    vcls = repo.cls(f"{PKG}.pattern_validator.PatternValidator")
    seen_v, todo_v = set(), ["validate_config"]
    while todo_v:
        nm = todo_v.pop()
        if nm in seen_v or nm not in vcls.methods:
            continue
        seen_v.add(nm)
        for n in ast.walk(vcls.methods[nm].node):
            if isinstance(n, ast.Call) and isinstance(n.func, ast.Attribute) and isinstance(n.func.value, ast.Name) and n.func.value.id == "self":
                todo_v.append(n.func.attr)
    validated = set()
    for nm in seen_v:
        for n in ast.walk(vcls.methods[nm].node):
            key_e = n.slice if isinstance(n, ast.Subscript) else n.args[0] if isinstance(n, ast.Call) and call_name(n) == "get" and n.args else None
            kv = repo.fold(vcls.module, key_e) if key_e is not None else None   # literal or module constant
            if isinstance(kv, str) and kv in ("directories", "global_deny", "global_patterns", "allow", "deny"):
                validated.add(kv)
    for k in sorted(consumed):
        if k in validated:
            run.ok(V3, f"list:{k}", "consumed by the matcher and validated")
        else:
            run.finding(V3, "PatternValidator", f"unvalidated:{k}", f"patterns under {k!r} are matched but never validated: an invalid regex there raises re.error inside a rule (swallowed by the orchestrator) instead of a configuration error", f"{PKG.replace('.', '/')}/pattern_validator.py")
    vp = repo.func(f"{PKG}.pattern_validator.PatternValidator._validate_pattern")
    ok = any(isinstance(n, ast.Raise) and "ValueError" in ast.unparse(n) for n in ast.walk(vp.node)) and any(isinstance(n, ast.Call) and dotted(n.func) == "re.compile" for n in ast.walk(vp.node))
    (run.ok(V3, "_validate_pattern", "re.compile failure -> ValueError") if ok else run.finding(V3, "_validate_pattern", "no-valueerror", "an invalid pattern no longer raises ValueError", vp.loc))
    L = Linters(ctx)
    rule = L.rule("FilePlacementRule")
    target = f"{PKG}.pattern_validator.PatternValidator.validate_config"
    fwd = L.reach(rule)
    run.require(target in fwd, "validate_config is not reachable from FilePlacementRule.check")
    rev = set()
    todo = [target]
    while todo:
        t = todo.pop()
        for s in cg.inn.get(t, ()):
            if s["kind"] == "call" and s["caller"] in fwd and s["caller"] not in rev:
                rev.add(s["caller"])
                todo.append(s["caller"])
        if t.endswith(".__init__"):
            for s in cg.inn.get("new:" + t.rsplit(".", 1)[0], ()):
                if s["kind"] == "call" and s["caller"] in fwd and s["caller"] not in rev:
                    rev.add(s["caller"])
                    todo.append(s["caller"])
    n_sites = 0
    for fq in sorted(rev):
        g = repo.funcs.get(fq)
        if g is None:
            continue
        for s in cg.out.get(fq, ()):
            if s["kind"] != "call" or not any(x in rev or x == target or x.startswith("new:") and x[4:] + ".__init__" in rev for x in s["callees"]):
                continue
            call = L.idx.call_at(s["module"], s["span"])
            if call is None:
                continue
            n_sites += 1
            if is_caught(g.node, call, "ValueError"):
                run.finding(V3, fq.replace("src.linters.", ""), f"swallows:{norm(call)}", f"{fq}: {norm(call)} leads to pattern validation but runs under a handler that catches ValueError", g.loc)
    run.ok(V3, "validation path", f"{n_sites} call sites between FilePlacementRule.check and validate_config inspected")

    V4 = run.rule("V4", "find_matching_rule keeps the strictly deepest match; a directory key matches only whole leading path components", floor=2)
    fm = repo.func(f"{PKG}.directory_matcher.DirectoryMatcher.find_matching_rule")
    # roles, not names: `if <matched and> d > best: ... best = d` - the running maximum is updated under a strict comparison
    strict = False
    for n in ast.walk(fm.node):
        if isinstance(n, ast.If):
            for c_ in ast.walk(n.test):
                if isinstance(c_, ast.Compare) and len(c_.ops) == 1 and isinstance(c_.ops[0], ast.Gt) and isinstance(c_.left, ast.Name) and isinstance(c_.comparators[0], ast.Name):
                    if any(isinstance(a, ast.Assign) and ast.unparse(a.targets[0]) == c_.comparators[0].id and ast.unparse(a.value) == c_.left.id for a in n.body):
                        strict = True
    (run.ok(V4, "find_matching_rule", "depth > best_depth (strictly deepest wins)") if strict else run.finding(V4, "find_matching_rule", "not-strict", "the deepest matching directory rule is not selected with a strict comparison", fm.loc))
    pm = repo.func_by_role(f"{PKG}.directory_matcher.DirectoryMatcher._check_path_match", "tests one directory key against the path (the method find_matching_rule calls per key)",
                           lambda g: g.name != "find_matching_rule" and any(is_call_named(n, g.name) for n in ast.walk(fm.node)))
    sw = [n for n in ast.walk(pm.node) if is_call_named(n, "startswith")]
    def _ends_with_sep(e):      # does the prefix expression provably end with the path separator?
        if isinstance(e, ast.Constant):
            return isinstance(e.value, str) and e.value.endswith("/")
        if isinstance(e, ast.BinOp) and isinstance(e.op, ast.Add):
            return _ends_with_sep(e.right)
        if isinstance(e, ast.JoinedStr):
            return bool(e.values) and _ends_with_sep(e.values[-1])
        v = repo.fold(pm.module, e, pm.cls)
        return isinstance(v, str) and v.endswith("/")
    alts = [a for n in sw if n.args for a in (n.args[0].elts if isinstance(n.args[0], ast.Tuple) else [n.args[0]])]
    loose = [a for a in alts if not _ends_with_sep(a)]
    if sw and loose and not any(isinstance(n, ast.Compare) and "parts" in ast.unparse(n) for n in ast.walk(pm.node)):
        run.finding(V4, f"DirectoryMatcher.{pm.name}", f"prefix-without-boundary:{norm(loose[0])[:40]}", f"`{norm(sw[0])[:90]}`: the alternative `{norm(loose[0])[:40]}` is a plain string prefix that does not end with the separator: the rule for directory `src` also covers `srcs/x.py` or `src_old/x.py`, which it does not contain (and those files skip the global rules)", pm.loc)
        boundary = True     # reported above
    else:
        boundary = None
    boundary = boundary or any("/" in ast.unparse(n.args[0]) or "rstrip" in ast.unparse(n.args[0]) for n in sw if n.args) or any(isinstance(n, ast.Compare) and "parts" in ast.unparse(n) for n in ast.walk(pm.node)) or any(is_call_named(n, "is_relative_to") for n in ast.walk(pm.node))
    if boundary:
        run.ok(V4, pm.name, "prefix test respects component boundaries")
    else:
        run.finding(V4, f"DirectoryMatcher.{pm.name}", "prefix-without-boundary", f"`{norm(sw[0]) if sw else '?'}` is a plain string prefix: the rule for directory `src` also covers `srcs/x.py` or `src_old/x.py`, which it does not contain", pm.loc)

    V5 = run.rule("V5", "matcher compiles with re.IGNORECASE only; validator compiles the same pattern without extra flags", floor=2)
    for fq, want in ((f"{PKG}.pattern_matcher.PatternMatcher._get_compiled", {"IGNORECASE"}), (f"{PKG}.pattern_validator.PatternValidator._validate_pattern", set())):
        g = repo.func(fq)
        comp = [n for n in ast.walk(g.node) if isinstance(n, ast.Call) and dotted(n.func) == "re.compile"]
        run.require(len(comp) == 1, f"{fq}: expected one re.compile")
        flags = {x.attr for a in comp[0].args[1:] + [k.value for k in comp[0].keywords] for x in ast.walk(a) if isinstance(x, ast.Attribute)}
        (run.ok(V5, g.name, f"flags {sorted(flags)}") if flags == want else run.finding(V5, g.name, f"flags:{sorted(flags)}", f"{g.name} compiles with flags {sorted(flags)} (expected {sorted(want)}): validator and matcher no longer read a pattern the same way", g.loc))
    used = [n for f2 in repo.funcs_in(f"{PKG}.pattern_matcher.") for n in ast.walk(f2.node) if isinstance(n, ast.Call) and call_name(n) in ("search", "match", "fullmatch")]
    (run.ok(V5, "match method", "search") if used and all(call_name(n) == "search" for n in used) else run.finding(V5, "PatternMatcher", f"method:{sorted({call_name(n) for n in used})}", "patterns are not applied with re.search", f"{PKG}"))

    pmc = repo.cls(f"{PKG}.pattern_matcher.PatternMatcher")
    gc_ = pmc.methods["_get_compiled"]
    comp = next(n for n in ast.walk(gc_.node) if isinstance(n, ast.Call) and dotted(n.func) == "re.compile")
    unit = isinstance(comp.args[0], ast.Name) and comp.args[0].id == gc_.node.args.args[1].arg
    ma = pmc.methods["match_allow_patterns"]
    ret = next((n.value for n in ast.walk(ma.node) if isinstance(n, ast.Return)), None)
    apar = ma.node.args.args[2].arg
    per_pattern = isinstance(ret, ast.Call) and call_name(ret) == "any" and ret.args and isinstance(ret.args[0], (ast.GeneratorExp, ast.ListComp)) and ast.unparse(ret.args[0].generators[0].iter) == apar and not ret.args[0].generators[0].ifs
    if not per_pattern:
        # the same thing spelled as a loop: for p in allow_patterns: if <search hit>: return True ... return False
        body = [st for st in ma.node.body if not (isinstance(st, ast.Expr) and isinstance(st.value, ast.Constant))]
        loops = [st for st in body if isinstance(st, ast.For) and ast.unparse(st.iter) == apar]
        last = body[-1] if body else None
        per_pattern = (len(loops) == 1 and not loops[0].orelse and not any(isinstance(x, (ast.Break, ast.Continue)) for x in ast.walk(loops[0]))
                       and any(isinstance(i_, ast.If) and any(is_call_named(c, "search") for c in ast.walk(i_.test)) and any(isinstance(r_, ast.Return) and isinstance(r_.value, ast.Constant) and r_.value.value is True for r_ in i_.body) for i_ in loops[0].body)
                       and isinstance(last, ast.Return) and isinstance(last.value, ast.Constant) and last.value.value is False)
    combined = [n for m_ in pmc.methods.values() for n in ast.walk(m_.node) if isinstance(n, ast.Call) and call_name(n) == "join" and isinstance(n.func.value, ast.Constant) and "|" in str(n.func.value.value)]
    if unit and per_pattern and not combined:
        run.ok(V5, "allow matching", "any(search(p) for p in allow_patterns): each validated pattern is matched on its own; an empty allow list allows nothing")
    else:
        run.finding(V5, "PatternMatcher.match_allow_patterns", "combined-pattern", "allow patterns are no longer matched one by one with any(...): a combined alternation changes the meaning of an empty allow list (matches everything) and of back-references, and is not what PatternValidator validated", ma.loc)

    V6 = run.rule("V6", "lint_path judges PathResolver.get_relative_path(file); get_relative_path makes relative spellings project-relative too", floor=2,
                  decides="the verdict depends only on the file's path relative to the project root")
    lp = repo.func(f"{PKG}.linter.FilePlacementLinter.lint_path")
    ok = any(is_call_named(n, "get_relative_path") for n in ast.walk(lp.node)) and any(is_call_named(n, "check_all_rules") for n in ast.walk(lp.node))
    (run.ok(V6, "lint_path", "check_all_rules(normalised get_relative_path(file))") if ok else run.finding(V6, "FilePlacementLinter.lint_path", "not-relative", "the judged path is not obtained from get_relative_path", lp.loc))
    gr = repo.func(f"{PKG}.path_resolver.PathResolver.get_relative_path")
    # what is handed to .relative_to(project_root): every expression E with `return E.relative_to(...)`, helper calls
    # replaced by the helper's own return expressions (one producer per return), each with its guard
    def producers(owner, e, guarded):
        if isinstance(e, ast.Call):
            g = inline.resolve_call(repo, owner, e)
            if g is not None and g.module.name.startswith("src") and g.qual != owner.qual:
                out_ = []
                for r_ in [x for x in ast.walk(g.node) if isinstance(x, ast.Return) and x.value is not None]:
                    in_abs = any(isinstance(i_, ast.If) and any(is_call_named(c_, "is_absolute") for c_ in ast.walk(i_.test)) and any(r_ is y for b_ in i_.body for y in ast.walk(b_)) for i_ in ast.walk(g.node))
                    out_ += producers(g, r_.value, guarded or in_abs)
                return out_
        return [(e, guarded)]

    prods = []
    for r_ in [x for x in ast.walk(gr.node) if isinstance(x, ast.Return) and x.value is not None]:
        v_ = r_.value
        if isinstance(v_, ast.Call) and call_name(v_) == "relative_to" and isinstance(v_.func, ast.Attribute):
            in_abs = any(isinstance(i_, ast.If) and any(is_call_named(c_, "is_absolute") for c_ in ast.walk(i_.test)) and any(r_ is y for b_ in i_.body for y in ast.walk(b_)) for i_ in ast.walk(gr.node))
            prods += producers(gr, v_.func.value, in_abs)
    run.require(bool(prods), "get_relative_path: no `return <path>.relative_to(project_root)` found")
    # a return on the normal path (inside the try body) that hands the path on without relativising it
    for t_ in [x for x in ast.walk(gr.node) if isinstance(x, ast.Try)]:
        for r_ in [x for b_ in t_.body for x in ast.walk(b_) if isinstance(x, ast.Return) and x.value is not None]:
            if not (isinstance(r_.value, ast.Call) and call_name(r_.value) == "relative_to"):
                prods.append((r_.value, False))
    def has(e, *names):
        return any(isinstance(x, ast.Call) and (call_name(x) in names or dotted(x.func) in names) for x in ast.walk(e))
    as_is = [e for e, guarded in prods if not guarded and not has(e, "resolve", "absolute", "cwd", "abspath", "os.path.abspath")]
    if not as_is:
        run.ok(V6, "get_relative_path", "relative inputs are made absolute before relative_to(project_root)")
    else:
        run.finding(V6, "PathResolver.get_relative_path", "relative-path-as-is", "a relative path is returned unchanged (relative to the working directory, not the project root): the same file gets a different verdict when the command is run from a sub-directory", gr.loc)
    follows = [e for e, _g in prods if has(e, "resolve", "realpath", "os.path.realpath")]
    if follows:
        run.finding(V6, "PathResolver.get_relative_path", "follows-symlinks", f"`{norm(follows[0])}` follows symbolic links: a symlinked file is judged by where its target lives, not by its own path relative to the project root", gr.loc)
    else:
        run.ok(V6, "get_relative_path symlinks", "the file path is not resolved through symlinks")
    if len({has(e, "resolve", "realpath", "os.path.realpath") for e, _g in prods}) > 1:
        run.finding(V6, "PathResolver.get_relative_path", "symlink-asymmetry", "one spelling of the path is canonicalised with resolve() (follows symlinks) and the other is not: a symlinked file is judged by the link's location when named absolutely and by the target's location when named relatively", gr.loc)
    else:
        run.ok(V6, "get_relative_path branches", f"{len(prods)} relativising branches canonicalise alike")
    unnormalised = [e for e, _g in prods if not has(e, "os.path.normpath", "os.path.abspath", "normpath", "abspath", "resolve")]
    if not unnormalised:
        run.ok(V6, "get_relative_path dot segments", "`.` and `..` are collapsed lexically (os.path.normpath) on every relativising branch")
    else:
        run.finding(V6, "PathResolver.get_relative_path", "dotdot-not-collapsed", f"`{norm(unnormalised[0])}` keeps `..` components: `tests/../src/a.py` is judged as a file of tests/, not of src/ - the verdict depends on the spelling", gr.loc)
    # a path that is not under the project root is still handed on as given (ValueError branch) - that is the documented fall-back

    V8 = run.rule("V8", "a missing optional key ends only its own validation step: a validator called inside `with suppress(KeyError)` (with more work after it, or inside a loop) contains its own KeyError", floor=2,
                  decides="an invalid regular expression is rejected wherever it stands - also after a directory rule that has no `allow` or no `deny` list")
    pvc = repo.cls(f"{PKG}.pattern_validator.PatternValidator")
    def can_raise_keyerror(g):
        for sub in [n for n in ast.walk(g.node) if isinstance(n, ast.Subscript) and isinstance(n.ctx, ast.Load) and isinstance(n.slice, ast.Constant) and isinstance(n.slice.value, str)]:
            if is_caught(g.node, sub, "KeyError"):
                continue
            in_sup = any(isinstance(w_, ast.With) and any(isinstance(i_.context_expr, ast.Call) and call_name(i_.context_expr) == "suppress" and any(ast.unparse(a_) in ("KeyError", "LookupError", "Exception") for a_ in i_.context_expr.args) for i_ in w_.items) and any(x is sub for b_ in w_.body for x in ast.walk(b_)) for w_ in ast.walk(g.node))
            guarded = any(isinstance(i_, ast.If) and any(isinstance(c_, ast.Compare) and isinstance(c_.ops[0], ast.In) and isinstance(c_.left, ast.Constant) and c_.left.value == sub.slice.value for c_ in ast.walk(i_.test)) and any(x is sub for b_ in i_.body for x in ast.walk(b_)) for i_ in ast.walk(g.node))
            if not in_sup and not guarded:
                return sub
        return None
    n_v8 = 0
    for m_ in sorted(pvc.methods.values(), key=lambda x: x.qual):
        for w_ in [n for n in ast.walk(m_.node) if isinstance(n, ast.With) and any(isinstance(i_.context_expr, ast.Call) and call_name(i_.context_expr) == "suppress" for i_ in n.items)]:
            calls_ = [c_ for b_ in w_.body for c_ in ast.walk(b_) if isinstance(c_, ast.Call) and isinstance(c_.func, ast.Attribute) and isinstance(c_.func.value, ast.Name) and c_.func.value.id == "self" and c_.func.attr in pvc.methods]
            in_loop = any(isinstance(x, (ast.For, ast.While)) for b_ in w_.body for x in ast.walk(b_))
            for idx_, c_ in enumerate(calls_):
                g_ = pvc.methods[c_.func.attr]
                if not g_.name.startswith("_validate") or g_.name == "_validate_pattern":
                    continue
                n_v8 += 1
                more_after = in_loop or idx_ < len(calls_) - 1
                leak = can_raise_keyerror(g_)
                if leak is not None and more_after:
                    run.finding(V8, f"{m_.name} -> {g_.name}", f"keyerror-cuts-validation:{norm(leak)}", f"{g_.name} lets the KeyError of `{norm(leak)}` escape into the `with suppress(KeyError)` of {m_.name}, which then skips everything that was still to be validated (the other list of the same rule, every later directory rule): invalid patterns there are accepted and fail only at lint time, silently", f"{m_.module.rel}:{c_.lineno}")
                else:
                    run.ok(V8, f"{m_.name} -> {g_.name}", "the step contains its own missing-key case")
    run.require(n_v8 >= 2, "no validator step inside a suppress(KeyError) block found in PatternValidator")

    V7 = run.rule("V7", "an allow list is applied whenever its key is present: what skips match_allow_patterns is a key-presence test (`'allow' not in rule`, KeyError, `is None`), never the truthiness of the list", floor=2,
                  decides="`allow: []` allows nothing (every file there is reported), exactly like the global allow list")
    n_allow = 0
    for f in sorted(repo.funcs_in(f"{PKG}.rule_checker."), key=lambda x: x.qual):
        calls = [n for n in ast.walk(f.node) if is_call_named(n, "match_allow_patterns")]
        if not calls:
            continue
        n_allow += 1
        # names bound from <mapping>.get("allow") / <mapping>["allow"]
        allow_names = {t.id for n in ast.walk(f.node) if isinstance(n, ast.Assign) for t in n.targets if isinstance(t, ast.Name)
                       and ((isinstance(n.value, ast.Call) and call_name(n.value) == "get" and n.value.args and isinstance(n.value.args[0], ast.Constant) and n.value.args[0].value == "allow")
                            or (isinstance(n.value, ast.Subscript) and isinstance(n.value.slice, ast.Constant) and n.value.slice.value == "allow"))}
        bad = None
        for n in ast.walk(f.node):
            if isinstance(n, (ast.If, ast.IfExp, ast.While)) or isinstance(n, ast.BoolOp):
                tests = [n.test] if not isinstance(n, ast.BoolOp) else n.values
                for t in tests:
                    for x in ([t] + ([t.operand] if isinstance(t, ast.UnaryOp) and isinstance(t.op, ast.Not) else [])):
                        if isinstance(x, ast.Name) and x.id in allow_names:
                            bad = (n, x)
                        if isinstance(x, ast.Call) and call_name(x) == "get" and x.args and isinstance(x.args[0], ast.Constant) and x.args[0].value == "allow":
                            bad = (n, x)
                        if isinstance(x, ast.Subscript) and isinstance(x.slice, ast.Constant) and x.slice.value == "allow":
                            bad = (n, x)
        if bad:
            run.finding(V7, f.qual.replace(f"{PKG}.", ""), f"allow-truthiness:{norm(bad[1])}", f"{f.name} decides by the truthiness of `{norm(bad[1])}` whether the allow list applies: an empty `allow: []` (nothing belongs here) is treated like a missing key and the files are no longer reported", f"{f.module.rel}:{bad[0].lineno}")
        else:
            run.ok(V7, f.qual.replace(f"{PKG}.", ""), "allow list applied on key presence")
    run.require(n_allow >= 2, "fewer than two match_allow_patterns callers found in rule_checker")
    return __doc__


def _keys_used(repo, prefix):
    ks = set()
    for f in repo.funcs_in(prefix):
        for n in ast.walk(f.node):
            key_e = n.slice if isinstance(n, ast.Subscript) else n.args[0] if isinstance(n, ast.Call) and call_name(n) == "get" and n.args else None
            kv = repo.fold(f.module, key_e) if key_e is not None else None
            if isinstance(kv, str) and kv in ("directories", "global_deny", "global_patterns", "allow", "deny"):
                ks.add(kv)
    return ks
