"""C17 - Rust safety linters flag exactly the risky calls outside test code.

Decides (structure only):
 R1 registry exhaustiveness: the pattern strings the classifiers can return = keys of _PATTERN_BUILDERS = keys of
    _PATTERN_CONFIG_KEYS, whose values are fields of the config class that from_dict reads (the .get(...) fallbacks
    would hide a missing key);
 R2 the three _should_skip_call / _should_analyze predicates are siblings: `is_in_test and allow_in_tests`,
    `enabled`, language == rust, path ignore;
 R3 is_in_test is computed by the shared rust_context.is_inside_test on the call node itself, in all three analyzers
    and in the Rust magic-number path;
 R4 the ("unwrap","expect") method table <-> the two builders <-> allow_expect;
 R5 every node-kind literal in the Rust analyzers is a named kind of the linked grammar;
 R6 reported line = start_point[0] + 1 and column = start_point[1] of the same node that is tested.
Not decided: which calls the classifiers select on arbitrary Rust.
"""

from __future__ import annotations

import ast

from .. import kinds
from .. import inline
from ..facts import UNKNOWN, call_name, kwarg, norm
from ..util import expand_locals, is_call_named
from .c01 import _kind_verdict

RUST_LINTERS = {
    "clone_abuse": dict(rule="CloneAbuseRule", cfg="CloneAbuseConfig", classifier="RustCloneAnalyzer._classify_clone", record="CloneCall"),
    "blocking_async": dict(rule="BlockingAsyncRule", cfg="BlockingAsyncConfig", classifier="_classify_blocking_pattern", record="BlockingCall"),
}
ANON_OK = {
    ("analyzers.rust_context._has_async_modifier", "async"): "the `async` modifier is an anonymous token child of function_modifiers",
}


def _returned_strings(f) -> set[str]:
    return {n.value.value for n in ast.walk(f.node) if isinstance(n, ast.Return) and isinstance(n.value, ast.Constant) and isinstance(n.value.value, str) and n.value.value}


def _searched_kinds(repo, g, marker, kinds):
    """Sibling kinds whose text can reach the `marker in <text>` test of g (helpers included).  A kind that is only
    stepped over (`elif sib.type not in COMMENTS: break`, or a list builder that appends attribute items only) is not
    searched.  The guards enclosing the containment test - and, when the siblings are first collected into a list, the
    guards enclosing the append - are evaluated for every kind the code mentions."""
    funcs = [g] + [h for h in inline.callees(repo, g) if h.module is g.module]

    flags = {}   # boolean locals bound to a kind test: `is_attribute = sib.type == "attribute_item"`
    for f_ in funcs:
        for a_ in ast.walk(f_.node):
            if isinstance(a_, ast.Assign) and len(a_.targets) == 1 and isinstance(a_.targets[0], ast.Name) and isinstance(a_.value, (ast.Compare, ast.BoolOp, ast.UnaryOp)):
                flags[a_.targets[0].id] = a_.value

    def ev(t, k):
        if isinstance(t, ast.Name) and t.id in flags:
            return ev(flags[t.id], k)
        if isinstance(t, ast.Compare) and len(t.ops) == 1 and isinstance(t.left, ast.Attribute) and t.left.attr == "type":
            v = repo.fold(g.module, t.comparators[0])
            vs = {v} if isinstance(v, str) else set(v) if isinstance(v, (tuple, list, set, frozenset)) else None
            if vs is None:
                return None
            op = t.ops[0]
            if isinstance(op, (ast.Eq, ast.In)):
                return k in vs
            if isinstance(op, (ast.NotEq, ast.NotIn)):
                return k not in vs
            return None
        if isinstance(t, ast.UnaryOp) and isinstance(t.op, ast.Not):
            v = ev(t.operand, k)
            return None if v is None else not v
        if isinstance(t, ast.BoolOp):
            vs = [ev(x, k) for x in t.values]
            if isinstance(t.op, ast.And):
                return False if any(v is False for v in vs) else None if any(v is None for v in vs) else True
            return True if any(v is True for v in vs) else None if any(v is None for v in vs) else False
        return None

    def admitted(f, sink):
        par = {c: p_ for p_ in ast.walk(f.node) for c in ast.iter_child_nodes(p_)}
        conds = []
        cur = sink
        while cur in par:
            up = par[cur]
            if isinstance(up, (ast.If, ast.While)) and cur is not up.test:
                conds.append((up.test, not (isinstance(up, ast.If) and cur in up.orelse)))
            elif isinstance(up, ast.IfExp) and cur is not up.test:
                conds.append((up.test, cur is up.body))
            elif isinstance(up, (ast.ListComp, ast.GeneratorExp, ast.SetComp)):
                for gen in up.generators:
                    conds += [(i_, True) for i_ in gen.ifs]
            elif isinstance(up, ast.BoolOp) and isinstance(up.op, ast.And):
                conds += [(v, True) for v in up.values[: up.values.index(cur)]] if cur in up.values else []
            cur = up
        # an earlier `if <kind test>: break/continue/return` in the same loop body also filters what reaches the sink
        out = set()
        for k in kinds | {"attribute_item"}:
            if all(ev(t, k) in (pol, None) for t, pol in conds):
                out.add(k)
        return out

    contain_adm, append_adm = None, None
    for f in funcs:
        for n in ast.walk(f.node):
            if isinstance(n, ast.Compare) and len(n.ops) == 1 and isinstance(n.ops[0], ast.In) and repo.fold(f.module, n.left) == marker:
                a = admitted(f, n)
                contain_adm = a if contain_adm is None else contain_adm | a
            if isinstance(n, ast.Call) and isinstance(n.func, ast.Attribute) and n.func.attr in ("append", "add", "insert", "appendleft"):
                a = admitted(f, n)
                append_adm = a if append_adm is None else append_adm | a
    if contain_adm is None:
        return set()
    return contain_adm & append_adm if append_adm is not None else contain_adm


def check(run, ctx):
    repo = ctx.repo
    R1 = run.rule("R1", "classifier return strings = keys(_PATTERN_BUILDERS) = keys(_PATTERN_CONFIG_KEYS); config-key values are fields from_dict reads", floor=12,
                  decides="every detected pattern gets its own violation kind and its own detect_* switch")
    for pkg, info in RUST_LINTERS.items():
        lm = repo.mod(f"src.linters.{pkg}.linter")
        # the two pattern tables, by name or (when a private constant was renamed) by shape: module-level dict literals
        # with string keys whose values are builder functions / names of detect_* config switches
        def _table(name, pred):
            e_ = lm.assigns.get(name)
            if isinstance(e_, ast.Dict):
                return e_
            c_ = [v for v in lm.assigns.values() if isinstance(v, ast.Dict) and v.keys and all(isinstance(k, ast.Constant) and isinstance(k.value, str) for k in v.keys) and pred(v)]
            return c_[0] if len(c_) == 1 else None
        builders = _table("_PATTERN_BUILDERS", lambda d: all(isinstance(v, ast.Name) for v in d.values))
        cfg_tab = _table("_PATTERN_CONFIG_KEYS", lambda d: all(isinstance(v, ast.Constant) and isinstance(v.value, str) and v.value.startswith("detect_") for v in d.values))
        cfg_tab_name = next((n_ for n_, v_ in lm.assigns.items() if v_ is cfg_tab), "_PATTERN_CONFIG_KEYS")
        keys_b = {k.value for k in builders.keys if isinstance(k, ast.Constant)} if isinstance(builders, ast.Dict) else None
        cfgkeys = repo.fold(lm, cfg_tab)
        run.require(keys_b is not None and isinstance(cfgkeys, dict), f"{pkg}: pattern tables not found")
        cands = [f for f in repo.funcs_in(f"src.linters.{pkg}.rust_analyzer.") if f.qual.endswith(info["classifier"])]
        run.require(len(cands) == 1, f"{pkg}: classifier {info['classifier']} not found")
        rets = _returned_strings(cands[0])
        for p in sorted(rets | keys_b | set(cfgkeys)):
            probs = []
            if p not in rets:
                probs.append("never returned by the classifier")
            if p not in keys_b:
                probs.append("no entry in _PATTERN_BUILDERS (falls back to the default builder: wrong rule id/message)")
            if p not in cfgkeys:
                probs.append("no entry in _PATTERN_CONFIG_KEYS (its detect_* switch cannot turn it off)")
            if probs:
                run.finding(R1, f"{pkg}:{p}", "registry-gap", f"pattern {p!r}: " + "; ".join(probs), lm.rel)
            else:
                run.ok(R1, f"{pkg}:{p}", "classifier, builder table and config-key table agree")
        cfg = next(c for q, c in repo.classes.items() if q == f"src.linters.{pkg}.config.{info['cfg']}")
        fd_keys = {n.args[0].value for n in ast.walk(cfg.methods["from_dict"].node) if isinstance(n, ast.Call) and call_name(n) == "get" and n.args and isinstance(n.args[0], ast.Constant)}
        for p, fld in sorted(cfgkeys.items()):
            if fld in cfg.annots and fld in fd_keys:
                run.ok(R1, f"{pkg}:{p}->{fld}", "config field exists and from_dict reads it")
            else:
                run.finding(R1, f"{pkg}:{p}", f"config-field:{fld}", f"_PATTERN_CONFIG_KEYS maps {p!r} to {fld!r}, which is not a field from_dict fills", lm.rel)
        # builder values are distinct functions
        vals = [ast.unparse(v) for v in builders.values]
        (run.ok(R1, f"{pkg} builders distinct", ",".join(vals)) if len(set(vals)) == len(vals) else run.finding(R1, f"{pkg} _PATTERN_BUILDERS", f"duplicate-builder:{vals}", "two patterns share one builder", lm.rel))
        # skip predicate consults the table with call.pattern and negates the switch
        sk = repo.func_by_role(f"src.linters.{pkg}.linter._should_skip_call", "decides per call whether it is skipped (test code / switched-off pattern)",
                               lambda g: g.cls is None and any(isinstance(n, ast.Attribute) and n.attr == "is_in_test" for n in ast.walk(g.node)) and any(isinstance(n, ast.Return) for n in ast.walk(g.node)))
        lookups = [n for n in ast.walk(sk.node) if isinstance(n, ast.Call) and call_name(n) == "get" and ast.unparse(n.func.value) == cfg_tab_name and n.args and isinstance(n.args[0], ast.Attribute) and n.args[0].attr == "pattern"]
        negs = [n for n in ast.walk(sk.node) if isinstance(n, ast.UnaryOp) and isinstance(n.op, ast.Not) and isinstance(n.operand, ast.Call) and call_name(n.operand) == "getattr"]
        ok = bool(lookups) and bool(negs)
        (run.ok(R1, f"{pkg} switch lookup", "skip iff the pattern's detect_* switch is off") if ok else run.finding(R1, f"{pkg}._should_skip_call", "switch-lookup", "the detect_* switch of the call's pattern is not consulted (or its polarity changed)", sk.loc))

    R2 = run.rule("R2", "sibling predicates: skip iff (is_in_test and allow_in_tests) [or a pattern/method switch]; analyze iff language == rust, content present, enabled, path not ignored", floor=6)
    skips = {
        "unwrap_abuse": repo.func("src.linters.unwrap_abuse.linter.UnwrapAbuseRule._should_skip_call"),
        "clone_abuse": repo.func_by_role("src.linters.clone_abuse.linter._should_skip_call", "decides per call whether it is skipped", lambda g: g.cls is None and any(isinstance(n, ast.Attribute) and n.attr == "is_in_test" for n in ast.walk(g.node))),
        "blocking_async": repo.func_by_role("src.linters.blocking_async.linter._should_skip_call", "decides per call whether it is skipped", lambda g: g.cls is None and any(isinstance(n, ast.Attribute) and n.attr == "is_in_test" for n in ast.walk(g.node))),
    }
    for pkg, f in skips.items():
        first = next((n for n in f.node.body if isinstance(n, ast.If)), None)
        t = ast.unparse(first.test) if first is not None else ""
        ret_true = first is not None and any(isinstance(s, ast.Return) and isinstance(s.value, ast.Constant) and s.value.value is True for s in first.body)
        shape = first is not None and isinstance(first.test, ast.BoolOp) and isinstance(first.test.op, ast.And) and len(first.test.values) == 2 and {v.attr for v in first.test.values if isinstance(v, ast.Attribute)} == {"is_in_test", "allow_in_tests"}
        if shape and ret_true:
            run.ok(R2, f"{pkg} test exemption", t)
        else:
            run.finding(R2, f"{pkg}._should_skip_call", f"test-exemption:{t}", f"the test-code exemption is `{t}` (siblings: call.is_in_test and config.allow_in_tests)", f.loc)
    for pkg, rule in (("unwrap_abuse", "UnwrapAbuseRule"), ("clone_abuse", "CloneAbuseRule"), ("blocking_async", "BlockingAsyncRule")):
        f = repo.func(f"src.linters.{pkg}.linter.{rule}._should_analyze")
        have = {
            "language": any(isinstance(n, ast.Compare) and any(isinstance(x, ast.Attribute) and x.attr == "language" for x in ast.walk(n)) and any((isinstance(x, ast.Constant) and x.value == "rust") or (isinstance(x, ast.Attribute) and x.attr == "RUST") for x in ast.walk(n)) for n in ast.walk(f.node)),
            "content": any(is_call_named(n, "has_file_content") for n in ast.walk(f.node)),
            "enabled": any(isinstance(n, ast.Attribute) and n.attr == "enabled" for n in ast.walk(f.node)),
            "ignore": any(is_call_named(n, "is_ignored_path") for n in ast.walk(f.node)),
        }
        miss = [k for k, v in have.items() if not v]
        (run.ok(R2, f"{pkg} _should_analyze", "language, content, enabled, ignore") if not miss else run.finding(R2, f"{pkg}._should_analyze", f"missing:{miss}", f"_should_analyze lacks the {miss} test its siblings have", f.loc))
        chk = repo.func(f"src.linters.{pkg}.linter.{rule}._build_violations")
        comp = next((n for n in ast.walk(chk.node) if isinstance(n, ast.ListComp)), None)
        # one violation per call of the list parameter that _should_skip_call(<that call>, <config>) lets through (names are free)
        ok = False
        if comp is not None and len(comp.generators) == 1 and len(comp.generators[0].ifs) == 1 and isinstance(comp.generators[0].target, ast.Name):
            g0 = comp.generators[0]
            cond = g0.ifs[0]
            skip = cond.operand if isinstance(cond, ast.UnaryOp) and isinstance(cond.op, ast.Not) else None
            pars = {a.arg for a in chk.node.args.args}
            ok = (skip is not None and is_call_named(skip, skips[pkg].name) and len(skip.args) == 2 and isinstance(skip.args[0], ast.Name) and skip.args[0].id == g0.target.id
                  and isinstance(g0.iter, ast.Name) and g0.iter.id in pars)
        (run.ok(R2, f"{pkg} _build_violations", "one violation per non-skipped call") if ok else run.finding(R2, f"{pkg}._build_violations", "filter", "violations are not built for exactly the calls that _should_skip_call lets through", chk.loc))

    R3 = run.rule("R3", "is_in_test = self.is_inside_test(<the call node>) via rust_context.is_inside_test in all three analyzers and the Rust magic-number path", floor=5)
    base = repo.func("src.analyzers.rust_base.RustBaseAnalyzer.is_inside_test")
    (run.ok(R3, "RustBaseAnalyzer.is_inside_test", "delegates to rust_context.is_inside_test(node)") if any(isinstance(n, ast.Return) and isinstance(n.value, ast.Call) and ast.unparse(n.value.func) == "rust_context.is_inside_test" and n.value.args and isinstance(n.value.args[0], ast.Name) and n.value.args[0].id == base.node.args.args[1].arg for n in ast.walk(base.node)) else run.finding(R3, "RustBaseAnalyzer.is_inside_test", "delegate", "no longer delegates to the shared rust_context.is_inside_test", base.loc))
    it = repo.func("src.analyzers.rust_context.is_inside_test")
    loop = next((n for n in ast.walk(it.node) if isinstance(n, ast.While)), None)
    run.require(loop is not None, "rust_context.is_inside_test: ancestor loop not found")
    to_root = "is not None" in ast.unparse(loop.test) or ast.unparse(loop.test) in ("current", "node")
    early = [n for n in ast.walk(loop) if isinstance(n, ast.Break) or (isinstance(n, ast.Return) and not (isinstance(n.value, ast.Constant) and n.value.value is True))]
    steps = [n for n in ast.walk(loop) if isinstance(n, ast.Assign) and isinstance(n.value, ast.Attribute) and n.value.attr == "parent"]
    if to_root and not early and steps:
        run.ok(R3, "is_inside_test ancestor walk", "walks every ancestor up to the root; only a test context ends it early")
    else:
        run.finding(R3, "rust_context.is_inside_test", "ancestor-walk-cut", f"the walk over enclosing items stops early ({norm(early[0]) if early else norm(loop.test)}): a call in a plain module nested inside a #[cfg(test)] module is no longer recognised as test code", it.loc)

    R8 = run.rule("R8", "test attributes are recognised by containment of the marker in the text of preceding attribute_item siblings only ('test' / 'cfg(test)' in <attribute text>)", floor=2,
                  decides="#[tokio::test(flavor = ...)], #[test_case(..)] and #[cfg(test)] count as test code, and a comment that happens to contain the word does not")
    for fn_, marker in (("has_test_attribute", "test"), ("has_cfg_test_attribute", "cfg(test)")):
        g = repo.func(f"src.analyzers.rust_context.{fn_}")
        flat = list(inline.flat_nodes(repo, g))
        sib_kinds = {v_ for n in flat if isinstance(n, ast.Compare) and isinstance(n.left, ast.Attribute) and n.left.attr == "type" for c_ in n.comparators
                 for v_ in ([repo.fold(g.module, c_)] if isinstance(repo.fold(g.module, c_), str) else list(repo.fold(g.module, c_)) if isinstance(repo.fold(g.module, c_), (tuple, list, set, frozenset)) else [])}
        contain = [n for n in flat if isinstance(n, ast.Compare) and len(n.ops) == 1 and isinstance(n.ops[0], ast.In) and repo.fold(g.module, n.left) == marker]
        narrower = [n for n in flat if isinstance(n, ast.Call) and call_name(n) in ("endswith", "startswith", "fullmatch") or (isinstance(n, ast.Compare) and isinstance(n.ops[0], ast.Eq) and isinstance(repo.fold(g.module, n.comparators[0]), str) and "test" in str(repo.fold(g.module, n.comparators[0])))]
        extra_kinds = sorted(k_ for k_ in _searched_kinds(repo, g, marker, sib_kinds) if k_ not in ("attribute_item", "inner_attribute_item"))
        if extra_kinds:
            run.finding(R8, fn_, f"non-attribute-siblings:{extra_kinds}", f"{fn_} also reads {extra_kinds} siblings: their text is searched for {marker!r} like an attribute's, so a comment containing the word (\"latest\", \"Fastest\") turns production code into test code and its findings disappear", g.loc)
        elif not contain or narrower:
            w_ = norm(narrower[0]) if narrower else "no containment test"
            run.finding(R8, fn_, f"marker-test:{w_[:50]}", f"{fn_} no longer recognises the attribute by `{marker!r} in <text>` ({w_}): attributes that carry arguments or a path (#[tokio::test(flavor = \"multi_thread\")], #[test_case(1, 2)]) are not seen as test code", g.loc)
        else:
            run.ok(R8, fn_, f"{marker!r} in <text of preceding attribute_item siblings>")

    # the scan that hands those helpers their attribute siblings tolerates every comment kind, between attributes too
    from .c13 import _comments_skipped_in_another_loop
    CK = {"comment", "line_comment", "block_comment", "doc_comment"}
    scans = [g for g in repo.funcs_in("src.analyzers.rust_context.") if g.parent is None and any(isinstance(n, ast.Attribute) and n.attr == "prev_sibling" for n in ast.walk(g.node))]
    run.require(bool(scans), "rust_context: no preceding-sibling scan found")
    for g in scans:
        ks = set()
        for n in ast.walk(g.node):
            if isinstance(n, ast.Compare) and isinstance(n.left, ast.Attribute) and n.left.attr == "type":
                for c_ in n.comparators:
                    v = repo.fold(g.module, c_)
                    ks |= {v} if isinstance(v, str) else set(v) if isinstance(v, (tuple, list, set, frozenset)) else set()
        need = {k for k in ("line_comment", "block_comment") if k in ctx.grammar["rust"].named}
        split = _comments_skipped_in_another_loop(repo, g, CK)
        if ks & CK and not need <= ks:
            run.finding(R8, g.name, f"comment-kinds-missing:{sorted(need - ks)}", f"{g.name} steps over {sorted(ks & CK)} but not over {sorted(need - ks)}: a `/* */` comment between #[test] / #[cfg(test)] and the item ends the scan, the item is no longer test code and allow_in_tests stops applying", g.loc)
        elif split:
            run.finding(R8, g.name, "comments-skipped-before-not-between", f"{g.name} skips comments first and collects attributes in a second loop: a comment between two attributes hides the attributes above it (#[cfg(test)] // note #[allow(..)] mod tests)", g.loc)
        else:
            run.ok(R8, f"{g.name} scan", f"one loop collects attributes and steps over {sorted(ks & CK)}")

    # which marker decides for which item kind: `test` for functions, the narrower `cfg(test)` for modules
    itc = repo.func("src.analyzers.rust_context._is_test_context")
    disp = {}
    for n in ast.walk(itc.node):
        if isinstance(n, ast.If) and isinstance(n.test, ast.Compare) and isinstance(n.test.left, ast.Attribute) and n.test.left.attr == "type" and isinstance(n.test.ops[0], (ast.Eq, ast.In)):
            v = repo.fold(itc.module, n.test.comparators[0])
            ks = [v] if isinstance(v, str) else list(v) if isinstance(v, (tuple, list, set, frozenset)) else []
            hs = [call_name(r.value) for r in ast.walk(n) if isinstance(r, ast.Return) and isinstance(r.value, ast.Call)]
            for k_ in ks:
                disp.setdefault(k_, set()).update(hs)
    want = {"function_item": {"has_test_attribute"}, "mod_item": {"has_cfg_test_attribute"}}
    for k_, hs in want.items():
        if disp.get(k_) == hs:
            run.ok(R8, f"_is_test_context[{k_}]", f"decided by {sorted(hs)[0]}")
        else:
            run.finding(R8, "_is_test_context", f"dispatch:{k_}->{sorted(disp.get(k_, []))}", f"_is_test_context decides a {k_} through {sorted(disp.get(k_, [])) or 'nothing'} instead of {sorted(hs)[0]}: a module is test code only under #[cfg(test)] - with the function marker (`test` anywhere in the attribute) #[cfg(not(test))] or #[cfg(feature = \"test-util\")] modules count as tests and their findings disappear", itc.loc)

    R6 = run.rule("R6", "call records take line = node.start_point[0] + 1, column = node.start_point[1] and is_in_test from the same node", floor=3)
    for pkg, rec in (("unwrap_abuse", "UnwrapCall"), ("clone_abuse", "CloneCall"), ("blocking_async", "BlockingCall")):
        m = repo.mod(f"src.linters.{pkg}.rust_analyzer")
        ctor = [c for c in ast.walk(m.tree) if isinstance(c, ast.Call) and call_name(c) == rec]
        run.require(len(ctor) == 1, f"{pkg}: expected one {rec}(...) construction")
        c = ctor[0]
        owner = next((f_ for f_ in repo.funcs.values() if f_.module is m and f_.parent is None and any(x is c for x in ast.walk(f_.node))), None)
        run.require(owner is not None, f"{pkg}: the {rec}(...) construction is not inside a function")
        # locals such as `row, column = node.start_point[0], node.start_point[1]` are expanded before comparing
        it = expand_locals(owner.node, kwarg(c, "is_in_test"))
        line, col = expand_locals(owner.node, kwarg(c, "line")), expand_locals(owner.node, kwarg(c, "column"))
        node_name = it.args[0].id if isinstance(it, ast.Call) and call_name(it) == "is_inside_test" and it.args and isinstance(it.args[0], ast.Name) else None
        if node_name:
            run.ok(R3, f"{pkg} is_in_test", f"self.is_inside_test({node_name})")
        else:
            run.finding(R3, f"{pkg}.rust_analyzer", f"is_in_test:{norm(it) if it is not None else None}", "is_in_test is not computed by is_inside_test on the call node", f"{m.rel}:{c.lineno}")
        want_line, want_col = f"{node_name}.start_point[0] + 1", f"{node_name}.start_point[1]"
        if node_name and ast.unparse(line) in (want_line, f"1 + {node_name}.start_point[0]") and ast.unparse(col) == want_col:
            run.ok(R6, f"{pkg} position", f"line={want_line}, column={want_col}")
        else:
            run.finding(R6, f"{pkg}.rust_analyzer", f"position:{norm(line)}/{norm(col)}", f"position is ({norm(line)}, {norm(col)}); expected ({want_line}, {want_col}) of the tested node", f"{m.rel}:{c.lineno}")
    mt = repo.func("src.linters.magic_numbers.rust_analyzer.RustMagicNumberAnalyzer.is_test_context")
    (run.ok(R3, "magic_numbers is_test_context", "self.is_inside_test(node)") if any(is_call_named(n, "is_inside_test") and n.args and isinstance(n.args[0], ast.Name) and n.args[0].id == mt.node.args.args[1].arg for n in ast.walk(mt.node)) else run.finding(R3, "RustMagicNumberAnalyzer.is_test_context", "delegate", "does not use the shared test-context predicate", mt.loc))

    R4 = run.rule("R4", "unwrap/expect: detected method names = {unwrap, expect}; unwrap -> unwrap builder, otherwise expect builder; expect skipped iff allow_expect", floor=3)
    fr = repo.func_by_role("src.linters.unwrap_abuse.rust_analyzer.RustUnwrapAnalyzer._find_unwrap_recursive", "the self-recursive walker that collects unwrap/expect calls",
                           lambda g: any(is_call_named(n, g.name) for n in ast.walk(g.node)) and any(is_call_named(n, "UnwrapCall") for n in inline.flat_nodes(repo, g)))
    names = None
    for n in ast.walk(fr.node):
        if isinstance(n, ast.Compare) and isinstance(n.ops[0], ast.In) and isinstance(n.left, ast.Name):
            v_ = repo.fold(fr.module, n.comparators[0])
            if v_ is not UNKNOWN and isinstance(v_, (tuple, list, set, frozenset)) and all(isinstance(x, str) for x in v_):
                names = v_
    (run.ok(R4, "detected methods", str(names)) if names is not UNKNOWN and names is not None and set(names) == {"unwrap", "expect"} else run.finding(R4, fr.name, f"methods:{names}", "the detected method set is not {unwrap, expect}", fr.loc))
    bf = repo.func("src.linters.unwrap_abuse.linter._build_violation_for_call")
    def is_unwrap_test(t):
        return (isinstance(t, ast.Compare) and len(t.ops) == 1 and isinstance(t.ops[0], ast.Eq) and isinstance(t.left, ast.Attribute) and t.left.attr == "method"
                and repo.fold(bf.module, t.comparators[0]) == "unwrap")   # literal or module constant
    def mentions(nodes, name):
        return any(isinstance(x, ast.Name) and x.id == name for n_ in nodes for x in ast.walk(n_))
    ok = False
    body_ = [st for st in bf.node.body if not (isinstance(st, ast.Expr) and isinstance(st.value, ast.Constant))]
    for idx_, st in enumerate(body_):
        # if call.method == "unwrap": return build_unwrap_violation(...)  [else:] return build_expect_violation(...)
        if isinstance(st, ast.If) and is_unwrap_test(st.test):
            rest = st.orelse or body_[idx_ + 1:]
            ok = ok or (mentions(st.body, "build_unwrap_violation") and not mentions(st.body, "build_expect_violation") and mentions(rest, "build_expect_violation") and not mentions(rest, "build_unwrap_violation"))
        # builder = build_unwrap_violation if call.method == "unwrap" else build_expect_violation
        for x in ast.walk(st):
            if isinstance(x, ast.IfExp) and is_unwrap_test(x.test):
                ok = ok or (mentions([x.body], "build_unwrap_violation") and not mentions([x.body], "build_expect_violation") and mentions([x.orelse], "build_expect_violation") and not mentions([x.orelse], "build_unwrap_violation"))
    (run.ok(R4, "builder dispatch", "unwrap -> build_unwrap_violation, else build_expect_violation") if ok else run.finding(R4, "_build_violation_for_call", "dispatch", "method -> builder dispatch changed", bf.loc))
    sk = skips["unwrap_abuse"]
    ok = any(isinstance(n, ast.If) and isinstance(n.test, ast.BoolOp) and isinstance(n.test.op, ast.And)
             and any(isinstance(v, ast.Compare) and isinstance(v.ops[0], ast.Eq) and isinstance(v.left, ast.Attribute) and v.left.attr == "method" and repo.fold(sk.module, v.comparators[0]) == "expect" for v in n.test.values)
             and any(isinstance(v, ast.Attribute) and v.attr == "allow_expect" for v in n.test.values)
             and any(isinstance(x, ast.Return) and isinstance(x.value, ast.Constant) and x.value.value is True for x in n.body) for n in ast.walk(sk.node))
    (run.ok(R4, "allow_expect", "expect skipped iff allow_expect") if ok else run.finding(R4, "UnwrapAbuseRule._should_skip_call", "allow_expect", "`.expect()` is not skipped exactly when allow_expect is on", sk.loc))

    from . import shared

    R7 = run.rule("R7", "traversal completeness: the call finders of the three Rust linters and the shared rust walker visit every child of every node", floor=4,
                  decides="every risky call is found wherever it sits (closures, match arms, nested blocks, macro-free expressions)")
    for rec in shared.collector_walkers(ctx, prefixes=("src.linters.unwrap_abuse", "src.linters.clone_abuse", "src.linters.blocking_async", "src.analyzers.rust_base")):
        (run.ok(R7, rec["func"], rec["detail"]) if rec["ok"] else run.finding(R7, rec["func"], "pruned-walk", f"{rec['func']}: {rec['detail']}: calls below such a node are never reported", rec["loc"]))

    for rec in shared.worklist_walkers(ctx, prefixes=("src.linters.unwrap_abuse", "src.linters.clone_abuse", "src.linters.blocking_async", "src.analyzers")):
        (run.ok(R7, rec["func"], f"work list starts at {rec['init']}") if rec["ok"] else run.finding(R7, rec["func"], f"worklist-skips-root:{rec['init']}", f"{rec['func']}: the iterative walk starts with `{rec['init']}`: the node the function is asked about is never tested itself, only its descendants - a bare identifier (the tail expression of a block) is not seen as a use", rec["loc"]))
    # ... and exactly once: a recursive collector is started from the tree root, not once per item of an all-descendants listing
    walkers = {rec["fq"] for rec in shared.collector_walkers(ctx, prefixes=("src.linters.unwrap_abuse", "src.linters.clone_abuse", "src.linters.blocking_async"))}
    n_start = 0
    for wq in sorted(walkers):
        w = repo.funcs[wq]
        for site in ctx.cg.sites_calling(wq):
            caller = repo.funcs.get(site["caller"])
            if caller is None or caller.qual == wq:
                continue
            call = next((n for n in ast.walk(caller.node) if isinstance(n, ast.Call) and call_name(n) == w.name), None)
            if call is None:
                continue
            n_start += 1
            loop = next((lp for lp in ast.walk(caller.node) if isinstance(lp, (ast.For, ast.ListComp, ast.GeneratorExp)) and lp is not call and any(x is call for x in ast.walk(lp))), None)
            sym = f"{caller.qual.replace('src.linters.', '')} -> {w.name}"
            if loop is None:
                run.ok(R7, sym, "started once, from the root node")
            else:
                it = loop.iter if isinstance(loop, ast.For) else loop.generators[0].iter
                run.finding(R7, caller.qual.replace("src.linters.", ""), f"walker-per-item:{norm(it)[:50]}", f"{caller.qual} starts the recursive collector {w.name} once per element of `{norm(it)[:60]}`: when those elements nest (a function inside a function, a block inside a block) the inner subtree is scanned once per enclosing element and every call in it is reported several times", f"{caller.module.rel}:{call.lineno}")
    run.require(n_start >= 3, f"R7: only {n_start} start sites of the recursive call collectors found (one per Rust linter confirmed)")

    R9 = run.rule("R9", "a recursive containment search of the Rust linters (is this identifier used anywhere in that subtree?) tests the node it is handed as well as its descendants", floor=1,
                  decides="a later use that IS the searched node (a bare tail expression `y`, a lone argument) counts as a use: the clone before it is not reported as unnecessary")
    n_r9 = 0
    for g in sorted(repo.funcs.values(), key=lambda x: x.qual):
        if not g.module.name.startswith(("src.linters.clone_abuse", "src.linters.unwrap_abuse", "src.linters.blocking_async")) or g.parent is not None:
            continue
        if not (isinstance(g.node.returns, ast.Name) and g.node.returns.id == "bool"):
            continue
        params = [a.arg for a in g.node.args.args if a.arg not in ("self", "cls")]
        rec = [c for c in ast.walk(g.node) if isinstance(c, ast.Call) and call_name(c) == g.name]
        if not params or not rec:
            continue
        root = params[0]
        descends = any(isinstance(n, ast.Attribute) and isinstance(n.value, ast.Name) and n.value.id == root and n.attr in ("children", "named_children") for n in ast.walk(g.node))
        if not descends:
            continue
        n_r9 += 1
        own = [n for n in ast.walk(g.node) if isinstance(n, ast.Call) and call_name(n) != g.name and any(isinstance(a, ast.Name) and a.id == root for a in n.args)]
        own += [n for n in ast.walk(g.node) if isinstance(n, ast.Compare) and isinstance(n.left, ast.Attribute) and isinstance(n.left.value, ast.Name) and n.left.value.id == root and n.left.attr in ("type", "text", "kind")]
        if own:
            run.ok(R9, g.name, f"tests its own node (`{norm(own[0])[:40]}`) and recurses into the children")
        else:
            run.finding(R9, g.qual.replace("src.linters.", "", 1), "root-not-tested", f"{g.qual} applies its test to the children of `{root}` only, never to `{root}` itself: when the subtree handed in is the identifier (a block whose tail expression is the bare variable), the use is missed - and a clone that is needed is reported as unnecessary", g.loc)
    if n_r9 == 0:
        # rewritten as an iterative work-list walk: that form is R7's (the list must start with the node itself)
        run.ok(R9, "recursive containment searches", "none in the three Rust linters (iterative walks are judged by R7)")

    R5 = run.rule("R5", "node-kind literals in the Rust analyzers (shared and per linter) are named kinds / fields of the linked grammar", floor=40)
    g = ctx.grammar
    mods = [m for m in repo.modules.values() if kinds.module_language(m.name) == "rust" and not m.name.startswith("src.linters.nesting")]
    for m in mods:
        for k, how, line, fn in kinds.kind_literals(repo, ctx.cg, m):
            _kind_verdict(run, R5, g["rust"], "rust", m, k, how, line, fn, ANON_OK)
    return __doc__
