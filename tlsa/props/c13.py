"""C13 - meaning-preserving edits leave the findings unchanged up to line shift (narrow structural claim).

Decides only the line-model agreement that "inserting blank / whitespace-only lines ... moves each violation by
exactly the number of lines inserted above it" needs: a form-feed-only (or NEL / U+2028-only) line is blank to every
parser used here (Python's ast and tree-sitter count only \\n, and the orchestrator's own file_lines splits on \\n)
but is a line break to str.splitlines().  So
 L1 text looked up by a reported (parser-model) line number must not come from str.splitlines();
 L2 reported line numbers must not be produced by enumerating str.splitlines();
 L3 the orchestrator's own line view (FileLintContext.file_lines) splits on "\\n".
Not decided: everything else in the statement (renaming, re-indentation, CRLF/BOM, appended code) - these are
relations between two runs over program pairs and out of reach of a static argument here.
"""

from __future__ import annotations

import ast

from ..facts import call_name
from . import shared


def check(run, ctx):
    repo = ctx.repo
    L1 = run.rule("L1", "line lists indexed by a reported line number are split with the parser's newline model, not str.splitlines()", floor=5)
    L2 = run.rule("L2", "reported line numbers are not produced by enumerating str.splitlines()", floor=3)
    for rec in shared.line_model_sites(ctx):
        if rec["indexed_by_line"]:
            run.finding(L1, rec["func"], "splitlines-indexed-by-line", f"{rec['func']}: {rec['expr']} is indexed by a line number ({rec['use']}): inserting a form-feed-only line above a suppressed violation shifts the lookup and changes the findings", rec["loc"])
        elif rec["producer"]:
            run.finding(L2, rec["func"], "splitlines-line-producer", f"{rec['func']}: line numbers come from enumerate({rec['expr']}, 1): a form-feed-only line moves later violations by two lines in this linter and by one in all others", rec["loc"])
        elif rec.get("positional") == "producer":
            run.ok(L2, rec["func"], f"{rec['expr']}: line numbers produced in the parsers' newline model")
        else:
            run.ok(L1, rec["func"], f"{rec['expr']}: {rec['use']}", nontrivial=rec["use"] != "no positional use")
    L3 = run.rule("L3", "FileLintContext.file_lines splits the content on '\\n'", floor=1)
    f = repo.func("src.orchestrator.core.FileLintContext.file_lines")
    ok = any(isinstance(n, ast.Call) and call_name(n) == "split" and n.args and isinstance(n.args[0], ast.Constant) and n.args[0].value == "\n" for n in ast.walk(f.node)) and not any(isinstance(n, ast.Call) and call_name(n) == "splitlines" for n in ast.walk(f.node))
    (run.ok(L3, "FileLintContext.file_lines", "content.split('\\n')") if ok else run.finding(L3, "FileLintContext.file_lines", "line-model", "the orchestrator's line view no longer splits on '\\n' only", f.loc))
    glc = repo.func("src.core.linter_utils.get_line_context")
    ok = any(isinstance(n, ast.Call) and call_name(n) == "split" and n.args and isinstance(n.args[0], ast.Constant) and n.args[0].value == "\n" for n in ast.walk(glc.node))
    (run.ok(L3, "get_line_context", "code.split('\\n')[row]") if ok else run.finding(L3, "get_line_context", "line-model", "get_line_context (indexed by a tree-sitter row) no longer splits on '\\n'", glc.loc))
    return __doc__
