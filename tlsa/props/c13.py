"""C13 - meaning-preserving edits leave the findings unchanged up to line shift (narrow structural claim).

Decides only the line-model agreement that "inserting blank / whitespace-only lines ... moves each violation by
exactly the number of lines inserted above it" needs: a form-feed-only (or NEL / U+2028-only) line is blank to every
parser used here (Python's ast and tree-sitter count only \\n, and the orchestrator's own file_lines splits on \\n)
but is a line break to str.splitlines().  So
 L1 text looked up by a reported (parser-model) line number must not come from str.splitlines();
 L2 reported line numbers must not be produced by enumerating str.splitlines();
 L3 the orchestrator's own line view (FileLintContext.file_lines) splits on "\\n";
 L4 the lookup of a reported line is arithmetically exact for every line 1..n;
 L5 the SRP lines-of-code counters ignore blank/whitespace-only/comment lines in all three languages.
Not decided: everything else in the statement (renaming, re-indentation, CRLF/BOM, appended code) - these are
relations between two runs over program pairs and out of reach of a static argument here.
"""

from __future__ import annotations

import ast

from ..facts import norm, call_name, dotted
from . import shared


def check(run, ctx):
    repo = ctx.repo
    L1 = run.rule("L1", "line lists indexed by a reported line number are split with the parser's newline model, not str.splitlines()", floor=5)
    L2 = run.rule("L2", "reported line numbers are not produced by enumerating str.splitlines()", floor=3)
    for rec in shared.line_model_sites(ctx):
        if rec["indexed_by_line"]:
            run.finding(L1, rec["func"], "splitlines-indexed-by-line", f"{rec['func']}: {rec['expr']} is indexed by a line number ({rec['use']}): inserting a form-feed-only line above a suppressed violation shifts the lookup and changes the findings", rec["loc"])
        elif rec["producer"]:
            run.finding(L2, rec["func"], "splitlines-line-producer", f"{rec['func']}: line numbers come from enumerate({rec['expr']}, 1): a form-feed-only line moves later violations by two lines in this linter and by one in all others", rec["loc"])
        elif rec.get("positional") == "producer":
            run.ok(L2, rec["func"], f"{rec['expr']}: line numbers produced in the parsers' newline model")
        else:
            run.ok(L1, rec["func"], f"{rec['expr']}: {rec['use']}", nontrivial=rec["use"] != "no positional use")
    L3 = run.rule("L3", "FileLintContext.file_lines splits the content on '\\n'", floor=1)
    f = repo.func("src.orchestrator.core.FileLintContext.file_lines")
    ok = any(isinstance(n, ast.Call) and call_name(n) == "split" and n.args and isinstance(n.args[0], ast.Constant) and n.args[0].value == "\n" for n in ast.walk(f.node)) and not any(isinstance(n, ast.Call) and call_name(n) == "splitlines" for n in ast.walk(f.node))
    (run.ok(L3, "FileLintContext.file_lines", "content.split('\\n')") if ok else run.finding(L3, "FileLintContext.file_lines", "line-model", "the orchestrator's line view no longer splits on '\\n' only", f.loc))
    glc = repo.func("src.core.linter_utils.get_line_context")
    ok = any(isinstance(n, ast.Call) and call_name(n) == "split" and n.args and isinstance(n.args[0], ast.Constant) and n.args[0].value == "\n" for n in ast.walk(glc.node))
    (run.ok(L3, "get_line_context", "code.split('\\n')[row]") if ok else run.finding(L3, "get_line_context", "line-model", "get_line_context (indexed by a tree-sitter row) no longer splits on '\\n'", glc.loc))
    L4 = run.rule("L4", "line lookup arithmetic: text for reported line L of an n-line file is lines[L-1] for every 1 <= L <= n (no maxsplit on the split, guard rejects only L < 1 or L > n)", floor=5,
                  decides="a finding on the last line (file without trailing newline) is looked up like any other; appending code after it changes nothing")
    for rec in shared.line_model_sites(ctx):
        if rec.get("positional") != "lookup":
            continue
        f = repo.funcs[rec["fq"]]
        v = _lookup_arithmetic(f)
        if v is True:
            run.ok(L4, rec["func"], "guard and index give lines[L-1] for L in 1..n")
        elif v is None:
            run.ok(L4, rec["func"], "lookup delegated / shape not a direct index (covered at the callee)", nontrivial=False)
        else:
            run.finding(L4, rec["func"], f"lookup-arithmetic:{v}", f"{rec['func']}: {v}: the text of the reported line is not found for some valid line number (typically the last line of a file without trailing newline)", rec["loc"])
    L5 = run.rule("L5", "the lines-of-code counters ignore blank, whitespace-only and comment lines in every language", floor=3,
                  decides="inserting blank lines or adding trailing whitespace never changes an SRP verdict")
    for rec in shared.loc_counters(ctx):
        (run.ok(L5, rec["func"], rec["detail"]) if rec["ok"] else run.finding(L5, rec["func"], "blank-lines-counted", f"{rec['func']}: {rec['detail']}", rec["loc"]))
    L6 = run.rule("L6", "tree-sitter byte offsets (start_byte / end_byte) never slice a str: they slice bytes (the encoded source, node.text)", floor=1,
                  decides="adding a comment that contains a non-ASCII character (or a BOM) above a construct does not shift the text a rule reads for it")
    n_l6 = 0
    for f in sorted(repo.funcs.values(), key=lambda x: x.qual):
        if not f.module.name.startswith("src.") or f.parent is not None:
            continue
        for n in ast.walk(f.node):
            if not (isinstance(n, ast.Subscript) and isinstance(n.slice, ast.Slice)):
                continue
            if not any(isinstance(x, ast.Attribute) and x.attr in ("start_byte", "end_byte") for b_ in (n.slice.lower, n.slice.upper) if b_ is not None for x in ast.walk(b_)):
                continue
            n_l6 += 1
            base = n.value
            kind = "?"
            if isinstance(base, ast.Call) and (call_name(base) in ("encode", "bytes") or (isinstance(base.func, ast.Name) and base.func.id == "bytes")):
                kind = "bytes"
            elif isinstance(base, ast.Attribute) and base.attr == "text":
                kind = "bytes"
            elif isinstance(base, ast.Name):
                ann = next((ast.unparse(a.annotation) for a in f.node.args.args + f.node.args.kwonlyargs if a.arg == base.id and a.annotation is not None), None)
                defs = [a.value for a in ast.walk(f.node) if isinstance(a, ast.Assign) and any(isinstance(t, ast.Name) and t.id == base.id for t in a.targets)]
                if ann is not None:
                    kind = "bytes" if "bytes" in ann else "str" if ann.split("|")[0].strip() == "str" else "?"
                elif defs and all(isinstance(d, ast.Call) and call_name(d) in ("encode", "bytes", "read_bytes") for d in defs):
                    kind = "bytes"
            sym = f"{f.qual.replace('src.', '', 1)}:{norm(n)[:50]}"
            if kind == "bytes":
                run.ok(L6, sym, "byte offsets applied to bytes")
            elif kind == "str":
                run.finding(L6, f.qual.replace("src.", "", 1), f"byte-offsets-on-str:{norm(n)[:60]}", f"`{norm(n)[:80]}` slices a str with tree-sitter byte offsets: every non-ASCII character (or a BOM) before the node shifts the slice, so the rule reads the wrong text as soon as such a character is added above", f"{f.module.rel}:{n.lineno}")
            else:
                run.undecided(L6, sym, "type of the sliced object not determined")
    run.require(n_l6 >= 1, "no slice by start_byte/end_byte found in src (positive control: the DRY TypeScript value extractor)")

    L7 = run.rule("L7", "tree-sitter code that steps to a neighbouring sibling, or picks the first/last child by position and tests its kind, allows for comment nodes (extras the grammars place anywhere)", floor=1,
                  decides="a comment line inserted between an attribute and its item, or after the last statement of a body, does not change which construct the rule sees")
    COMMENT_KINDS = {"comment", "line_comment", "block_comment", "doc_comment"}
    n_l7 = 0
    for f in sorted(repo.funcs.values(), key=lambda x: x.qual):
        if not f.module.name.startswith("src.") or f.parent is not None:
            continue
        steps = [n for n in ast.walk(f.node) if isinstance(n, ast.Attribute) and n.attr in ("prev_sibling", "next_sibling")]
        child_lists = {t.id for a in ast.walk(f.node) if isinstance(a, ast.Assign) and isinstance(a.value, ast.Attribute) and a.value.attr in ("named_children", "children") for t in a.targets if isinstance(t, ast.Name)}
        picks = [n for n in ast.walk(f.node) if isinstance(n, ast.Subscript) and isinstance(n.slice, (ast.Constant, ast.UnaryOp))
                 and ((isinstance(n.value, ast.Attribute) and n.value.attr in ("named_children", "children")) or (isinstance(n.value, ast.Name) and n.value.id in child_lists))
                 and isinstance(repo.fold(f.module, n.slice), int) and repo.fold(f.module, n.slice) == -1]
        if not steps and not picks:
            continue
        # does the function test node kinds at all (otherwise it is not deciding anything by kind)?
        kinds = set()
        for n in ast.walk(f.node):
            if isinstance(n, ast.Compare) and isinstance(n.left, ast.Attribute) and n.left.attr == "type":
                for c_ in n.comparators:
                    v = repo.fold(f.module, c_)
                    kinds |= {v} if isinstance(v, str) else set(v) if isinstance(v, (tuple, list, set, frozenset)) else set()
        if not kinds:
            continue
        n_l7 += 1
        sym = f.qual.replace("src.", "", 1)
        what = "steps over siblings (prev_sibling/next_sibling)" if steps else f"takes `{norm(picks[0])}`"
        # the comment kinds that can stand between siblings in this module's grammar (doc_comment is only ever a child of line/block comments)
        from .. import kinds as _kinds
        lang = _kinds.module_language(f.module.name)
        sibling_comments = {"rust": {"line_comment", "block_comment"}, "typescript": {"comment"}}.get(lang, set())
        sibling_comments = {k for k in sibling_comments if k in ctx.grammar[lang].named} if lang else set()
        split = _comments_skipped_in_another_loop(repo, f, COMMENT_KINDS) if steps else None
        if kinds & COMMENT_KINDS and sibling_comments and not sibling_comments <= kinds:
            miss = sorted(sibling_comments - kinds)
            run.finding(L7, sym, f"comment-kinds-missing:{miss}", f"{f.qual} {what} and steps over {sorted(kinds & COMMENT_KINDS)} but not over {miss}: the {lang} grammar places {sorted(sibling_comments)} between siblings, so a `/* ... */` (or `//`) comment inserted between an attribute and its item ends the scan and changes which construct the rule sees", f"{f.module.rel}:{(steps or picks)[0].lineno}")
        elif kinds & COMMENT_KINDS and split:
            run.finding(L7, sym, "comments-skipped-before-not-between", f"{f.qual} skips comments in one loop and collects `{split}` siblings in a second loop that stops at the first other node: a comment standing between two attributes ends the scan, so the attributes above it (#[cfg(test)], #[test]) are not seen", f"{f.module.rel}:{steps[0].lineno}")
        elif kinds & COMMENT_KINDS:
            run.ok(L7, sym, f"{what} and handles {sorted(kinds & COMMENT_KINDS)}")
        else:
            w = steps[0] if steps else picks[0]
            run.finding(L7, sym, f"comment-blind:{'sibling-walk' if steps else norm(picks[0])[:40]}", f"{f.qual} {what} and tests node kinds {sorted(kinds)[:4]} without allowing for comment nodes: tree-sitter places comments as ordinary (named) siblings, so a comment line inserted at that position changes what the rule sees - and with it the set of violations", f"{f.module.rel}:{w.lineno}")
    # text quoted from a source line is stripped of its indentation before anything length-dependent happens to it
    n_strip = 0
    for f in sorted(repo.funcs.values(), key=lambda x: x.qual):
        if not f.module.name.startswith("src.") or f.parent is not None:
            continue
        for n in ast.walk(f.node):
            if not (isinstance(n, ast.Call) and isinstance(n.func, ast.Attribute) and n.func.attr in ("strip", "lstrip") and not n.args):
                continue
            recv = n.func.value
            if isinstance(recv, ast.Subscript) and isinstance(recv.slice, ast.Slice) and isinstance(recv.value, ast.Subscript):
                # lines[i][:N].strip(): cut first, strip second
                up = recv.slice.upper
                if up is not None and recv.slice.lower is None:
                    n_strip += 1
                    run.finding(L7, f.qual.replace("src.", "", 1), f"cut-before-strip:{norm(n)[:50]}", f"{f.qual}: `{norm(n)[:80]}` cuts the raw line to a fixed width before stripping its indentation, so the quoted text (and the violation message built from it) changes when the file is re-indented", f"{f.module.rel}:{n.lineno}")
            elif isinstance(recv, ast.Subscript) and not isinstance(recv.slice, ast.Slice):
                n_strip += 1
    run.require(n_strip >= 3, f"L7: only {n_strip} `<lines>[i].strip()` sites found (positive control: core.linter_utils.get_line_context)")
    # identifier uses are decided on identifier nodes: a regex over the text of a composite node also sees comments and strings
    n_ts = 0
    for m in sorted(repo.modules.values(), key=lambda x: x.name):
        if not (m.name.startswith("src.analyzers") or m.name.endswith("rust_analyzer") or "typescript" in m.name.rsplit(".", 1)[-1]):
            continue
        n_ts += 1
        for f in [x for x in repo.funcs.values() if x.module is m and x.parent is None]:
            for n in ast.walk(f.node):
                if isinstance(n, ast.Call) and (dotted(n.func) or "").startswith("re.") and len(n.args) >= 2 and any(isinstance(x, ast.Attribute) and x.attr == "text" for x in ast.walk(n.args[1])):
                    kinds_ = {v for c in ast.walk(f.node) if isinstance(c, ast.Compare) and isinstance(c.left, ast.Attribute) and c.left.attr == "type" for cc in c.comparators for v in ([repo.fold(m, cc)] if isinstance(repo.fold(m, cc), str) else [])}
                    if kinds_ & {"identifier", "string_literal", "string", "line_comment", "comment", "integer_literal", "number"}:
                        continue   # the text of a leaf the function has just identified by kind
                    run.finding(L7, f.qual.replace("src.", "", 1), f"regex-over-node-text:{norm(n)[:50]}", f"{f.qual}: `{norm(n)[:80]}` searches the source text of a whole node: words inside comments and string literals count like code, so a directive-free comment that mentions a name changes what the rule concludes", f"{m.rel}:{n.lineno}")
    run.require(n_ts >= 10, f"L7: only {n_ts} tree-sitter analyzer modules found")
    run.require(n_l7 >= 1, "L7: no sibling walk / last-child test found (positive control: rust_context._preceding_attributes)")
    # ---------------------------------------------------------------- L8
    L8 = run.rule("L8", "the multi-line-import skip state of the DRY tokenisers is threaded unchanged through lines that carry no token: a wrapper of should_skip_import_line returns as new state its state parameter or the state that call returned, never a constant", floor=2,
                  decides="a blank or comment-only line inserted inside a parenthesised import does not end the skip state (the remaining names would be hashed as code)")
    n_l8 = 0
    for f in sorted(repo.funcs.values(), key=lambda x: x.qual):
        if not f.module.name.startswith("src.linters.dry") or f.parent is not None:
            continue
        calls = [c for c in ast.walk(f.node) if isinstance(c, ast.Call) and call_name(c) == "should_skip_import_line" and len(c.args) >= 2 and isinstance(c.args[1], ast.Name)]
        params = {a.arg for a in f.node.args.args}
        calls = [c for c in calls if c.args[1].id in params]
        if not calls:
            continue
        state = calls[0].args[1].id
        derived = {state}
        for a in ast.walk(f.node):
            if isinstance(a, ast.Assign) and a.value in calls and isinstance(a.targets[0], ast.Tuple) and a.targets[0].elts and isinstance(a.targets[0].elts[0], ast.Name):
                derived.add(a.targets[0].elts[0].id)
        for r in [r for r in ast.walk(f.node) if isinstance(r, ast.Return) and isinstance(r.value, ast.Tuple) and r.value.elts]:
            n_l8 += 1
            e = r.value.elts[0]
            sym = f"{f.qual.replace('src.', '', 1)}:{r.lineno - f.node.lineno}"
            if isinstance(e, ast.Name) and e.id in derived:
                run.ok(L8, sym, f"returns state `{e.id}`")
            elif isinstance(e, ast.Subscript) and isinstance(e.value, ast.Call) and e.value in calls:
                run.ok(L8, sym, "returns the state should_skip_import_line computed")
            else:
                run.finding(L8, f.qual.replace("src.", "", 1), f"state-reset:{norm(r)[:50]}", f"{f.qual}: `{norm(r)[:70]}` returns `{norm(e)}` as the new skip state instead of `{state}`: a blank or comment-only line inside `from x import (` ... `)` ends the import, and the names after it are hashed as code - inserting such a line creates duplicate-code reports", f"{f.module.rel}:{r.lineno}")
    run.require(n_l8 >= 4, f"L8: only {n_l8} state-returning exits found in the DRY line filters (python and typescript analyzers)")
    return __doc__


def _lookup_arithmetic(f):
    """Check `lines = X.split("\n"[, maxsplit])`, guards on len(lines) and the index expression, for n=3."""
    lines_var = None
    for n in ast.walk(f.node):
        if isinstance(n, ast.Assign) and isinstance(n.value, ast.Call) and call_name(n.value) in ("split", "splitlines") and len(n.targets) == 1 and isinstance(n.targets[0], ast.Name):
            lines_var = n.targets[0].id
            if call_name(n.value) == "split" and (len(n.value.args) > 1 or n.value.keywords):
                return f"split with maxsplit ({ast.unparse(n.value)}) truncates the line list"
    if lines_var is None:
        return None
    idx = next((n for n in ast.walk(f.node) if isinstance(n, ast.Subscript) and isinstance(n.value, ast.Name) and n.value.id == lines_var and not isinstance(n.slice, ast.Slice)), None)
    if idx is None:
        return None
    guards = [n.test for n in ast.walk(f.node) if isinstance(n, ast.If) and f"len({lines_var})" in ast.unparse(n.test) and any(isinstance(s, ast.Return) for s in n.body)]
    attrs = {ast.unparse(x) for x in ast.walk(idx.slice) if isinstance(x, ast.Attribute)}
    line_names = sorted(attrs) if attrs else sorted({x.id for x in ast.walk(idx.slice) if isinstance(x, ast.Name)})
    if len(line_names) != 1:
        return None
    LN = line_names[0]

    def ev(e, L, n_):
        if isinstance(e, ast.Constant):
            return e.value
        if ast.unparse(e) == LN:
            return L
        if isinstance(e, ast.Call) and call_name(e) == "len":
            return n_
        if isinstance(e, ast.BinOp) and isinstance(e.op, (ast.Add, ast.Sub)):
            a, b = ev(e.left, L, n_), ev(e.right, L, n_)
            return a + b if isinstance(e.op, ast.Add) else a - b
        if isinstance(e, ast.BoolOp):
            vals = [ev(v, L, n_) for v in e.values]
            return any(vals) if isinstance(e.op, ast.Or) else all(vals)
        if isinstance(e, ast.UnaryOp) and isinstance(e.op, ast.Not):
            return not ev(e.operand, L, n_)
        if isinstance(e, ast.Compare):
            vals = [ev(e.left, L, n_)] + [ev(c, L, n_) for c in e.comparators]
            ok = True
            for op, a, b in zip(e.ops, vals, vals[1:]):
                ok = ok and {ast.Lt: a < b, ast.LtE: a <= b, ast.Gt: a > b, ast.GtE: a >= b, ast.Eq: a == b, ast.NotEq: a != b}[type(op)]
            return ok
        raise ValueError(ast.unparse(e))

    # guards may also be written positively: `if 0 <= i < len(lines): return lines[i]`
    pos_guards = [n.test for n in ast.walk(f.node) if isinstance(n, ast.If) and f"len({lines_var})" in ast.unparse(n.test) and any(x is idx for s_ in n.body for x in ast.walk(s_))]
    guards = [g for g in guards if not any(g is p for p in pos_guards)]
    try:
        n_ = 3
        row_based = ev(idx.slice, 1, n_) == 1  # lines[i]: the parameter is a 0-based row
        valid = (0, 1, 2) if row_based else (1, 2, 3)
        for L in valid:
            if any(ev(g, L, n_) for g in guards):
                return f"guard `{ast.unparse(guards[0])}` rejects valid {'row' if row_based else 'line'} {L} of a {n_}-line file"
            if pos_guards and not all(ev(g, L, n_) for g in pos_guards):
                return f"guard `{ast.unparse(pos_guards[0])}` rejects valid {'row' if row_based else 'line'} {L} of a {n_}-line file"
            want = L if row_based else L - 1
            if ev(idx.slice, L, n_) != want:
                return f"index `{ast.unparse(idx.slice)}` selects element {ev(idx.slice, L, n_)} for {'row' if row_based else 'line'} {L}"
    except (ValueError, KeyError, TypeError):
        return None
    return True


def _comments_skipped_in_another_loop(repo, f, comment_kinds):
    """A sibling walk that collects nodes of one kind (`.append(sib)` under `sib.type == K`) must tolerate comments in the
    same loop.  Returns K when the collecting loop never mentions a comment kind although another loop of the function does."""
    def kinds_in(node):
        out = set()
        for n in ast.walk(node):
            if isinstance(n, ast.Compare) and isinstance(n.left, ast.Attribute) and n.left.attr == "type":
                for c_ in n.comparators:
                    v = repo.fold(f.module, c_)
                    out |= {v} if isinstance(v, str) else set(v) if isinstance(v, (tuple, list, set, frozenset)) else set()
        return out
    loops = [n for n in ast.walk(f.node) if isinstance(n, (ast.While, ast.For))]
    loops = [l for l in loops if any(isinstance(x, ast.Attribute) and x.attr in ("prev_sibling", "next_sibling") for x in ast.walk(l))]
    if len(loops) < 2:
        return None
    for l in loops:
        collects = any(isinstance(x, ast.Call) and call_name(x) in ("append", "add", "insert") for x in ast.walk(l))
        ks = kinds_in(l)
        if collects and ks and not ks & comment_kinds and any(kinds_in(o) & comment_kinds for o in loops if o is not l):
            return sorted(ks)[0]
    return None
