"""C16 - SRP linter applies its method, size and keyword thresholds exactly.

Decides (structure only):
 T1 evaluate_metrics: method_count > max_methods, loc > max_loc (strict), keyword branch conjoined with
    check_keywords; each message interpolates exactly the two compared operands;
 T2 the language-override branch of SRPConfig.from_dict handles every threshold the default branch does;
 T3 one violation per metrics record (issues joined once, no inner loop over issues);
 T4 the three analyzers return records with the same keys, and those are the keys the evaluator/builder read;
 T6 the "public method" predicate forms the frozen feature matrix (underscore-prefixed excluded in all three;
    @property excluded in Python; constructor excluded in TypeScript).
 (T5, CLI override coverage, is decided under C05-K7.)
Not decided: what count_methods/count_loc count on a particular class.
"""

from __future__ import annotations

import ast

from .. import inline
from ..facts import call_name, kwarg, norm
from ..util import is_call_named

PKG = "src.linters.srp"
RECORD_KEYS = {"class_name", "method_count", "loc", "has_keyword", "line", "column"}
# (language, excluded member kind) -> how the exclusion is recognised; one reason per cell
METHOD_MATRIX = {
    ("python", "underscore-prefixed"): "private/dunder methods are not public",
    ("python", "@property"): "a property is an attribute, not a method",
    ("typescript", "underscore-prefixed"): "private by convention",
    ("typescript", "constructor"): "construction is not a responsibility",
    ("rust", "underscore-prefixed"): "private by convention",
}


def check(run, ctx):
    repo = ctx.repo
    T1 = run.rule("T1", "evaluate_metrics compares metrics[method_count] > max_methods and metrics[loc] > max_loc strictly, gates the keyword issue on check_keywords, and each message names the compared operands", floor=5,
                  decides="a class sitting exactly on a limit is not reported and one above it is; the message lists the true counts")
    ev = repo.func(f"{PKG}.metrics_evaluator.evaluate_metrics")
    # the criteria may sit in evaluate_metrics itself or in private helpers it calls (flattened view, parameters substituted)
    ifs = [n for n in inline.flat_stmts(repo, ev) if isinstance(n, ast.If)]
    found = {}
    for n in ifs:
        t = n.test
        if isinstance(t, ast.Compare) and len(t.ops) == 1:
            l, r = ast.unparse(t.left), ast.unparse(t.comparators[0])
            for key, thr in (("method_count", "max_methods"), ("loc", "max_loc")):
                if key in l and thr in r or key in r and thr in l:
                    found[key] = n
                    op = type(t.ops[0]).__name__
                    val_left = key in l
                    good = (op == "Gt" and val_left) or (op == "Lt" and not val_left)
                    if good:
                        run.ok(T1, f"{key} threshold", norm(t))
                    else:
                        run.finding(T1, "evaluate_metrics", f"op:{norm(t)}", f"`{norm(t)}`: the class is reported iff the count strictly exceeds the limit", ev.loc)
                    app = [c for c in ast.walk(n) if is_call_named(c, "append")]
                    txt = ast.unparse(app[0].args[0]) if app and app[0].args else ""
                    if f"metrics['{key}']" in txt and f"config.{thr}" in txt:
                        run.ok(T1, f"{key} message", "interpolates the compared count and limit")
                    else:
                        run.finding(T1, "evaluate_metrics", f"message:{key}", f"the {key} issue text does not state both compared operands: {txt[:80]}", ev.loc)
        elif isinstance(t, ast.BoolOp) and isinstance(t.op, ast.And):
            s = ast.unparse(t)
            if "check_keywords" in s and "has_keyword" in s:
                found["keyword"] = n
                run.ok(T1, "keyword branch", norm(t))
    for k in ("method_count", "loc", "keyword"):
        if k not in found:
            run.finding(T1, "evaluate_metrics", f"missing:{k}", f"no {k} criterion (or the keyword criterion is not conjoined with check_keywords)", ev.loc)
    extra = [n for n in ifs if n not in found.values() and any(is_call_named(c, "append", "extend") for c in ast.walk(n))]
    if extra:
        run.finding(T1, "evaluate_metrics", f"extra-criterion:{norm(extra[0].test)}", f"an additional criterion `{norm(extra[0].test)}` reports classes the documentation does not", ev.loc)
    rets = [n for n in ast.walk(ev.node) if isinstance(n, ast.Return)]
    (run.ok(T1, "returns issues", "single return of the collected issues") if len(rets) == 1 and isinstance(rets[0].value, ast.Name) and rets[0] is ev.node.body[-1] else run.finding(T1, "evaluate_metrics", "returns", "evaluate_metrics has an early/other return", ev.loc))

    T2 = run.rule("T2", "SRPConfig.from_dict reads max_methods and max_loc in the language-override branch and in the default branch", floor=2)
    fd0 = repo.func(f"{PKG}.config.SRPConfig.from_dict")
    # the function that resolves the two levels: from_dict itself or a private helper of the module it hands (config, language) to
    fd, cpar, lpar = fd0, fd0.node.args.args[1].arg, "language"
    for cand in [fd0] + [h for h in inline.callees(repo, fd0) if h.module is fd0.module]:
        ps_ = {a.arg for a in cand.node.args.args} - {"self", "cls"}
        hit_ = next((n for n in ast.walk(cand.node) if isinstance(n, ast.Subscript) and isinstance(n.value, ast.Name) and n.value.id in ps_ and isinstance(n.slice, ast.Name) and n.slice.id in ps_), None)
        if hit_ is not None:
            fd, cpar, lpar = cand, hit_.value.id, hit_.slice.id
            break
    top = next((n for n in fd.node.body if isinstance(n, ast.If) and any(isinstance(x, ast.Name) and x.id == lpar for x in ast.walk(n.test))), None)
    lang_names = {t.id for n in ast.walk(fd.node) if isinstance(n, ast.Assign) for t in n.targets if isinstance(t, ast.Name)
                  and any(isinstance(x, ast.Name) and x.id == lpar for x in ast.walk(n.value)) and any(isinstance(x, ast.Name) and x.id == cpar for x in ast.walk(n.value))}
    from . import shared as _sh
    mut = _sh.param_mutations(fd, cpar)
    if mut:
        run.finding(T2, "SRPConfig.from_dict", f"config-mutated:{norm(mut[0])[:50]}", f"SRPConfig.from_dict changes the mapping it is given (`{norm(mut[0])[:80]}`): the orchestrator hands the same `srp` section to every file, so the thresholds of the first language with an override replace the general ones for every file linted after it", f"{fd.module.rel}:{mut[0].lineno}")
        run.ok(T2, "from_dict (branch layout)", "not examined further: the finding above stands", nontrivial=False)
    else:
        run.require(bool(lang_names), "SRPConfig.from_dict: no mapping derived from config[language]")
    for key in (() if mut else ("max_methods", "max_loc")):
        def reads(recv_names):
            return [c for c in ast.walk(fd.node) if isinstance(c, ast.Call) and call_name(c) == "get" and isinstance(c.func.value, ast.Name) and c.func.value.id in recv_names and c.args and isinstance(c.args[0], ast.Constant) and c.args[0].value == key]
        lang_read, sect_read = reads(lang_names), reads({cpar})
        # both levels are read for the key (whatever the branch layout: if/else with the section read in both arms,
        # section first then override, or an or-chain)
        ok = bool(lang_read) and bool(sect_read)
        if ok and top is not None and top.orelse:
            # with an explicit else arm the section-level read must be in it (else a file of a language without override gets nothing)
            ok = any(c is x for s_ in top.orelse for x in ast.walk(s_) for c in sect_read)
        if ok:
            run.ok(T2, f"from_dict[{key}]", "read at the language level with the section level as fallback, and at the section level when there is no override")
        else:
            run.finding(T2, "SRPConfig.from_dict", f"branch-asymmetry:{key}", f"{key} is not read at both the language level and the section level: per-language overrides would apply to one threshold only", fd.loc)
    if top is not None and not mut:
        test = ast.unparse(top.test)
        (run.ok(T2, "override condition", test) if test == f"{lpar} and {lpar} in {cpar}" else run.finding(T2, "SRPConfig.from_dict", f"override-cond:{test}", "language overrides are not selected by `language in config`", fd.loc))

    T3 = run.rule("T3", "one violation per metrics record: _create_violation_if_needed builds at most one violation from all issues; the builder joins issues once", floor=2)
    cv = repo.func(f"{PKG}.linter.SRPRule._create_violation_if_needed")
    builds = [c for c in ast.walk(cv.node) if is_call_named(c, "build_violation")]
    loops = [n for n in ast.walk(cv.node) if isinstance(n, (ast.For, ast.While, ast.ListComp, ast.GeneratorExp))]
    (run.ok(T3, "_create_violation_if_needed", "single build_violation(metrics, issues, ...) outside any loop") if len(builds) == 1 and not loops else run.finding(T3, "_create_violation_if_needed", "per-issue", "violations are built in a loop: a class exceeding two limits would be reported twice", cv.loc))
    bv = repo.func(f"{PKG}.violation_builder.ViolationBuilder.build_violation")
    issues_par = next((a.arg for a in bv.node.args.args if a.arg not in ("self", "cls") and a.annotation is not None and "list" in ast.unparse(a.annotation)), "issues")
    joins = [c for c in ast.walk(bv.node) if is_call_named(c, "join") and c.args and ast.unparse(c.args[0]) == issues_par]
    (run.ok(T3, "build_violation", "message joins all issues") if joins else run.finding(T3, "build_violation", "join", "the message does not list all exceeded criteria", bv.loc))

    T4 = run.rule("T4", "Python, TypeScript and Rust analyzers return metrics records with the same keys, which are the keys evaluate_metrics and build_violation read", floor=4)
    recs = {}
    for lang, mod in (("python", "python_analyzer"), ("typescript", "typescript_analyzer"), ("rust", "rust_analyzer")):
        m = repo.mod(f"{PKG}.{mod}")
        ds = [n for n in ast.walk(m.tree) if isinstance(n, ast.Return) and isinstance(n.value, ast.Dict)]
        ds = [d for d in ds if any(isinstance(k, ast.Constant) and k.value == "method_count" for k in d.value.keys)]
        run.require(len(ds) == 1, f"{mod}: metrics record literal not found")
        recs[lang] = {k.value: v for k, v in zip(ds[0].value.keys, ds[0].value.values) if isinstance(k, ast.Constant)}
        if set(recs[lang]) == RECORD_KEYS:
            run.ok(T4, f"{lang} record", "keys " + ",".join(sorted(recs[lang])))
        else:
            run.finding(T4, f"{mod}", f"keys:{sorted(set(recs[lang]) ^ RECORD_KEYS)}", f"the {lang} metrics record differs from its siblings in {sorted(set(recs[lang]) ^ RECORD_KEYS)}", m.rel)
    # every constant-key subscript of the metrics parameter (first non-self parameter), helpers inlined
    def _mpar(fn_):
        a_ = [x.arg for x in fn_.node.args.args if x.arg not in ("self", "cls")]
        return a_[0] if a_ else "metrics"
    read = {n.slice.value for f in (ev, bv) for n in inline.flat_nodes(repo, f) if isinstance(n, ast.Subscript) and isinstance(n.slice, ast.Constant) and isinstance(n.slice.value, str) and ast.unparse(n.value) == _mpar(f)}
    (run.ok(T4, "readers", f"read {sorted(read)}") if read <= RECORD_KEYS else run.finding(T4, "evaluate_metrics/build_violation", f"reads-unknown:{sorted(read - RECORD_KEYS)}", "a key is read that no analyzer writes", ev.loc))
    # the counts in the record come from the count functions of that language
    from ..util import expand_locals as _xl4
    for lang, r in recs.items():
        src = {k: ast.unparse(v) for k, v in r.items()}
        owner = next((f_ for f_ in repo.funcs.values() if f_.parent is None and any(x is r.get("method_count") for x in ast.walk(f_.node))), None)
        mc = _xl4(owner.node, r["method_count"]) if owner is not None and "method_count" in r else None
        lc = _xl4(owner.node, r["loc"]) if owner is not None and "loc" in r else None
        # whatever the locals and the counters are called: the two fields are the results of two different counting calls
        if isinstance(mc, ast.Call) and isinstance(lc, ast.Call) and call_name(mc) != call_name(lc):
            run.ok(T4, f"{lang} record values", f"method_count = {call_name(mc)}(...), loc = {call_name(lc)}(...)")
        else:
            run.finding(T4, f"{lang} record", f"values:{src.get('method_count')}/{src.get('loc')}", "record fields are not the computed counts", "")

    T6 = run.rule("T6", "public-method predicate feature matrix: underscore-prefixed excluded in all three languages; @property excluded in Python; constructor excluded in TypeScript", floor=5,
                  decides="public/private/property/constructor members are counted alike across languages")
    preds = {
        "python": repo.func(f"{PKG}.heuristics._is_countable_method"),
        "typescript": repo.func(f"{PKG}.typescript_metrics_calculator._is_countable_method"),
        "rust": repo.func(f"{PKG}.rust_analyzer.RustSRPAnalyzer._is_countable_method") if f"{PKG}.rust_analyzer.RustSRPAnalyzer._is_countable_method" in repo.funcs else next(f for f in repo.funcs_in(f"{PKG}.rust_analyzer.") if f.name == "_is_countable_method"),
    }
    feats = {}
    for lang, f in preds.items():
        src_funcs = [f] + [g for c in ast.walk(f.node) if isinstance(c, ast.Call) for g in [repo.funcs.get(f"{f.module.name}.{call_name(c)}")] if g is not None]
        text = "\n".join(ast.unparse(g.node) for g in src_funcs)
        feats[lang] = {
            "underscore-prefixed": "startswith('_')" in text,
            "@property": "has_property_decorator" in text or "'property'" in text,
            "constructor": "'constructor'" in text,
        }
    for (lang, feat), why in METHOD_MATRIX.items():
        if feats[lang][feat]:
            run.ok(T6, f"{lang}:{feat}", f"excluded ({why})")
        else:
            run.finding(T6, f"{lang} _is_countable_method", f"counts:{feat}", f"{feat} members are counted as public methods in {lang} (excluded in the sibling languages: {why})", preds[lang].loc)
    # the predicate is actually applied by the counting loop
    for lang, f in preds.items():
        users = [g for g in repo.funcs.values() if g.module is f.module and g is not f and any(is_call_named(c, "_is_countable_method") for c in ast.walk(g.node))]
        (run.ok(T6, f"{lang} predicate applied", users[0].name) if users else run.finding(T6, f"{lang} count", "predicate-unused", "_is_countable_method is not applied when counting methods", f.loc))
    from ..linters import Linters
    from . import shared

    T8 = run.rule("T8", "the three lines-of-code counters are siblings: each counts only non-blank, non-comment lines", floor=3,
                  decides="`lines of code` means the same in Python, TypeScript and Rust")
    for rec in shared.loc_counters(ctx):
        (run.ok(T8, rec["func"], rec["detail"]) if rec["ok"] else run.finding(T8, rec["func"], "loc-definition", f"{rec['func']}: {rec['detail']} (the sibling analyzers count code lines only)", rec["loc"]))
    T10 = run.rule("T10", "the line list a class's LOC is sliced from uses the parser's line model (split on '\\n'), so the parser's start/end lines select the class's own lines", floor=1,
                   decides="the true line count is reported also when the file contains form feeds or U+2028 (which str.splitlines() treats as line breaks and the parsers do not)")
    for rec in shared.line_model_sites(ctx):
        if ".srp." not in rec["func"]:
            continue
        if rec["indexed_by_line"]:
            run.finding(T10, rec["func"], "splitlines-sliced-by-line", f"{rec['func']}: {rec['expr']} is sliced by the parser's line numbers ({rec['use']}): every form-feed/NEL/U+2028 above the class end shifts the slice, so lines before the class are counted and its last lines are not", rec["loc"])
        else:
            run.ok(T10, rec["func"], f"{rec['expr']}: {rec['use']}", nontrivial=rec["use"] != "no positional use")
    T11 = run.rule("T11", "the three method counters count the direct members of the class / impl block only (no recursive walk over nested bodies)", floor=3,
                   decides="the method count is the number of the class's own methods: a fn or def nested inside a method body is not a method")
    counters = [f for f in repo.funcs_in(f"{PKG}.") if f.name in ("count_methods", "count_impl_methods") and f.parent is None]
    run.require(len(counters) >= 3, f"only {len(counters)} method counters found in the SRP package")
    for f in sorted(counters, key=lambda x: x.qual):
        rec = [n for n in inline.flat_nodes(repo, f) if isinstance(n, ast.Call) and (call_name(n) in ("walk_tree", "walk", "descendants", "iter_descendants") or ast.unparse(n.func) == "ast.walk")]
        direct = [n for n in inline.flat_nodes(repo, f) if isinstance(n, ast.Attribute) and n.attr in ("children", "named_children", "body")]
        sym = f.qual.replace("src.linters.srp.", "")
        if rec:
            run.finding(T11, sym, f"recursive-count:{norm(rec[0])[:50]}", f"{f.name} collects methods with `{norm(rec[0])[:70]}`, a recursive walk: functions declared inside a method body are counted as methods of the class, so a class on the limit is reported with an inflated count", f"{f.module.rel}:{rec[0].lineno}")
        elif direct:
            run.ok(T11, sym, "iterates the direct members only")
        else:
            run.undecided(T11, sym, "member iteration not recognised")
    T9 = run.rule("T9", "every class is found: the Python class finder walks the whole tree (classes nested in functions, methods, if/try blocks included)", floor=1)
    for rec in shared.whole_tree_finders(ctx):
        if ".srp." not in rec["func"]:
            continue
        (run.ok(T9, rec["func"], rec["detail"]) if rec["ok"] else run.finding(T9, rec["func"], "partial-descent", f"{rec['func']}: {rec['detail']}", rec["loc"]))

    T7 = run.rule("T7", "SRPRule resolves its (language-dependent) configuration for every file: _load_config does not memoise on the instance", floor=1,
                  decides="language-specific threshold overrides apply only to files of that language")
    for rec in shared.config_memoisation(ctx, Linters(ctx)):
        if rec["rule"] != "SRPRule":
            continue
        if rec["bad"]:
            run.finding(T7, f"SRPRule.{rec['name']}", f"memoised:{rec['store']}", f"{rec['func'].qual} caches the SRPConfig of the first file ({rec['store']}); SRPConfig.from_dict resolves srp.<language>.* at parse time, so later files of other languages are judged with the wrong limits", rec["func"].loc)
        else:
            run.ok(T7, f"SRPRule.{rec['name']}", "configuration resolved per file (language passed to from_dict)")
    T12 = run.rule("T12", "the keyword criterion is the same predicate in the three analyzers: any(<keyword> in <class name> for <keyword> in <configured keywords>) - plain substring containment, one keyword at a time", floor=3,
                   decides="an empty `keywords` list flags nothing, a keyword is never read as a pattern, and the same class name gets the same verdict in Python, TypeScript and Rust")
    n_t12 = 0
    for m in repo.modules_in(PKG):
        for f in [x for x in repo.funcs.values() if x.module is m and x.parent is None]:
            vals = [v for d in ast.walk(f.node) if isinstance(d, ast.Dict) for k, v in zip(d.keys, d.values) if isinstance(k, ast.Constant) and k.value == "has_keyword"]
            for v in vals:
                n_t12 += 1
                e, owner = v, f
                for _ in range(3):
                    if isinstance(e, ast.Name):
                        b = [a.value for a in ast.walk(owner.node) if isinstance(a, ast.Assign) and len(a.targets) == 1 and isinstance(a.targets[0], ast.Name) and a.targets[0].id == e.id]
                        if len(b) != 1:
                            break
                        e = b[0]
                    elif isinstance(e, ast.Call) and call_name(e) != "any":
                        h = inline.resolve_call(repo, owner, e)
                        rets = [r.value for r in ast.walk(h.node) if isinstance(r, ast.Return) and r.value is not None] if h is not None else []
                        if len(rets) != 1:
                            break
                        e, owner = rets[0], h
                    else:
                        break
                gen = e.args[0] if isinstance(e, ast.Call) and call_name(e) == "any" and len(e.args) == 1 and isinstance(e.args[0], (ast.GeneratorExp, ast.ListComp)) else None
                good = (gen is not None and len(gen.generators) == 1 and not gen.generators[0].ifs and isinstance(gen.generators[0].target, ast.Name)
                        and isinstance(gen.elt, ast.Compare) and len(gen.elt.ops) == 1 and isinstance(gen.elt.ops[0], ast.In)
                        and isinstance(gen.elt.left, ast.Name) and gen.elt.left.id == gen.generators[0].target.id and "keywords" in norm(gen.generators[0].iter))
                sym = f"{m.name.split('.')[-1]}.{f.name}"
                if good:
                    run.ok(T12, sym, f"has_keyword = {norm(e)[:60]}")
                else:
                    run.finding(T12, sym, f"keyword-predicate:{norm(e)[:50]}", f"{f.qual} computes has_keyword as `{norm(e)[:90]}` (in {owner.name}) instead of the per-keyword containment its sibling analyzers use: with `keywords: []` a joined pattern is empty and matches every class name, and the three languages disagree on the same name", f"{owner.module.rel}:{getattr(e, 'lineno', owner.node.lineno)}")
    run.require(n_t12 >= 3, f"T12: only {n_t12} has_keyword producers found (python, typescript, rust analyzers)")
    return __doc__
