"""C20 - config tooling never loses user settings and only writes validated values.

Decides (structure only):
 G1 LINTER_SECTIONS (the sections init-config can add) covers every linter section of the template;
 G2 identify_missing_sections compares section names modulo '-'/'_' (the loader normalises them, so an underscore-
    spelled user section plus an appended hyphen-spelled default collapse into one key and the later one wins);
 G3 the {{...}} placeholders of the template = the .replace("{{...}}", ...) calls; preset table keys =
    click.Choice values of --preset = the interactive prompt's choices; every preset defines every placeholder;
 G4 in save_config, config_set and config_reset validation dominates every file write, and a failed validation
    exits before any write;
 G5 reader and writer of the tool's own config select the format by the same suffixes.
Not decided: preservation of arbitrary user YAML text; idempotence of repeated runs.
"""

from __future__ import annotations

import ast
import re

from .. import cfg, docs
from .. import inline
from ..facts import UNKNOWN, call_name, dotted, norm
from ..util import func_paths, is_call_named

NON_LINTER_TOP_LEVEL = {"exclude", "output_format", "fail_on_violations", "rules", "ignore"}


def check(run, ctx):
    repo = ctx.repo
    cm = repo.mod("src.cli.config_merge")
    G1 = run.rule("G1", "LINTER_SECTIONS contains every mapping-valued top-level section of the config template", floor=12,
                  decides="init-config on an existing file adds every linter section that is missing")
    ls = repo.fold(cm, cm.assigns.get("LINTER_SECTIONS"))
    run.require(isinstance(ls, list), "LINTER_SECTIONS not foldable")
    tpl = docs.template(ctx.root)
    tsecs = [k for k, v in tpl.items() if isinstance(v, dict) and k not in NON_LINTER_TOP_LEVEL]
    run.require(len(tsecs) >= 12, "template has fewer than 12 linter sections")
    for s in tsecs:
        if s in ls:
            run.ok(G1, f"section {s}", "mergeable")
        else:
            run.finding(G1, "LINTER_SECTIONS", f"missing:{s}", f"template section {s!r} is not in LINTER_SECTIONS: extract_linter_sections does not recognise it, so init-config never adds it to an existing file", cm.rel)
    for s in ls:
        if s not in tpl:
            run.finding(G1, "LINTER_SECTIONS", f"stale:{s}", f"LINTER_SECTIONS names {s!r}, which the template does not define", cm.rel)

    G2 = run.rule("G2", "identify_missing_sections treats 'magic_numbers' and 'magic-numbers' as the same section", floor=1,
                  decides="every pre-existing setting keeps its value and stays in effect after init-config")
    im = repo.func("src.cli.config_merge.identify_missing_sections")
    normalises = any(is_call_named(n, "replace") and len(n.args) == 2 and {repo.fold(cm, a) for a in n.args} == {"-", "_"} for n in ast.walk(im.node)) or any(is_call_named(n, "_normalize_config_keys", "_normalize_section_name", "normalize") for n in ast.walk(im.node))
    if normalises:
        run.ok(G2, "identify_missing_sections", "compares names modulo '-'/'_'")
    else:
        cmp_ = next((norm(n) for n in ast.walk(im.node) if isinstance(n, ast.Compare)), "?")
        run.finding(G2, "identify_missing_sections", "raw-key-compare", f"`{cmp_}` compares raw spellings: a user's `magic_numbers:` section is considered missing, the template's `magic-numbers:` block is appended, both normalise to one key on load and the appended defaults replace the user's values", im.loc)

    G3 = run.rule("G3", "template placeholders = replace() calls; preset keys = --preset choices = prompt choices; every preset defines every placeholder value", floor=5)
    tpl_txt = ctx.text("src/templates/thailint_config_template.yaml")
    ph = set(re.findall(r"\{\{[A-Z_]+\}\}", tpl_txt))
    gc = repo.func("src.cli.config._generate_config_content")
    rep = {}
    for n in ast.walk(gc.node):
        if is_call_named(n, "replace") and n.args and isinstance(n.args[0], ast.Constant) and str(n.args[0].value).startswith("{{"):
            a1 = n.args[1]
            key = a1.slice.value if isinstance(a1, ast.Subscript) and isinstance(a1.slice, ast.Constant) else a1.attr if isinstance(a1, ast.Attribute) else None   # preset["key"] or preset.key
            rep[n.args[0].value] = key
    for p in sorted(ph | set(rep)):
        if p in ph and p in rep:
            run.ok(G3, f"placeholder {p}", f"replaced from preset[{rep[p]!r}]")
        elif p in ph:
            run.finding(G3, "_generate_config_content", f"unreplaced:{p}", f"template placeholder {p} is never substituted: the generated file is not valid configuration", gc.loc)
        else:
            run.finding(G3, "_generate_config_content", f"stale-replace:{p}", f"{p} is substituted but the template does not contain it", gc.loc)
    def preset_table(e):
        """{'name': {'key': value, ...}} from a dict whose values are dict literals or record constructors with keyword arguments"""
        if not isinstance(e, ast.Dict) or not e.keys:
            return None
        out_ = {}
        for k_, v_ in zip(e.keys, e.values):
            if not (isinstance(k_, ast.Constant) and isinstance(k_.value, str)):
                return None
            if isinstance(v_, ast.Dict):
                inner = repo.fold(gc.module, v_)
                if not isinstance(inner, dict):
                    return None
                out_[k_.value] = inner
            elif isinstance(v_, ast.Call) and not v_.args and v_.keywords and all(kw.arg for kw in v_.keywords):
                out_[k_.value] = {kw.arg: repo.fold(gc.module, kw.value) for kw in v_.keywords}
            else:
                return None
        return out_

    presets = None
    cands = [n.value for n in ast.walk(gc.node) if isinstance(n, (ast.Assign, ast.AnnAssign)) and n.value is not None] + list(gc.module.assigns.values())
    for e_ in cands:   # in the function or hoisted to a module constant, whatever it is called
        t_ = preset_table(e_)
        if t_ and all(isinstance(x, dict) for x in t_.values()) and any(k in t_ for k in ("strict", "standard", "lenient")):
            presets = t_
            break
    run.require(isinstance(presets, dict), "preset table not foldable")
    choices = []
    for f in (repo.func("src.cli.config.init_config"),):
        for d in f.node.decorator_list:
            for n in ast.walk(d):
                if isinstance(n, ast.Call) and dotted(n.func) == "click.Choice":
                    choices.append(repo.fold(f.module, n.args[0]))
    prompt = [repo.fold(repo.mod("src.cli.config"), n.args[0]) for f in repo.funcs_in("src.cli.config.") for n in ast.walk(f.node) if isinstance(n, ast.Call) and dotted(n.func) == "click.Choice" and f.name != "init_config" and "preset" in ast.unparse(f.node)]
    allc = [c for c in choices + prompt if isinstance(c, list) and set(c) & set(presets)]
    run.require(len(allc) >= 2, "preset click.Choice lists not found")
    for c in allc:
        if set(c) == set(presets):
            run.ok(G3, f"choices {c}", "= preset table keys")
        else:
            run.finding(G3, "init-config presets", f"choices:{sorted(set(c) ^ set(presets))}", f"--preset/prompt choices {c} differ from the preset table {sorted(presets)}: an accepted choice raises KeyError (or a preset is unreachable)", gc.loc)
    for name, p in presets.items():
        miss = [k for k in rep.values() if k not in p]
        (run.ok(G3, f"preset {name}", "defines every substituted value") if not miss else run.finding(G3, "_generate_config_content", f"preset:{name}:{miss}", f"preset {name!r} lacks {miss}", gc.loc))

    G4 = run.rule("G4", "validation precedes every config file write in save_config / config set / config reset, and a failed validation exits first", floor=4,
                  decides="`config set` writes only validated values; a rejected value leaves the file unchanged")
    sc = repo.func("src.config.save_config")
    paths = func_paths(sc)
    ok = paths is not None
    for p in paths or []:
        iw = cfg.first_index(p, lambda n: is_call_named(n, "_write_and_log_config", "_write_config_file", "write_text", "dump"))
        iv = cfg.first_index(p, lambda n: is_call_named(n, "_validate_before_save", "validate_config"))
        if iw is not None and (iv is None or iv > iw):
            ok = False
    (run.ok(G4, "save_config", "_validate_before_save precedes the write on every path") if ok else run.finding(G4, "save_config", "write-before-validate", "save_config can write the file without (or before) validating", sc.loc))
    vb = repo.func("src.config._validate_before_save")
    raises = any(isinstance(n, ast.Raise) for n in ast.walk(vb.node)) and any(is_call_named(n, "validate_config") for n in ast.walk(vb.node))
    (run.ok(G4, "_validate_before_save", "raises on invalid config") if raises else run.finding(G4, "_validate_before_save", "no-raise", "an invalid configuration no longer raises before the write", vb.loc))
    cs = repo.func("src.cli.config.config_set")
    paths = func_paths(cs)
    ok = paths is not None
    for p in paths or []:
        iw = cfg.first_index(p, lambda n: is_call_named(n, "_save_and_report_success", "save_config"))
        iv = cfg.first_index(p, lambda n: is_call_named(n, "_validate_and_report_errors", "validate_config"))
        if iw is not None and (iv is None or iv > iw):
            ok = False
    (run.ok(G4, "config_set", "_validate_and_report_errors precedes the save on every path") if ok else run.finding(G4, "config_set", "save-before-validate", "`config set` can save without validating first", cs.loc))
    vr = repo.func("src.cli.config._validate_and_report_errors")
    t = next((n for n in ast.walk(vr.node) if isinstance(n, ast.If) and "is_valid" in ast.unparse(n.test)), None)
    ok = t is not None and isinstance(t.test, ast.UnaryOp) and any(isinstance(n, ast.Call) and dotted(n.func) == "sys.exit" and n.args and isinstance(n.args[0], ast.Constant) and n.args[0].value != 0 for n in ast.walk(t))
    (run.ok(G4, "_validate_and_report_errors", "invalid -> sys.exit(non-zero) before returning") if ok else run.finding(G4, "_validate_and_report_errors", "no-exit", "an invalid value no longer stops `config set` before the save", vr.loc))
    cr = repo.func("src.cli.config.config_reset")
    ok = any(is_call_named(n, "save_config") for n in ast.walk(cr.node)) and not any(is_call_named(n, "write_text", "dump", "_write_config_file") for n in ast.walk(cr.node))
    (run.ok(G4, "config_reset", "writes only through save_config") if ok else run.finding(G4, "config_reset", "raw-write", "`config reset` writes the file without going through save_config's validation", cr.loc))

    G6 = run.rule("G6", "merge_config_sections separates the user's content from the inserted sections by a line break on every path (append path: rstrip() + newline; banner path: only at the position of the GLOBAL SETTINGS marker)", floor=2,
                  decides="the inserted banner can never be glued onto the user's last value (file without trailing newline)")
    mc = repo.func("src.cli.config_merge.merge_config_sections")
    rets = [n for n in ast.walk(mc.node) if isinstance(n, ast.Return) and n.value is not None]
    par = mc.node.args.args[0].arg
    for r_ in rets:
        v = r_.value
        if isinstance(v, ast.Name) and v.id == par:
            continue  # nothing to merge
        if isinstance(v, ast.Call) and call_name(v) == "_insert_before_global_settings":
            # only legal with the marker position
            pos = v.args[2] if len(v.args) > 2 else None
            src_ok = False
            if isinstance(pos, ast.Name):
                asg = [a.value for a in ast.walk(mc.node) if isinstance(a, ast.Assign) and any(isinstance(t, ast.Name) and t.id == pos.id for t in a.targets)]
                src_ok = len(asg) == 1 and isinstance(asg[0], ast.Call) and call_name(asg[0]) == "_find_global_settings_position"
            (run.ok(G6, "banner path", "inserts at the marker position found in the file") if src_ok else run.finding(G6, "merge_config_sections", "insert-position", "sections are inserted at a position that is not the GLOBAL SETTINGS marker (e.g. the end of the content): no line break is guaranteed before the inserted banner", mc.loc))
            continue
        parts = []
        def flat(e):
            if isinstance(e, ast.BinOp) and isinstance(e.op, ast.Add):
                flat(e.left); flat(e.right)
            else:
                parts.append(e)
        flat(v)
        ok = False
        for i, p_ in enumerate(parts[:-1]):
            if par in ast.unparse(p_):
                nxt = parts[i + 1]
                ok = "rstrip" in ast.unparse(p_) and isinstance(nxt, ast.Constant) and str(nxt.value).startswith("\n")
        (run.ok(G6, "append path", norm(v)) if ok else run.finding(G6, "merge_config_sections", f"append:{norm(v)}", f"`{norm(v)}`: the user's content is not terminated (rstrip() + newline) before the sections are appended", mc.loc))

    fp_ = repo.func("src.cli.config_merge._find_global_settings_position")
    cpar = fp_.node.args.args[0].arg
    finds = {t.id for n in ast.walk(fp_.node) if isinstance(n, ast.Assign) and _is_find_of(n.value, cpar) for t in n.targets if isinstance(t, ast.Name)}
    bad_ret = None
    for n in ast.walk(fp_.node):
        if isinstance(n, ast.Return) and n.value is not None:
            v = n.value
            if _is_find_of(v, cpar) or (isinstance(v, ast.Name) and v.id in finds) or (isinstance(v, ast.UnaryOp) and isinstance(v.operand, ast.Constant)) or (isinstance(v, ast.Constant) and v.value == -1):
                continue
            if isinstance(v, ast.Call) and call_name(v) == "start":
                continue
            bad_ret = v
    if bad_ret is not None:
        run.finding(G6, "_find_global_settings_position", f"position-arithmetic:{norm(bad_ret)}", f"the insert position is computed (`{norm(bad_ret)}`) instead of being the start of the matched banner: whatever the user wrote between that position and the banner (e.g. the last indented setting of the section above) ends up below the inserted sections and changes its parent", fp_.loc)
    else:
        run.ok(G6, "_find_global_settings_position", "returns the start of the matched marker (or -1)")

    G8 = run.rule("G8", "a validator of src/config.py skips its check only when the key is absent (KeyError / `in` / `is None`), never because the value is falsy", floor=3,
                  decides="`config set timeout 0`, `max_retries \"\"` and similar falsy values are validated (and rejected) like any other value")
    mc = repo.func("src.config.merge_configs")
    ovp = mc.node.args.args[1].arg if len(mc.node.args.args) > 1 else "override"
    loops_ = [l for l in ast.walk(mc.node) if isinstance(l, ast.For) and isinstance(l.iter, ast.Call) and call_name(l.iter) == "items" and isinstance(l.iter.func.value, ast.Name) and l.iter.func.value.id == ovp]
    run.require(bool(loops_), "merge_configs: no loop over <override>.items()")
    vname = loops_[0].target.elts[1].id if isinstance(loops_[0].target, ast.Tuple) and len(loops_[0].target.elts) == 2 and isinstance(loops_[0].target.elts[1], ast.Name) else None
    truthy = [t for n in ast.walk(loops_[0]) if isinstance(n, ast.If) for t in ast.walk(n.test) if vname and ((isinstance(t, ast.Name) and t.id == vname and not any(isinstance(p_, (ast.Call, ast.Compare)) and any(x is t for x in ast.walk(p_)) and p_ is not n.test for p_ in ast.walk(n.test))))]
    if truthy:
        run.finding(G8, "merge_configs", f"falsy-override-dropped:{vname}", f"merge_configs lets the truthiness of the file's value decide whether it overrides the default (`{vname}` tested bare in a condition): a valid falsy setting (`max_retries: 0`, `greeting: \"\"`, `false`) is read back as the default and disappears from the file at the next save", f"{mc.module.rel}:{truthy[0].lineno}")
    else:
        run.ok(G8, "merge_configs", "every key of the file overrides the default, whatever its value")
    for f in sorted(repo.funcs_in("src.config."), key=lambda x: x.qual):
        if not f.name.startswith("_validate_") or f.parent is not None:
            continue
        got = {t.id for n in ast.walk(f.node) if isinstance(n, ast.Assign) and isinstance(n.value, ast.Call) and call_name(n.value) == "get" for t in n.targets if isinstance(t, ast.Name)}
        bad = None
        for n in ast.walk(f.node):
            if isinstance(n, ast.If) and any(isinstance(st, ast.Return) for st in n.body):
                t = n.test
                x = t.operand if isinstance(t, ast.UnaryOp) and isinstance(t.op, ast.Not) else None
                if isinstance(x, ast.Name) and x.id in got:
                    bad = (n, x)
                if isinstance(x, ast.Call) and call_name(x) == "get":
                    bad = (n, x)
        if bad:
            run.finding(G8, f.qual.replace("src.", "", 1), f"falsy-skip:{norm(bad[0].test)}", f"{f.name} returns without validating when `{norm(bad[0].test)}`: a falsy value (0, 0.0, '', false) is then accepted and written although the schema forbids it", f"{f.module.rel}:{bad[0].lineno}")
        else:
            run.ok(G8, f.qual.replace("src.", "", 1), "validation is skipped only for an absent key")

    G9 = run.rule("G9", "the --config path the tool loads from is the path it later writes to (same expression), and a .json configuration is read by the JSON reader its writer's counterpart", floor=2,
                  decides="`config set` changes the file that was read, and every value the JSON writer emits is read back unchanged")
    cli_main = next((f_ for f_ in repo.funcs_in("src.cli.main.") if f_.name == "cli"), None)
    run.require(cli_main is not None, "src.cli.main.cli not found")
    cli_flat = list(inline.flat_nodes(repo, cli_main))   # the loading block may live in a private helper (parameters substituted)
    loads = [c_.args[0] for c_ in cli_flat if is_call_named(c_, "load_config") and c_.args]
    stores = [n.value for n in cli_flat if isinstance(n, ast.Assign) and any(isinstance(t, ast.Subscript) and isinstance(t.slice, ast.Constant) and t.slice.value == "config_path" for t in n.targets) and not (isinstance(n.value, ast.Constant) and n.value.value is None)]
    run.require(bool(loads) and bool(stores), "cli(): load_config(<path>) / ctx.obj['config_path'] = <path> not found")
    if {norm(x) for x in loads} == {norm(x) for x in stores}:
        run.ok(G9, "cli --config path", f"loaded and remembered as {norm(loads[0])}")
    else:
        run.finding(G9, "cli", f"config-path-mismatch:{sorted(norm(x) for x in stores)}", f"the configuration is loaded from `{norm(loads[0])}` but `{norm(stores[0])}` is remembered as the file to write: for a path the two expressions resolve differently (a literal `~`), `config set` reads defaults and then overwrites the user's real file with them", cli_main.loc)
    pcf = repo.func("src.core.config_parser.parse_config_file")
    readers = {call_name(c_) for c_ in inline.flat_nodes(repo, pcf) if isinstance(c_, ast.Call)} | {x.id for x in ast.walk(pcf.node) if isinstance(x, ast.Name)}   # called directly or selected as a function value
    if {"parse_yaml", "parse_json"} <= readers:
        run.ok(G9, "parse_config_file", "YAML suffixes -> parse_yaml, .json -> parse_json")
    else:
        run.finding(G9, "parse_config_file", f"json-reader-missing:{sorted(readers & {'parse_yaml', 'parse_json'})}", "a .json configuration is not read by parse_json: values that json.dump writes (1e-05, non-BMP characters as surrogate pairs) are read back differently by the YAML loader, so a value `config set` accepted no longer validates or round-trips", pcf.loc)

    G7 = run.rule("G7", "the config writers serialise with options under which a validated configuration cannot fail half-way (the file is opened for writing before dump is called)", floor=2,
                  decides="a value that cannot be written does not leave a truncated config file")
    SAFE = {"_write_json_config": {"indent", "sort_keys", "ensure_ascii"}, "_write_yaml_config": {"default_flow_style", "sort_keys", "allow_unicode", "indent", "width"}}
    for fn, allowed in SAFE.items():
        f = repo.func(f"src.config.{fn}")
        d = next((n for n in ast.walk(f.node) if isinstance(n, ast.Call) and call_name(n) in ("dump", "safe_dump")), None)
        run.require(d is not None, f"{fn}: dump call not found")
        extra = sorted({k.arg for k in d.keywords if k.arg} - allowed)
        (run.ok(G7, fn, f"dump options {sorted(k.arg for k in d.keywords if k.arg)}") if not extra else run.finding(G7, fn, f"dump-options:{extra}", f"{fn} passes {extra} to dump: values the validator accepts can now make serialisation raise after the file was opened with 'w', leaving a truncated configuration", f.loc))

    G5 = run.rule("G5", "the tool-config reader and writer branch on the same suffix sets", floor=1)
    rd, wr = repo.func("src.config._load_config_file"), repo.func("src.config._write_config_file")
    if any(is_call_named(n, "parse_config_file") for n in ast.walk(rd.node)):
        rd = repo.func("src.core.config_parser.parse_config_file")

    def expand(f, e):
        if isinstance(e, ast.Name):
            loc = [n.value for n in ast.walk(f.node) if isinstance(n, ast.Assign) and any(isinstance(t, ast.Name) and t.id == e.id for t in n.targets)]
            if loc:
                return expand(f, loc[-1])
        if isinstance(e, (ast.Tuple, ast.List, ast.Set)):
            out = set()
            for x in e.elts:
                out |= expand(f, x.value if isinstance(x, ast.Starred) else x)
            return out
        v = repo.fold(f.module, e)
        if isinstance(v, (tuple, list, set, frozenset)):
            return set(v)
        return {v} if v is not UNKNOWN else {"?"}

    def suff(f):
        out = set()
        for n in ast.walk(f.node):
            if isinstance(n, ast.Compare) and "suffix" in ast.unparse(n.left):
                out |= expand(f, n.comparators[0])
        return out
    a, b = suff(rd), suff(wr)
    (run.ok(G5, "suffix sets", f"{sorted(map(str, a))}") if a == b and a else run.finding(G5, "src.config", f"suffixes:{sorted(map(str, a ^ b))}", f"reader handles {sorted(map(str, a))} but writer handles {sorted(map(str, b))}: a saved file may not load back", rd.loc))
    return __doc__



def _is_find_of(v, cpar) -> bool:
    return isinstance(v, ast.Call) and call_name(v) == "find" and isinstance(v.func, ast.Attribute) and isinstance(v.func.value, ast.Name) and v.func.value.id == cpar
