"""C15 - each command reports only its own rules; rules fire only on their languages.

Decides (structure only):
 U1 apply each command's rule-id filter predicate to the emitted rule-id universe (constant propagation
    into every Violation construction); the selected set must equal the ids the command's own linter emits;
 U2 every concrete rule class is exported from its package __init__ (discovery imports direct sub-packages of
    src.linters only), is constructible without arguments, and rule ids are unique (registry keeps the first);
 U3 every rule's analysis is dominated by a language guard; detect_language lower-cases the suffix and maps
    the documented extensions; shebang detection recognises python;
 U4 no rule reads another linter's configuration section.
Not decided: behaviour of the analyzers on a file of another language once (wrongly) admitted.
"""

from __future__ import annotations

import ast

from .. import cfg, clifacts, inline
from .. import configfacts as CF
from ..facts import UNKNOWN, call_name, dotted, norm
from ..linters import Linters
from ..util import func_paths

# command -> rule classes that belong to that linter (frozen; reason = the command's own help text / docs page)
COMMAND_RULES = {
    "improper-logging": ["PrintStatementRule", "ConditionalVerboseRule"],
    "print-statements": ["PrintStatementRule", "ConditionalVerboseRule"],  # deprecated alias of improper-logging
    "method-property": ["MethodPropertyRule"],
    "stateless-class": ["StatelessClassRule"],
    "lazy-ignores": ["LazyIgnoresRule"],
    "lbyl": ["LBYLRule"],
    "magic-numbers": ["MagicNumberRule"],
    "stringly-typed": ["StringlyTypedRule"],
    "dry": ["DRYRule"],
    "file-header": ["FileHeaderRule"],
    "string-concat-loop": ["StringConcatLoopRule"],
    "regex-in-loop": ["RegexInLoopRule"],
    "perf": ["StringConcatLoopRule", "RegexInLoopRule"],
    "unwrap-abuse": ["UnwrapAbuseRule"],
    "clone-abuse": ["CloneAbuseRule"],
    "blocking-async": ["BlockingAsyncRule"],
    "file-placement": ["FilePlacementRule"],
    "pipeline": ["CollectionPipelineRule"],
    "nesting": ["NestingDepthRule"],
    "srp": ["SRPRule"],
}
SHARED_SECTIONS = {frozenset({"StringConcatLoopRule", "RegexInLoopRule"}), frozenset({"PrintStatementRule", "ConditionalVerboseRule"})}
LANGUAGE_AGNOSTIC = {"FilePlacementRule": "judges the file's path, not its source; the property restricts only language-specific linters"}
DOC_EXT = {".py": "python", ".ts": "typescript", ".tsx": "typescript", ".js": "javascript", ".jsx": "javascript", ".rs": "rust"}


def rule_ids(L: Linters, r) -> set[str]:
    """ids rule r can emit: literals and self.rule_id values at the construction sites it reaches."""
    reach = set(L.reach(r))
    out = set()
    for sk in L.sinks():
        if sk["caller"] not in reach:
            continue
        e = sk["args"].get("rule_id")
        vals = _vals_within(L, sk["caller"], e, reach, r)
        out |= {v for v in vals if isinstance(v, str)}
        if any(not isinstance(v, str) for v in vals):
            out.add("?")
    return out


def _vals_within(L: Linters, fq: str, e, reach: set, r, depth: int = 4) -> set:
    f = L.repo.funcs.get(fq)
    if e is None or f is None:
        return {UNKNOWN}
    v = L.repo.fold(f.module, e, f.cls)
    if v is not UNKNOWN:
        return {v}
    d = dotted(e)
    if d == "self.rule_id" and f.cls is not None and f.cls.qual in L.repo.mro(r.qual):
        return {r.rule_id}
    if depth <= 0:
        return {UNKNOWN}
    if d and d.startswith("self.") and f.cls is not None and "." not in d[5:]:
        # attribute set in __init__ from a parameter: follow constructor calls made from this rule only
        attr = d[5:]
        vals = set()
        for m in f.cls.methods.values():
            for n in ast.walk(m.node):
                if isinstance(n, ast.Assign) and any(isinstance(t, ast.Attribute) and isinstance(t.value, ast.Name) and t.value.id == "self" and t.attr == attr for t in n.targets):
                    vals |= _vals_within(L, m.qual, n.value, reach, r, depth - 1)
        return vals or {UNKNOWN}
    if isinstance(e, ast.Name):
        pn = [a.arg for a in f.node.args.args + f.node.args.kwonlyargs]
        if e.id in pn:
            vals = set()
            for s, call, ae in L.arg_exprs(fq, e.id):
                if s["caller"] not in reach:
                    continue
                if ae is None:
                    dflt = L.param_default(f, e.id)
                    vals |= _vals_within(L, fq, dflt, reach, r, 0) if dflt is not None else {UNKNOWN}
                else:
                    vals |= _vals_within(L, s["caller"], ae, reach, r, depth - 1)
            return vals or {UNKNOWN}
    return {UNKNOWN}


def check(run, ctx):
    repo = ctx.repo
    L = Linters(ctx)
    cmds = clifacts.commands(repo)
    run.require(len(cmds) >= 20 and len(L.rules) >= 20, "commands or rules missing")
    ids_by_rule = {r.short: rule_ids(L, r) for r in L.rules}
    universe = set().union(*ids_by_rule.values())
    run.extra["id_universe"] = sorted(universe)
    U1 = run.rule("U1", "a command's rule-id filter applied to the emitted id universe selects exactly the ids of its own linter", floor=20,
                  decides="`thailint X` prints only violations whose rule belongs to X, and all of them")
    for c in cmds:
        owners = COMMAND_RULES.get(c.name)
        if owners is None:
            run.finding(U1, c.name, "unknown-command", f"command {c.name!r} is not in the frozen command->linter table (new command: extend the table after reading it)", c.execute.loc)
            continue
        expected = set()
        for o in owners:
            run.require(o in ids_by_rule, f"rule class {o} not found")
            expected |= ids_by_rule[o]
        if "?" in expected or any(p[1].startswith("?") for p in c.preds):
            run.undecided(U1, c.name, "an emitted id or the filter constant is not a foldable constant")
            continue
        selected = {i for i in universe if all(clifacts.matches(p, i) for p in c.preds)}
        extra, missing = selected - expected, expected - selected
        if extra:
            run.finding(U1, c.name, f"selects-foreign:{sorted(extra)}", f"`thailint {c.name}` filter {c.preds} also selects {sorted(extra)} (another linter's rules)", c.execute.loc)
        if missing:
            run.finding(U1, c.name, f"drops-own:{sorted(missing)}", f"`thailint {c.name}` filter {c.preds} drops its own rule ids {sorted(missing)}", c.execute.loc)
        if not extra and not missing:
            run.ok(U1, c.name, f"{c.preds} selects {sorted(selected)}")

    U2 = run.rule("U2", "each concrete rule class is re-exported by src/linters/<pkg>/__init__.py, is constructible with no arguments, and its rule id is unique", floor=40)
    seen_ids = {}
    for r in L.rules:
        pkg = repo.mod(r.pkg)
        exported = any(repo._canon(q) == r.qual for q in pkg.imports.values())
        if exported:
            run.ok(U2, f"{r.short} export", f"imported in {pkg.rel}")
        else:
            run.finding(U2, r.short, "not-exported", f"{r.short} is not importable from {pkg.rel}: rule discovery only inspects direct sub-packages of src.linters, so the rule would never run", r.cls.loc)
        init = repo.find_method(r.qual, "__init__")
        if init is not None:
            a = init.node.args
            required = len(a.args) - 1 - len(a.defaults) + sum(1 for d in a.kw_defaults if d is None)
            if required > 0:
                run.finding(U2, r.short, "ctor-args", f"{r.short}.__init__ has {required} required parameter(s): rule_class() raises TypeError and discovery silently skips the rule", init.loc)
            else:
                run.ok(U2, f"{r.short} ctor", "no required parameters")
        if isinstance(r.rule_id, str):
            if r.rule_id in seen_ids:
                run.finding(U2, r.short, f"duplicate-id:{r.rule_id}", f"{r.short} and {seen_ids[r.rule_id]} share rule id {r.rule_id!r}: the registry keeps only the first", r.cls.loc)
            else:
                seen_ids[r.rule_id] = r.short
                run.ok(U2, f"{r.short} id", r.rule_id)
        else:
            run.undecided(U2, f"{r.short} id", "rule_id property is not a constant")

    U3 = run.rule("U3", "a language guard dominates every rule's analysis; detect_language lower-cases the suffix and maps the documented extensions; python shebang recognised", floor=20)
    seen_checks = set()
    for r in L.rules:
        f = r.check
        if f.qual in seen_checks:
            run.ok(U3, f"{r.short} guard", f"inherits {f.qual.rsplit('.', 2)[-2]}.check", nontrivial=False)
            continue
        seen_checks.add(f.qual)
        if r.short in LANGUAGE_AGNOSTIC:
            run.ok(U3, f"{r.short} guard", f"exempt: {LANGUAGE_AGNOSTIC[r.short]}", nontrivial=False)
            continue
        verdict = _language_guard(repo, L, r, f)
        if verdict is True:
            run.ok(U3, f"{r.short} guard", "every non-empty return of check() is preceded by a test on context.language")
        elif verdict is None:
            run.undecided(U3, f"{r.short} guard", "check() has too many paths")
        else:
            run.finding(U3, r.short, "no-language-guard", f"{f.qual}: a path returns analysis results without any test on context.language ({verdict})", f.loc)
    ld = repo.mod("src.orchestrator.language_detector")
    emap = repo.fold(ld, ld.assigns.get("EXTENSION_MAP"))
    run.require(isinstance(emap, dict), "EXTENSION_MAP not foldable")
    for ext, lang in DOC_EXT.items():
        if emap.get(ext) == lang:
            run.ok(U3, f"EXTENSION_MAP[{ext}]", lang)
        else:
            run.finding(U3, "EXTENSION_MAP", f"{ext}->{emap.get(ext)}", f"extension {ext} maps to {emap.get(ext)!r}, documentation says {lang}", ld.rel)
    dl = repo.func("src.orchestrator.language_detector.detect_language")
    lowered = any(isinstance(n, ast.Call) and call_name(n) in ("lower", "casefold") and "suffix" in ast.unparse(n) for n in ast.walk(dl.node))
    (run.ok(U3, "detect_language suffix.lower()") if lowered else run.finding(U3, "detect_language", "no-lower", "the suffix is not lower-cased before the EXTENSION_MAP lookup (upper-case extensions would be 'unknown')", dl.loc))
    sb = repo.func("src.orchestrator.language_detector._parse_shebang_language")
    # literals may be written in place or hoisted to module constants: compare folded values
    def fv_(e):
        v_ = repo.fold(sb.module, e)
        return v_ if isinstance(v_, str) else None
    ok = any(isinstance(n, ast.Compare) and len(n.ops) == 1 and isinstance(n.ops[0], ast.In) and fv_(n.left) == "python" for n in ast.walk(sb.node)) and any(isinstance(n, ast.Call) and call_name(n) == "startswith" and n.args and fv_(n.args[0]) == "#!" for n in ast.walk(sb.node))
    (run.ok(U3, "shebang python") if ok else run.finding(U3, "_parse_shebang_language", "shebang", "python shebang detection changed", sb.loc))
    # languages a dispatch compares against must be Language members
    lang_cls = repo.cls("src.core.constants.Language")
    lang_vals = {repo.fold(lang_cls.module, v, lang_cls) for v in lang_cls.assigns.values()}
    image = set(emap.values()) | {"python", "unknown"}
    base = repo.func("src.core.base.MultiLanguageLintRule._dispatch_by_language")
    disp = {}
    for n in ast.walk(base.node):
        if isinstance(n, ast.If):
            langs = set()
            for x in ast.walk(n.test):
                v = repo.fold(base.module, x, base.cls) if isinstance(x, (ast.Attribute, ast.Tuple)) else UNKNOWN
                if isinstance(v, str):
                    langs.add(v)
                elif isinstance(v, tuple):
                    langs |= {y for y in v if isinstance(y, str)}
            tgt = next((call_name(x) for s in n.body for x in ast.walk(s) if isinstance(x, ast.Call)), None)
            for l in langs:
                disp[l] = tgt
    want = {"python": "_check_python", "typescript": "_check_typescript", "javascript": "_check_typescript", "rust": "_check_rust"}
    for l, t in want.items():
        if disp.get(l) == t and l in image:
            run.ok(U3, f"dispatch {l}", f"-> {t}")
        else:
            run.finding(U3, "_dispatch_by_language", f"{l}->{disp.get(l)}", f"language {l!r} is dispatched to {disp.get(l)} (expected {t})", base.loc)
    extra = set(disp) - set(want)
    if extra:
        run.finding(U3, "_dispatch_by_language", f"extra:{sorted(extra)}", f"dispatch also admits {sorted(extra)}", base.loc)

    from . import shared

    U5 = run.rule("U5", "language detection is recomputed from the file: no functools cache sits on a function from which a file read is reachable", floor=1,
                  decides="a file whose first line changes is analysed as the language it has now, not the one it had at its first lint")
    recs = shared.cached_content_readers(ctx)
    bad = [r_ for r_ in recs if r_["reads"]]
    for r_ in bad:
        run.finding(U5, r_["func"], f"cached-reader:{r_['decorator']}", f"{r_['func']} is memoised with @{r_['decorator']} but its result depends on file content ({', '.join(r_['reads'][:2])}): the answer of the first call is frozen for the life of the process", r_["loc"])
    ds = repo.func("src.orchestrator.language_detector._detect_from_shebang")
    if not any(r_["func"].endswith("_detect_from_shebang") for r_ in bad):
        run.ok(U5, "language_detector._detect_from_shebang", f"not memoised (decorators: {ds.decorators or 'none'}); {len(recs)} cached functions in src, none reads files")

    U4 = run.rule("U4", "the configuration sections a rule reads are its own (no rule reads another linter's section)", floor=15)
    reads = {r.short: {k.key.replace("-", "_") for k in CF.section_key_reads(L, r) if not k.key.startswith("_") and k.key != "project_root"} for r in L.rules}
    for r in L.rules:
        mine = reads[r.short]
        clash = []
        for o in L.rules:
            if o.short == r.short or frozenset({o.short, r.short}) in SHARED_SECTIONS:
                continue
            common = mine & reads[o.short]
            if common:
                clash.append((o.short, sorted(common)))
        if clash:
            run.finding(U4, r.short, f"shares:{clash}", f"{r.short} reads configuration section(s) also read by {clash}", r.cls.loc)
        else:
            run.ok(U4, r.short, f"reads {sorted(mine) or 'no section'}", nontrivial=bool(mine))

    U7 = run.rule("U7", "a selector `f(language) -> X | None` returns something only for a language it positively recognised (== / in / table lookup); the fall-through path returns None", floor=1,
                  decides="a file of a language the linter does not support is not pushed through another language's analyzer")
    n_u7 = 0
    for f in sorted(repo.funcs.values(), key=lambda x: x.qual):
        if not f.module.name.startswith("src.linters.") or f.parent is not None:
            continue
        params = [a.arg for a in f.node.args.posonlyargs + f.node.args.args + f.node.args.kwonlyargs]
        ret = ast.unparse(f.node.returns) if f.node.returns is not None else ""
        if "language" not in params or "None" not in ret or ret.strip() == "None":
            continue
        paths = func_paths(f)
        if paths is None:
            continue
        n_u7 += 1
        bad = None
        for p_ in paths:
            t = p_[-1]
            if t[0] != "return" or t[1].value is None or (isinstance(t[1].value, ast.Constant) and t[1].value.value is None):
                continue
            rv = t[1].value
            lookup = any((isinstance(x, ast.Call) and call_name(x) == "get" and x.args and any(isinstance(y, ast.Name) and y.id == "language" for y in ast.walk(x.args[0])))
                         or (isinstance(x, ast.Subscript) and any(isinstance(y, ast.Name) and y.id == "language" for y in ast.walk(x.slice))) for x in ast.walk(rv))
            positive = any(ev[0] == "test" and ev[2] is True and any(isinstance(c_, ast.Compare) and isinstance(c_.ops[0], (ast.Eq, ast.In)) and any(isinstance(y, ast.Name) and y.id == "language" for y in ast.walk(c_.left)) for c_ in ast.walk(ev[1])) for ev in p_[:-1])
            if not lookup and not positive:
                bad = rv
        sym = f.qual.replace("src.", "", 1)
        if bad is not None:
            run.finding(U7, sym, f"default-analysis:{norm(bad)[:60]}", f"{f.qual} returns `{norm(bad)[:70]}` on the path where no test recognised the language: files of every other language (rust, java, go, unknown text files) are analysed with it", f.loc)
        else:
            run.ok(U7, sym, "non-None only after a positive language test or a table lookup")
    run.require(n_u7 >= 1, "no `f(language) -> X | None` selector found in src.linters")

    U6 = run.rule("U6", "shared helpers that take the caller's violation_builder return only violations built by that builder in that call (or none)", floor=1,
                  decides="a syntax-error notice carries the id of the rule that is running, so each command keeps its own notice and shows nobody else's")
    n_u6 = 0
    for f in sorted(repo.funcs.values(), key=lambda x: x.qual):
        if not f.module.name.startswith("src.core.") or f.parent is not None:
            continue
        params = [a.arg for a in f.node.args.args]
        if "violation_builder" not in params:
            continue
        n_u6 += 1
        built = {t.id for n in ast.walk(f.node) if isinstance(n, ast.Assign) and _built_by_param(n.value) for t in n.targets if isinstance(t, ast.Name)}
        # results of sibling helpers that are handed this call's builder
        built |= {el.id for n in ast.walk(f.node) if isinstance(n, ast.Assign) and isinstance(n.value, ast.Call) and any(isinstance(a, ast.Name) and a.id == "violation_builder" for a in n.value.args)
                  for t in n.targets for el in (t.elts if isinstance(t, ast.Tuple) else [t]) if isinstance(el, ast.Name)}
        trees = frozenset(t.id for n in ast.walk(f.node) if isinstance(n, ast.Assign) and isinstance(n.value, ast.Call) and call_name(n.value) == "parse" for t in n.targets if isinstance(t, ast.Name))
        bad = None
        for n in ast.walk(f.node):
            if not isinstance(n, ast.Return) or n.value is None:
                continue
            vals = n.value.elts if isinstance(n.value, ast.Tuple) else [n.value]
            for v in vals:
                if _violation_free(v, trees) or _built_by_param(v) or _all_names_in(v, built) or (isinstance(v, ast.Call) and not _mentions_storage(v)):
                    continue
                bad = (n, v)
        for n in ast.walk(f.node):   # anything written to / read from the context or another object is storage that outlives the call
            if isinstance(n, ast.Call) and call_name(n) in ("getattr", "setattr", "vars") or (isinstance(n, ast.Attribute) and n.attr == "__dict__"):
                bad = bad or (n, n)
        if bad:
            run.finding(U6, f.qual.replace("src.", "", 1), f"foreign-violations:{norm(bad[1])}", f"{f.qual} can return `{norm(bad[1])}`, which is not built by this call's violation_builder: a stored result carries the rule id of whichever rule parsed the file first, so one linter's syntax-error notice appears under (or disappears from) another's command", f"{f.module.rel}:{bad[0].lineno}")
        else:
            run.ok(U6, f.qual.replace("src.", "", 1), "every returned violation list is [] or built by violation_builder in this call")
    run.require(n_u6 >= 1, "no shared helper with a violation_builder parameter found in src.core")

    U8 = run.rule("U8", "the shebang decision looks at the first line of the file only: what reaches the `#!` / `python` tests is cut at the first line break", floor=1,
                  decides="a shell launcher (`#!/bin/sh` ... `exec python3 -m tool`) or any text that mentions python further down is not analysed as Python")
    rfl = repo.func_by_role("src.orchestrator.language_detector._read_first_line", "reads the beginning of the file for the shebang test",
                            lambda g: any(isinstance(n, ast.Call) and call_name(n) in ("read_text", "open", "read", "readline") for n in ast.walk(g.node)) and "shebang" not in g.name)
    cut = [n for n in inline.flat_nodes(repo, rfl) if (isinstance(n, ast.Subscript) and isinstance(repo.fold(rfl.module, n.slice), int) and repo.fold(rfl.module, n.slice) == 0 and isinstance(n.value, ast.Call) and call_name(n.value) in ("split", "splitlines", "partition"))
           or (isinstance(n, ast.Call) and call_name(n) in ("readline",)) or (isinstance(n, ast.Call) and call_name(n) == "next")]
    if cut:
        run.ok(U8, rfl.name, f"first line taken by `{norm(cut[0])[:50]}`")
    else:
        rets = [r.value for r in ast.walk(rfl.node) if isinstance(r, ast.Return) and r.value is not None]
        run.finding(U8, rfl.name, f"not-cut-at-line-break:{norm(rets[0])[:50] if rets else '?'}", f"{rfl.name} returns `{norm(rets[0])[:70] if rets else '?'}` without cutting at the first line break: the `python` test of the shebang parser then sees text from later lines, so a non-Python script that mentions python early is analysed as Python (syntax-error and header findings on a file type no rule supports)", rfl.loc)
    # ... and the whole first line: a size-bounded read cuts a long interpreter path before the word the parser looks for
    bounded = [n for n in inline.flat_nodes(repo, rfl) if isinstance(n, ast.Call) and call_name(n) in ("readline", "read", "readlines") and (n.args or n.keywords)
               and not (n.args and isinstance(repo.fold(rfl.module, n.args[0]), int) and repo.fold(rfl.module, n.args[0]) < 0)]
    sliced = [n for n in inline.flat_nodes(repo, rfl) if isinstance(n, ast.Subscript) and isinstance(n.slice, ast.Slice) and n.slice.upper is not None]
    if bounded or sliced:
        b = (bounded or sliced)[0]
        run.finding(U8, rfl.name, f"bounded-read:{norm(b)[:50]}", f"{rfl.name} reads at most a fixed number of characters (`{norm(b)[:60]}`): a shebang whose interpreter path is longer (virtualenv entry points: `#!/home/.../.venv/bin/python3.12`) is cut before the word `python`, so the script is classified unknown and no rule analyses it", rfl.loc)
    else:
        run.ok(U8, f"{rfl.name} length", "the first line is read whole (no size-bounded read or slice)")
    return __doc__


def _built_by_param(v) -> bool:
    if isinstance(v, ast.List):
        return bool(v.elts) and all(_built_by_param(e) for e in v.elts)
    return isinstance(v, ast.Call) and isinstance(v.func, ast.Attribute) and isinstance(v.func.value, ast.Name) and v.func.value.id == "violation_builder"


def _violation_free(v, trees=frozenset()) -> bool:
    """[] / None / the parse tree itself (a local bound to the result of ast.parse) - nothing that could carry violations"""
    return (isinstance(v, ast.List) and not v.elts) or (isinstance(v, ast.Constant) and v.value is None) or (isinstance(v, ast.Name) and v.id in trees)


def _all_names_in(v, built) -> bool:
    names = [x.id for x in ast.walk(v) if isinstance(x, ast.Name)]
    return bool(names) and isinstance(v, (ast.Name, ast.List)) and all(nm in built for nm in names)


def _mentions_storage(v) -> bool:
    return any(isinstance(x, ast.Subscript) or (isinstance(x, ast.Attribute) and x.attr.startswith("_")) for x in ast.walk(v))


def _language_guard(repo, L, r, f):
    paths = func_paths(f)
    if paths is None:
        return None

    def mentions_language(e: ast.AST, depth: int = 2) -> bool:
        for n in ast.walk(e):
            if isinstance(n, ast.Attribute) and n.attr == "language":
                return True
            if isinstance(n, ast.Call) and isinstance(n.func, ast.Attribute) and isinstance(n.func.value, ast.Name) and n.func.value.id == "self" and depth > 0:
                g = repo.find_method(r.qual, n.func.attr)
                if g is not None and any(isinstance(x, ast.Attribute) and x.attr == "language" for x in ast.walk(g.node)):
                    return True
        return False

    for p in paths:
        t = p[-1]
        if not cfg.path_returns_nonempty(p):
            continue
        ok = False
        for ev in p[:-1]:
            if ev[0] == "test" and mentions_language(ev[1]):
                ok = True
        # the returned call itself dispatches on language (multi-language template / parser table)
        if not ok and mentions_language(t[1].value, depth=2):
            ok = True
        if not ok:
            return norm(t[1])
    return True
