"""C11 - no input makes a linter crash, hang, or silently drop its analysis.

Decides (structure only):
 E1 ValueError escape: _safe_check_rule re-raises ValueError (-> exit 2), so every call reachable from a rule to an
    API that raises ValueError (or a subclass) on data - int(), float(), .index(), relative_to(), .decode(),
    json.loads() - is under a handler or is one of the enumerated safe idioms;
 E2 every ast.parse reachable from a rule is under `except SyntaxError`;
 E3 the broad swallow sites (`except Exception`, bare except, suppress(Exception)) reachable from rules are exactly the
    frozen table;
 E4 unbounded recursion: functions that recurse over a syntax tree's children with no depth bound and no
    RecursionError handler - a deep or long expression makes the rule fail inside _safe_check_rule's swallow;
 E6 results of helpers that may return None are tested before they are dereferenced;
 E7 every read of a linted file's bytes handles both UnicodeDecodeError and OSError;
 E5 regex back-tracking: no constant pattern has ambiguity degree >= 3 (adjacent overlapping unbounded repeats) or a
    nested unbounded repeat (analysis of the regex AST, tlsa/regexes.py);
 E8 Optional discipline at large: mypy (library run that also builds the call graph) reports no None/Optional misuse;
 E9 text written to the SQLite stores is bound under a UnicodeError handler or re-encoded (lone surrogates, non-UTF-8 names);
 E10 a literal's integer value is rendered as decimal text only under a ValueError handler (4300-digit limit).
Not decided: termination in general (only the three structural sources above: recursion depth, regex ambiguity,
and nothing about algorithmic cost - e.g. the >10 min nesting run on a 1.2 MB one-line array is out of reach).
"""

from __future__ import annotations

import ast

from ..facts import argv, call_name, dotted, norm
from ..linters import Linters
from ..util import contains, handler_names, handlers_covering, is_call_named, is_caught

ORCH = "src.orchestrator.core"
VALUE_ERROR_APIS = {"builtins.int", "builtins.float", "builtins.str.index", "builtins.list.index", "builtins.tuple.index", "pathlib.PurePath.relative_to", "pathlib.Path.relative_to",
                    "builtins.bytes.decode", "json.loads", "json.load", "builtins.bytes.index", "builtins.str.rindex"}
# broad handlers reachable from rule code today (function -> why it is tolerated / what it hides); confirmed by reading
SWALLOW_TABLE = {
    # scope (class or module; private function names may change) -> why the single broad handler there is tolerated
    "src.linters.file_header.markdown_parser.MarkdownHeaderParser.": "malformed YAML front matter falls back to the simple key: value parser",
    "src.linters.dry.typescript_constant_extractor.": "tree-sitter parse failure while extracting constants -> no constants for that file (best-effort side analysis)",
    "src.linters.file_placement.linter.FilePlacementRule.": "layout file unreadable -> no rules (reported under C05-K10 / C18-V3)",
}


def _swallow_reason(fq: str):
    hits = [(k, v) for k, v in SWALLOW_TABLE.items() if fq.startswith(k)]
    return hits[0] if hits else None


def check(run, ctx):
    repo, cg = ctx.repo, ctx.cg
    L = Linters(ctx)
    roots = []
    for r in L.rules:
        roots += L.rule_roots(r)
    pr = cg.reach(roots)
    run.require(len(pr) > 800, f"only {len(pr)} functions reachable from rules")
    rule_funcs = sorted(q for q in pr if q in repo.funcs)

    E1 = run.rule("E1", "calls reachable from rules to ValueError-raising APIs are under a handler or a safe idiom (sub-in-s before s.index(sub); decode of tree-sitter node text; json of rows the tool stored itself; config readers)", floor=20,
                  decides="no input turns into the exit-2 path that _safe_check_rule reserves for configuration errors")
    scr = repo.func_by_role(f"{ORCH}.Orchestrator._safe_check_rule", "the Orchestrator method that calls rule.check(context) under its try/except",
                            lambda g: any(isinstance(n, ast.Try) for n in ast.walk(g.node)) and any(is_call_named(n, "check") for n in ast.walk(g.node)))
    tr = next((n for n in ast.walk(scr.node) if isinstance(n, ast.Try)), None)
    run.require(tr is not None and len(tr.handlers) >= 2, "_safe_check_rule: handlers vanished")
    last = tr.handlers[-1]
    if handler_names(last) & {"Exception"} and any(isinstance(s, ast.Return) for s in last.body) and any(is_call_named(n, "exception", "error", "warning") for n in ast.walk(last)):
        run.ok(E1, "_safe_check_rule generic handler", "other exceptions are logged and the rule yields []")
    else:
        run.finding(E1, "_safe_check_rule", "generic-handler", "_safe_check_rule no longer contains a rule's unexpected exception", scr.loc)
    # each rule is protected on its own: the try that contains rule.check(...) does not also contain the loop over the rules
    chk = next((n for n in ast.walk(scr.node) if is_call_named(n, "check")), None)
    cut = None
    if chk is not None:
        for t_ in [n for n in ast.walk(scr.node) if isinstance(n, ast.Try) and any(x is chk for b_ in n.body for x in ast.walk(b_))]:
            for lp in [n for b_ in t_.body for n in ast.walk(b_) if isinstance(n, (ast.For, ast.While, ast.ListComp, ast.GeneratorExp))]:
                if any(x is chk for x in ast.walk(lp)):
                    cut = lp
    if cut is not None:
        run.finding(E1, scr.name, f"rule-loop-cut:{norm(cut)[:50]}", f"{scr.name}: the try/except that contains rule.check() also contains the loop over the rules (`{norm(cut)[:60]}`): the first rule that raises ends the loop, and every rule after it silently reports nothing for that file", scr.loc)
    else:
        run.ok(E1, f"{scr.name} per-rule protection", "one try per rule: a failing rule does not stop the others")
    for fq in rule_funcs:
        f = repo.funcs[fq]
        for s in cg.out.get(fq, ()):
            if s["kind"] != "call":
                continue
            hit = [x for x in s["callees"] if (x[4:] if x.startswith("new:") else x) in VALUE_ERROR_APIS]
            if not hit:
                continue
            call = L.idx.call_at(s["module"], s["span"])
            if call is None:
                continue
            api = hit[0][4:] if hit[0].startswith("new:") else hit[0]
            if api in ("builtins.int", "builtins.float") and (not call.args or isinstance(call.args[0], ast.Constant)):
                continue
            if api in ("builtins.int", "builtins.float") and str(s["argtypes"].get(0, "")).replace("builtins.", "") in ("int", "float", "bool"):
                continue  # numeric argument: cannot raise ValueError
            sym = f"{fq.replace('src.', '', 1)}:{norm(call)[:60]}"
            loc = f"{f.module.rel}:{call.lineno}"
            if is_caught(f.node, call, "ValueError"):
                run.ok(E1, sym, "under a ValueError handler")
                continue
            idiom = _safe_idiom(f, call, api)
            if idiom:
                run.ok(E1, sym, f"safe idiom: {idiom}")
            else:
                run.finding(E1, fq.replace("src.", "", 1), f"unguarded:{norm(call)[:80]}", f"{norm(call)} can raise ValueError on file data outside any handler; _safe_check_rule re-raises ValueError, so the whole run ends with exit 2", loc)

    E2 = run.rule("E2", "every ast.parse reachable from a rule is under `except SyntaxError`", floor=15)
    for fq in rule_funcs:
        f = repo.funcs[fq]
        for c in ast.walk(f.node):
            if isinstance(c, ast.Call) and dotted(c.func) == "ast.parse":
                sym = fq.replace("src.", "", 1)
                if is_caught(f.node, c, "SyntaxError"):
                    run.ok(E2, sym, "except SyntaxError")
                else:
                    # a caller may hold the handler (parse helper called under try)
                    callers = [s for s in cg.inn.get(fq, ()) if s["kind"] == "call" and s["caller"] in pr]
                    held = callers and all(_site_caught(repo, L, s, "SyntaxError") for s in callers)
                    if held:
                        run.ok(E2, sym, "every caller wraps it in except SyntaxError")
                    else:
                        run.finding(E2, sym, "unguarded-ast.parse", f"{fq}: ast.parse is not under `except SyntaxError`: a syntactically broken file makes the rule fail (swallowed by the orchestrator, analysis dropped silently)", f"{f.module.rel}:{c.lineno}")

    E3 = run.rule("E3", "broad exception swallowing reachable from rule code is exactly the frozen table", floor=3,
                  decides="no analysis is abandoned through a newly swallowed exception")
    found = {}
    for fq in rule_funcs:
        f = repo.funcs[fq]
        for n in ast.walk(f.node):
            broad = None
            if isinstance(n, ast.ExceptHandler) and (n.type is None or handler_names(n) & {"Exception", "BaseException"}):
                if not any(isinstance(s, ast.Raise) for s in ast.walk(n)):
                    broad = f"except {sorted(handler_names(n))}"
            if isinstance(n, (ast.With, ast.AsyncWith)):
                for it in n.items:
                    c = it.context_expr
                    if isinstance(c, ast.Call) and call_name(c) == "suppress" and any(dotted(a) in ("Exception", "BaseException") for a in c.args):
                        broad = "suppress(Exception)"
            if broad:
                found[fq] = (broad, f"{f.module.rel}:{n.lineno}")
    per_scope: dict[str, int] = {}
    for fq, (broad, loc) in sorted(found.items()):
        hit = _swallow_reason(fq)
        if hit is not None:
            per_scope[hit[0]] = per_scope.get(hit[0], 0) + 1
        if hit is not None and per_scope[hit[0]] == 1:   # one tolerated site per scope; a second broad handler there is new
            run.ok(E3, fq.replace("src.", "", 1), f"{broad}: {hit[1]}", nontrivial=False)
        else:
            run.finding(E3, fq.replace("src.", "", 1), f"new-swallow:{broad}", f"{fq} swallows every exception ({broad}): an internal failure on some input silently drops that analysis", loc)
    for fq in SWALLOW_TABLE:
        if not any(q.startswith(fq) for q in found):
            run.ok(E3, fq.replace("src.", "", 1), "frozen swallow site no longer present (table can be trimmed)", nontrivial=False)
    orch_sw = []
    f = repo.func_by_role(f"{ORCH}.Orchestrator._safe_check_rule", "the Orchestrator method that calls rule.check(context) under its try/except",
                            lambda g: any(isinstance(n, ast.Try) for n in ast.walk(g.node)) and any(is_call_named(n, "check") for n in ast.walk(g.node)))
    orch_sw.append(f.name)
    f = repo.func_by_role(f"{ORCH}.Orchestrator._extract_violations_from_future", "turns one worker future into violations (future.result() -> Violation.from_dict)",
                          lambda g: any(is_call_named(n, "result") for n in ast.walk(g.node)) and any(is_call_named(n, "from_dict") for n in ast.walk(g.node)))
    orch_sw.append(f.name)
    run.ok(E3, "orchestrator swallow sites", f"{orch_sw} + _lint_file_worker (their effect is decided under E1/C05-K6/C07-P4)", nontrivial=False)

    E4 = run.rule("E4", "tree walkers reachable from rules that recurse on child nodes have a depth bound or a RecursionError handler", floor=20,
                  decides="a deeply nested or very long expression does not make a rule fail internally")
    for fq in rule_funcs:
        f = repo.funcs[fq]
        if f.parent is not None:
            continue
        rec = _self_recursion_over_children(repo, cg, f)
        if not rec:
            continue
        sym = fq.replace("src.", "", 1)
        bounded = any(isinstance(a, ast.arg) and ("depth" in a.arg and a.arg != "current_depth") for a in f.node.args.args) and any(isinstance(n, ast.Compare) and "depth" in ast.unparse(n) and any(isinstance(c, ast.Constant) or "max" in ast.unparse(c).lower() for c in n.comparators) for n in ast.walk(f.node))
        handled = any(isinstance(n, ast.ExceptHandler) and handler_names(n) & {"RecursionError", "RuntimeError"} for n in ast.walk(f.node))
        if bounded or handled:
            run.ok(E4, sym, "depth-bounded or RecursionError handled")
        else:
            run.finding(E4, sym, "unbounded-recursion", f"{fq} recurses on {rec} with no depth bound: an expression nested/chained deeper than the interpreter's recursion limit raises RecursionError, which _safe_check_rule swallows - the rule's analysis of that file is dropped without a trace in the output", f.loc)

    E6 = run.rule("E6", "Optional discipline for tree lookups: a local bound to the result of a helper that may return None is tested (is None / truthiness) before an attribute of it is used", floor=12,
                  decides="truncated or syntactically damaged files (missing bodies, missing children) do not make a rule fail internally")
    def may_return_none(g):
        ann = ast.unparse(g.node.returns) if g.node.returns is not None else ""
        if "None" in ann and ann != "None":
            return True
        if ann in ("Any", ""):
            return any(isinstance(n, ast.Return) and (n.value is None or (isinstance(n.value, ast.Constant) and n.value.value is None)) for n in ast.walk(g.node))
        return False
    for fq in rule_funcs:
        f = repo.funcs[fq]
        if f.parent is not None or not f.module.name.startswith(("src.linters", "src.analyzers")):
            continue
        for n in ast.walk(f.node):
            if not (isinstance(n, ast.Assign) and len(n.targets) == 1 and isinstance(n.targets[0], ast.Name) and isinstance(n.value, ast.Call)):
                continue
            site = cg.site_at(f.module.name, n.value.lineno, n.value.col_offset)
            if site is None:
                continue
            gs = [repo.funcs.get(x) for x in site["callees"]]
            gs = [g for g in gs if g is not None]
            if not gs or not all(may_return_none(g) for g in gs):
                continue
            var = n.targets[0].id
            derefs = [x for x in ast.walk(f.node) if isinstance(x, ast.Attribute) and isinstance(x.value, ast.Name) and x.value.id == var and x.lineno > n.lineno]
            if not derefs:
                continue
            guarded = any(isinstance(x, (ast.If, ast.IfExp, ast.Assert, ast.While)) and any(isinstance(y, ast.Name) and y.id == var for y in ast.walk(x.test)) for x in ast.walk(f.node)) or any(isinstance(x, ast.BoolOp) and any(isinstance(y, ast.Name) and y.id == var for y in x.values) for x in ast.walk(f.node)) or any(isinstance(x, ast.comprehension) and any(isinstance(y, ast.Name) and y.id == var for c_ in x.ifs for y in ast.walk(c_)) for x in ast.walk(f.node))
            sym = f"{fq.replace('src.', '', 1)}:{var}"
            if guarded:
                run.ok(E6, sym, f"{var} = {norm(n.value)[:50]} is tested before use")
            else:
                run.finding(E6, fq.replace("src.", "", 1), f"unchecked-optional:{var}={norm(n.value)[:60]}", f"{fq}: `{var} = {norm(n.value)}` may be None (the helper returns None when the child is missing) but `{norm(derefs[0])}` is used without any test: on truncated or damaged source the rule raises AttributeError, which the orchestrator swallows - the file's analysis is dropped", f"{f.module.rel}:{derefs[0].lineno}")

    E7 = run.rule("E7", "reads of linted files reachable from rules/orchestrator handle UnicodeDecodeError and OSError", floor=3)
    lint_roots = roots + [f"{ORCH}.Orchestrator.lint_file", f"{ORCH}.FileLintContext.file_content"]
    pr2 = cg.reach(lint_roots)
    for fq in sorted(q for q in pr2 if q in repo.funcs):
        f = repo.funcs[fq]
        if "config" in f.module.name or "config" in f.name or "layout" in f.name or "ignore" in f.name and "thailintignore" in ast.unparse(f.node):
            continue
        for c in ast.walk(f.node):
            if isinstance(c, ast.Call) and (call_name(c) in ("read_text", "read_bytes") or (call_name(c) in ("read", "readline", "readlines") and isinstance(c.func, ast.Attribute) and any(isinstance(w_, (ast.With, ast.AsyncWith)) and any(isinstance(i_.context_expr, ast.Call) and call_name(i_.context_expr) == "open" for i_ in w_.items) for w_ in ast.walk(f.node)))):
                sym = fq.replace("src.", "", 1)
                u, o = is_caught(f.node, c, "UnicodeDecodeError"), is_caught(f.node, c, "OSError")
                if not (u and o):
                    callers = [s for s in cg.inn.get(fq, ()) if s["kind"] == "call" and s["caller"] in pr2]
                    u = u or (callers and all(_site_caught(repo, L, s, "UnicodeDecodeError") for s in callers))
                    o = o or (callers and all(_site_caught(repo, L, s, "OSError") for s in callers))
                if u and o:
                    run.ok(E7, sym, "UnicodeDecodeError and OSError handled")
                else:
                    run.finding(E7, sym, f"unhandled:{'UnicodeDecodeError' if not u else ''}{'OSError' if not o else ''}", f"{fq}: {norm(c)} on a linted file is not protected against {'UnicodeDecodeError ' if not u else ''}{'OSError' if not o else ''}: binary or unreadable files make the run fail", f"{f.module.rel}:{c.lineno}")
    E5 = run.rule("E5", "no regular expression of src has three or more adjacent unbounded repeats over a common character before a required item, nor an unbounded repeat nested in one (regex ASTs from re._parser)", floor=40,
                  decides="matching cannot take cubic or exponential time in the length of a file, a comment or a line")
    from .. import regexes as RX

    for p_ in RX.patterns_in(repo):
        sym = f"{p_['module'].name.replace('src.', '', 1)}:{p_['expr']}"
        if p_["pattern"] is None:
            run.ok(E5, sym, "pattern is not a constant (built from configuration or escaped text): not analysed", nontrivial=False)
            continue
        res = RX.analyse(p_["pattern"], p_["flags"] or 0)
        if res is None:
            run.ok(E5, sym, "pattern does not parse", nontrivial=False)
        elif res[0] >= 3:
            run.finding(E5, p_["module"].name.replace("src.", "", 1), f"regex-degree-{res[0]}:{p_['pattern'][:60]}", f"{p_['pattern']!r}: {res[1]}: on a long run of that character followed by a mismatch the matcher tries every split ({'exponentially many' if res[0] >= 99 else 'n^' + str(res[0])} steps) - a few thousand characters stall the run", f"{p_['module'].rel}:{p_['line']}")
        else:
            run.ok(E5, sym, f"ambiguity degree {res[0]}")

    E9 = run.rule("E9", "text written to a store as an SQL parameter (str taken from source literals or paths) is under a UnicodeError/ValueError handler or made encodable first", floor=5,
                  decides="a lone surrogate in a string literal ('\\ud800') or a non-UTF-8 file name cannot raise UnicodeEncodeError (a ValueError) out of a rule and end every command with exit 2")
    for fq in rule_funcs + [q for q in sorted(repo.funcs) if q.startswith(("src.linters.dry.cache", "src.linters.stringly_typed.storage")) and q not in rule_funcs]:
        f = repo.funcs[fq]
        for s_ in cg.out.get(fq, ()):
            if s_["kind"] != "call" or s_["name"] not in ("execute", "executemany") or not any("sqlite3" in c_ for c_ in s_["callees"]):
                continue
            pt = str(s_["argtypes"].get(1, ""))
            if "str" not in pt:
                continue
            call = L.idx.call_at(s_["module"], s_["span"])
            if call is None or not call.args:
                continue
            sql_v = repo.fold(f.module, call.args[0], f.cls)   # the statement, written in place or hoisted to a constant
            sql = " ".join(sql_v.split()) if isinstance(sql_v, str) else " ".join(str(s_["argtypes"].get(0, "")).split()).replace("Literal['", "")
            if not sql.upper().startswith(("INSERT", "REPLACE", "UPDATE")):
                continue  # look-ups bind names that were stored before (the insert would have failed first)
            sym = f"{fq.replace('src.', '', 1)}:{sql[:36]}"
            if is_caught(f.node, call, "ValueError") or is_caught(f.node, call, "UnicodeEncodeError"):
                run.ok(E9, sym, "under a ValueError/UnicodeError handler")
            elif any(is_call_named(n, "encode") and any(isinstance(k.value, ast.Constant) and k.value.value in ("replace", "backslashreplace", "surrogatepass", "surrogateescape", "ignore") for k in n.keywords) for n in ast.walk(f.node)):
                run.ok(E9, sym, "text is re-encoded with an error policy before binding")
            else:
                run.finding(E9, fq.replace("src.", "", 1), f"sql-text-binding:{pt[:60]}", f"{fq} binds {pt} with no handler: sqlite3 encodes str parameters as UTF-8 and raises UnicodeEncodeError (a ValueError) for a lone surrogate, which _safe_check_rule re-raises - one such string literal in one file ends every command with exit 2", f"{f.module.rel}:{call.lineno}")

    E11 = run.rule("E11", "next(<iterator>) over file-derived nodes carries a default (or runs under a StopIteration handler) in every function reachable from a rule", floor=5,
                   decides="a construct without the looked-for child (a method named by #private, a computed key or a string) does not raise StopIteration out of the rule, which the orchestrator would log and turn into 'no violations' for the whole file")
    for fq in rule_funcs:
        f = repo.funcs[fq]
        for c in ast.walk(f.node):
            if isinstance(c, ast.Call) and isinstance(c.func, ast.Name) and c.func.id == "next" and c.args:
                sym = f"{fq.replace('src.', '', 1)}:{norm(c)[:50]}"
                if len(c.args) >= 2 or is_caught(f.node, c, "StopIteration"):
                    run.ok(E11, sym, "has a default / is under a handler")
                else:
                    run.finding(E11, fq.replace("src.", "", 1), f"next-without-default:{norm(c.args[0])[:60]}", f"{fq}: `{norm(c)[:90]}` raises StopIteration when nothing matches; inside a rule that is an unexpected exception: _safe_check_rule logs it and the rule reports nothing at all for the file (every command logs the failure)", f"{f.module.rel}:{c.lineno}")
    E12 = run.rule("E12", "the shared tree-sitter parsers carry no time budget or cancellation: a parse either completes or raises for that input alone", floor=1,
                   decides="a large or pathological file is analysed (or fails) on its own: it is not silently skipped, and the module-level parser is not left in a resumable state that hands the NEXT file the previous file's tree")
    n_parsers = 0
    for m in sorted(repo.modules.values(), key=lambda x: x.name):
        if not m.name.startswith("src."):
            continue
        for n in ast.walk(m.tree):
            if isinstance(n, ast.Call) and call_name(n) == "Parser" and any(isinstance(x, ast.Call) and call_name(x) in ("Language", "language") or isinstance(x, ast.Name) for x in argv(n)):
                n_parsers += 1
            bad = None
            if isinstance(n, (ast.Assign, ast.AugAssign, ast.AnnAssign)):
                tg = n.targets[0] if isinstance(n, ast.Assign) else n.target
                if isinstance(tg, ast.Attribute) and tg.attr in ("timeout_micros", "included_ranges"):
                    bad = n
            elif isinstance(n, ast.Call) and call_name(n) in ("set_timeout_micros", "set_cancellation_flag", "set_included_ranges"):
                bad = n
            elif isinstance(n, ast.keyword) and n.arg in ("timeout_micros", "progress_callback"):
                bad = n.value
            if bad is not None:
                run.finding(E12, m.name.replace("src.", "", 1), f"parser-budget:{norm(bad)[:50]}", f"{m.name}: `{norm(bad)[:70]}` gives a shared parser a time budget / cancellation: when it is used up tree-sitter raises (or returns nothing) for that file - the rules then report nothing for it - and the next parse() on the same parser object resumes the interrupted parse instead of starting on the new source", f"{m.rel}:{getattr(bad, 'lineno', 0)}")
    run.ok(E12, "tree-sitter parsers", f"{n_parsers} Parser(...) constructions, none with a time budget")
    run.require(n_parsers >= 2, f"E12: only {n_parsers} tree-sitter Parser constructions found in src (rust_base and typescript_base confirmed)")
    E10 = run.rule("E10", "a numeric literal's value is rendered as decimal text (f-string, str(), format) only under a ValueError handler", floor=3,
                   decides="an integer literal of more than 4300 digits (written in hex/octal/binary) does not raise 'Exceeds the limit for integer string conversion' out of the magic-number rule")
    for f in sorted(repo.funcs_in("src.linters.magic_numbers."), key=lambda x: x.qual):
        vals = [a.arg for a in f.node.args.args + f.node.args.kwonlyargs if a.arg == "value" and a.annotation is not None and "int" in ast.unparse(a.annotation)]
        if not vals:
            continue
        uses = [n for n in ast.walk(f.node) if (isinstance(n, ast.FormattedValue) and isinstance(n.value, ast.Name) and n.value.id == "value")
                or (isinstance(n, ast.Call) and call_name(n) in ("str", "repr", "format") and n.args and isinstance(n.args[0], ast.Name) and n.args[0].id == "value")]
        # renderings on the not-an-int side of `... if isinstance(value, int) else ...` concern floats only (no digit limit)
        float_side = [x for n in ast.walk(f.node) if isinstance(n, (ast.IfExp, ast.If)) and is_call_named(n.test, "isinstance") and len(n.test.args) == 2 and ast.unparse(n.test.args[0]) == "value" and ast.unparse(n.test.args[1]) == "int"
                      for part in ([n.orelse] if isinstance(n, ast.IfExp) else n.orelse) for x in ast.walk(part)]
        uses = [u for u in uses if not any(u is x for x in float_side)]
        sym = f.qual.replace("src.", "", 1)
        if not uses:
            if any(isinstance(n, ast.JoinedStr) for n in ast.walk(f.node)):
                run.ok(E10, sym, "builds its message from a rendering obtained elsewhere (no direct str/f-string of the value)")
            continue
        if all(is_caught(f.node, u, "ValueError") for u in uses):
            run.ok(E10, sym, "rendered under a ValueError handler")
        else:
            run.finding(E10, sym, "int-to-decimal-text", f"{f.qual} interpolates the literal's value into the message: CPython refuses to convert an int of more than 4300 digits to decimal text (ValueError), and _safe_check_rule re-raises ValueError - a huge hex literal ends the run with exit 2", f"{f.module.rel}:{uses[0].lineno}")

    E8 = run.rule("E8", "the type checker (mypy, run as a library over src while the call graph is built) reports no use of a possibly-None value: no diagnostic that names None / Optional", floor=1,
                  decides="an attribute or argument that is None for damaged input (SyntaxError.lineno, child_by_field_name, re.match) does not raise TypeError/AttributeError inside a rule, where _safe_check_rule would swallow it together with the rule's findings")
    import re as _re
    errs = cg.data.get("mypy_errors")
    run.require(errs is not None, "the call-graph cache carries no mypy diagnostics")
    none_errs = [e for e in errs if ": error:" in e and _re.search(r"\bNone\b|Optional", e)]
    for e in none_errs:
        m = _re.match(r"(?P<file>[^:]+):(?P<line>\d+)(?::\d+)?: error: (?P<msg>.*?)(?:\s+\[(?P<code>[\w-]+)\])?$", e)
        if not m:
            continue
        rel = m.group("file")
        ln = int(m.group("line"))
        owner = next((f for f in sorted(repo.funcs.values(), key=lambda x: -x.node.lineno) if f.module.rel == rel and f.node.lineno <= ln <= (f.node.end_lineno or f.node.lineno)), None)
        sym = owner.qual.replace("src.", "", 1) if owner else rel
        run.finding(E8, sym, f"{m.group('code')}:{m.group('msg')[:80]}", f"{sym}: mypy: {m.group('msg')} - the value can be None at run time; the resulting TypeError/AttributeError is swallowed by _safe_check_rule (or ends the run), so the file's findings are silently lost", f"{rel}:{ln}")
    run.ok(E8, "src", f"{len(errs)} mypy diagnostics over src, {len(none_errs)} about None/Optional")
    run.extra["functions_reachable_from_rules"] = len(rule_funcs)
    run.extra["call_resolution"] = f"{cg.n_resolved}/{cg.n_calls}"
    return __doc__


def _site_caught(repo, L, s, exc) -> bool:
    g = repo.funcs.get(s["caller"])
    call = L.idx.call_at(s["module"], s["span"])
    return g is not None and call is not None and is_caught(g.node, call, exc)


def _safe_idiom(f, call: ast.Call, api: str) -> str | None:
    txt = ast.unparse(call)
    if api == "builtins.bytes.decode":
        from ..util import expand_locals as _xl
        rv0 = _xl(f.node, call.func.value) if isinstance(call.func, ast.Attribute) else None
        # `t = node.text; if not t: ...; t.decode()` - the receiver is (a local bound to) the .text of a tree-sitter node
        bound_text = isinstance(call.func, ast.Attribute) and isinstance(call.func.value, ast.Name) and any(
            isinstance(a, (ast.Assign, ast.AnnAssign)) and isinstance(a.value, ast.Attribute) and a.value.attr == "text" and any(isinstance(t, ast.Name) and t.id == call.func.value.id for t in (a.targets if isinstance(a, ast.Assign) else [a.target]))
            for a in ast.walk(f.node))
        if (isinstance(rv0, ast.Attribute) and rv0.attr == "text") or bound_text:
            return "decode() of tree-sitter node text - the analyzer encoded the (already decoded) source to UTF-8 itself"
        rv = call.func.value if isinstance(call.func, ast.Attribute) else None
        if isinstance(rv, ast.Subscript) and isinstance(rv.slice, ast.Slice) and isinstance(rv.value, ast.Call) and call_name(rv.value) == "encode" and "start_byte" in ast.unparse(rv.slice):
            return "decode() of a node-boundary slice of the re-encoded source (the text was decoded from UTF-8 before; node boundaries are character boundaries)"
    if api.endswith(".index") or api.endswith(".rindex"):
        if isinstance(call.func, ast.Attribute) and call.args:
            recv, sub = ast.unparse(call.func.value), ast.unparse(call.args[0])
            for n in ast.walk(f.node):
                if isinstance(n, ast.If) and any(c is call for b in n.body for c in ast.walk(b)):
                    for t in ast.walk(n.test):
                        if isinstance(t, ast.Compare) and isinstance(t.ops[0], ast.In) and ast.unparse(t.left) == sub and ast.unparse(t.comparators[0]) == recv:
                            return f"guarded by `{sub} in {recv}`"
    if api in ("json.loads", "json.load"):
        a0 = call.args[0] if call.args else None
        if isinstance(a0, ast.Subscript) and isinstance(a0.value, ast.Name) and "sqlite3" in f.module.imports:
            return "json of a column of a database row the tool serialised itself (sqlite store module)"
        if "config" in f.module.name or "config" in f.name or "layout" in f.name:
            return "configuration reader: a parse error is a configuration error (exit 2 is the documented outcome)"
    return None


def _self_recursion_over_children(repo, cg, f):
    """'node.children' / 'ast.iter_child_nodes' when f calls itself (directly) on a child of its node parameter."""
    self_calls = []
    for n in ast.walk(f.node):
        if isinstance(n, ast.Call):
            nm = call_name(n)
            if nm == f.name and ((isinstance(n.func, ast.Attribute) and isinstance(n.func.value, ast.Name) and n.func.value.id in ("self", "cls")) or isinstance(n.func, ast.Name)):
                self_calls.append(n)
            if nm == "generic_visit" and f.name.startswith("visit_"):
                return "generic_visit (ast.NodeVisitor recursion)"
    if not self_calls:
        return None
    src = ast.unparse(f.node)
    for marker in (".children", "iter_child_nodes", ".named_children", ".body", ".orelse", ".values", ".elts", ".parent"):
        if marker in src:
            return marker.strip(".")
    return None
