"""C06 - exit code and text/JSON/SARIF renderings agree with the violations found.

Decides (structure only):
 X1 every _execute_* tail is format_violations(V, fmt) immediately followed by sys.exit(1 if V else 0)
    on the same binding V, and V is the rule-id-filtered list;
 X2 linter-command modules exit only with 0/1/2; every command body runs under
    `except Exception -> handle_linting_error -> sys.exit(2)`; SystemExit is never caught;
 X3 the three renderers iterate the one list unfiltered, JSON total = len(list), SARIF rules and results derive
    from the same list, startColumn = column + 1, startLine = line; format_violations maps the --format choices;
 X4 every line reaching a Violation is a constant >= 1, a parser line, or `x or k` with k >= 1; columns >= 0;
 X5 every file_path reaching a Violation has static type str;
 X6 JSON and text sanitise the same fields; JSON/SARIF emitted through json.dumps with ensure_ascii.
Not decided: byte-level well-formedness for arbitrary message content.
"""

from __future__ import annotations

import ast

from .. import clifacts
from .. import inline
from ..facts import UNKNOWN, call_name, dotted, norm
from ..linters import Linters, leaf_exprs
from ..util import is_call_named, handlers_covering, handler_names

CLI_UTILS = "src.core.cli_utils"
SARIF = "src.formatters.sarif.SarifFormatter"


def check(run, ctx):
    repo = ctx.repo
    cmds = clifacts.commands(repo)
    run.require(len(cmds) >= 20, f"only {len(cmds)} linter commands found")
    X1 = run.rule("X1", "each _execute_* ends with format_violations(V, fmt); sys.exit(1 if V else 0) on the same, filtered V", floor=19,
                  decides="exit 0 exactly when nothing is rendered, 1 exactly when something is")
    seen = set()
    for c in cmds:
        if c.execute.qual in seen:
            continue
        seen.add(c.execute.qual)
        if not c.tail_ok:
            run.finding(X1, c.execute.name, "tail", f"{c.execute.name}: {c.tail_note}", c.execute.loc)
            continue
        if not c.preds:
            run.finding(X1, c.execute.name, "unfiltered", f"{c.execute.name}: the rendered list is not filtered by rule id", c.execute.loc)
            continue
        # format arg is the format parameter
        fv = next(n for n in ast.walk(c.execute.node) if isinstance(n, ast.Call) and call_name(n) == "format_violations")
        fa = ast.unparse(fv.args[1]) if len(fv.args) > 1 else ""
        if fa not in ("format", "params.format"):
            run.finding(X1, c.execute.name, "format-arg", f"{c.execute.name}: format_violations is given {fa!r}, not the --format value", c.execute.loc)
            continue
        run.ok(X1, c.execute.name, c.tail_note)

    X2 = run.rule("X2", "exit statuses in linter-command modules are 0/1/2 only; every command entry funnels exceptions to handle_linting_error (exit 2); SystemExit/BaseException is never caught in src/cli", floor=25)
    for m in repo.modules_in("src.cli"):
        for n in ast.walk(m.tree):
            if isinstance(n, ast.Call) and dotted(n.func) == "sys.exit":
                a = n.args[0] if n.args else None
                vals = _exit_values(a)
                if vals is None or not vals <= {0, 1, 2}:
                    run.finding(X2, m.name, f"exit:{norm(n)}", f"{m.rel}:{n.lineno} exits with {norm(n)} (statuses must be 0, 1 or 2)", f"{m.rel}:{n.lineno}")
                else:
                    run.ok(X2, f"{m.name}:{norm(n)}", "status in {0,1,2}", nontrivial=False)
            if isinstance(n, ast.ExceptHandler):
                hn = handler_names(n)
                if hn & {"SystemExit", "BaseException"}:
                    run.finding(X2, m.name, f"catches:{sorted(hn)}", f"{m.rel}:{n.lineno} catches {sorted(hn)}: sys.exit from a command tail would be swallowed", f"{m.rel}:{n.lineno}")
    hle = repo.func("src.cli.utils.handle_linting_error")
    ex = [n for n in ast.walk(hle.node) if isinstance(n, ast.Call) and dotted(n.func) == "sys.exit"]
    leaves = [n for n in ast.walk(hle.node) if isinstance(n, (ast.Raise, ast.Return)) or (isinstance(n, ast.Call) and dotted(n.func) in ("os._exit", "exit", "quit", "ctx.exit"))]
    if leaves:
        run.finding(X2, "handle_linting_error", f"other-exit:{norm(leaves[0])}", f"handle_linting_error can be left through `{norm(leaves[0])}` before sys.exit(2): the error then ends the process with another status (an uncaught exception exits 1, the 'violations found' code)", f"{hle.module.rel}:{leaves[0].lineno}")
    elif len(ex) == 1 and isinstance(ex[0].args[0], ast.Constant) and ex[0].args[0].value == 2 and isinstance(hle.node.body[-1], ast.Expr) and hle.node.body[-1].value is ex[0]:
        run.ok(X2, "handle_linting_error", "every path ends with sys.exit(2): no raise/return/other exit before the final statement")
    else:
        run.finding(X2, "handle_linting_error", "exit2", "handle_linting_error does not end with sys.exit(2)", hle.loc)
    rlc = repo.func("src.cli.linters.shared.run_linter_command")
    _check_wrapped(run, X2, rlc, "execute_fn")
    for c in cmds:
        if c.entry is None:
            continue
        _check_wrapped(run, X2, c.entry, c.execute.name)
    clc = repo.func("src.cli.linters.shared.create_linter_command")
    inner = [n for n in ast.walk(clc.node) if isinstance(n, ast.Call) and call_name(n) == "run_linter_command"]
    (run.ok(X2, "create_linter_command", "generated commands call run_linter_command") if inner else run.finding(X2, "create_linter_command", "no-wrapper", "generated command bodies do not go through run_linter_command", clc.loc))

    X3 = run.rule("X3", "renderers iterate the one list unfiltered; JSON total=len(list); SARIF rules/results from the same list; startColumn=column+1, startLine=line; format names map to renderers", floor=9)
    mu = repo.mod(CLI_UTILS)
    fv = repo.func(f"{CLI_UTILS}.format_violations")
    disp = {}
    for n in ast.walk(fv.node):
        if isinstance(n, ast.If) and isinstance(n.test, ast.Compare) and isinstance(n.test.ops[0], ast.Eq):
            v = repo.fold(mu, n.test.comparators[0])
            callee = next((call_name(x) for x in ast.walk(ast.Module(body=n.body, type_ignores=[])) if isinstance(x, ast.Call)), None)
            disp[v] = callee
    fo = repo.func("src.cli.utils.format_option")
    choices = None
    for n in ast.walk(fo.node):
        if isinstance(n, ast.Call) and dotted(n.func) == "click.Choice":
            choices = repo.fold(fo.module, n.args[0])
    run.require(isinstance(choices, list), "format_option: click.Choice not foldable")
    want = {"json": "_output_json", "sarif": "_output_sarif"}
    for ch in choices:
        if ch == "text":
            # else branch
            # the fallback: _output_text is called outside every `if format == <name>:` body (else arm, or after guard clauses)
            in_named = {id(x) for n in ast.walk(fv.node) if isinstance(n, ast.If) and isinstance(n.test, ast.Compare) and isinstance(n.test.ops[0], ast.Eq) for b_ in n.body for x in ast.walk(b_)}
            fallback = [x for x in ast.walk(fv.node) if isinstance(x, ast.Call) and call_name(x) == "_output_text" and id(x) not in in_named]
            (run.ok(X3, "format text", "-> _output_text") if fallback else run.finding(X3, "format_violations", "text", "the text format does not reach _output_text", fv.loc))
        elif disp.get(ch) == want.get(ch):
            run.ok(X3, f"format {ch}", f"-> {disp[ch]}")
        else:
            run.finding(X3, "format_violations", f"choice:{ch}", f"--format {ch} is dispatched to {disp.get(ch)}", fv.loc)
    # every renderer receives the list parameter itself
    for n in ast.walk(fv.node):
        if isinstance(n, ast.Call) and call_name(n).startswith("_output_"):
            a = n.args[0] if n.args else None
            if not (isinstance(a, ast.Name) and a.id == fv.node.args.args[0].arg):
                run.finding(X3, "format_violations", f"arg:{norm(n)}", f"{norm(n)} does not receive the full violation list", fv.loc)
    # JSON
    oj = repo.func(f"{CLI_UTILS}._output_json")
    _check_single_iteration(run, X3, oj, oj.node.args.args[0].arg)
    tot = None
    for n in ast.walk(oj.node):
        if isinstance(n, ast.Dict):
            for k, v in zip(n.keys, n.values):
                if isinstance(k, ast.Constant) and k.value == "total":
                    tot = v
    if tot is not None and ast.unparse(tot) == f"len({oj.node.args.args[0].arg})":
        run.ok(X3, "_output_json total", "len(violations)")
    else:
        run.finding(X3, "_output_json", "total", f"JSON total is {norm(tot) if tot is not None else None}, not len(violations)", oj.loc)
    jf = {k.value for d in inline.flat_nodes(repo, oj) if isinstance(d, ast.Dict) for k in d.keys if isinstance(k, ast.Constant)}   # the entry dict may be built by a helper
    need = {"rule_id", "file_path", "line", "column", "message"}
    if need <= jf:
        run.ok(X3, "_output_json fields", "rule_id, file_path, line, column, message present")
    else:
        run.finding(X3, "_output_json", f"fields-missing:{sorted(need - jf)}", f"JSON rendering lacks {sorted(need - jf)}", oj.loc)
    # text
    ot = repo.func(f"{CLI_UTILS}._output_text")
    _check_single_iteration(run, X3, ot, ot.node.args.args[0].arg)
    pv = repo.func(f"{CLI_UTILS}._print_violation")
    vpar = pv.node.args.args[0].arg
    attrs = {n.attr for n in inline.flat_nodes(repo, pv) if isinstance(n, ast.Attribute) and isinstance(n.value, ast.Name) and n.value.id == vpar}
    if {"rule_id", "file_path", "line", "column", "message"} <= attrs:
        run.ok(X3, "_print_violation fields", "all five fields printed")
    else:
        run.finding(X3, "_print_violation", "fields", f"text rendering lacks {sorted({'rule_id','file_path','line','column','message'} - attrs)}", pv.loc)
    # SARIF
    cr = repo.func(f"{SARIF}._create_run")
    res = None
    tool_arg = None
    for n in ast.walk(cr.node):
        if isinstance(n, ast.Dict):
            for k, v in zip(n.keys, n.values):
                if isinstance(k, ast.Constant) and k.value == "results":
                    res = v
                if isinstance(k, ast.Constant) and k.value == "tool":
                    tool_arg = v
    vlist = cr.node.args.args[1].arg if len(cr.node.args.args) > 1 else "violations"   # (self, violations)
    ok = isinstance(res, ast.ListComp) and not res.generators[0].ifs and ast.unparse(res.generators[0].iter) == vlist and isinstance(tool_arg, ast.Call) and tool_arg.args and ast.unparse(tool_arg.args[0]) == vlist
    (run.ok(X3, "SARIF run", "results over all violations; tool(rules) from the same list") if ok else run.finding(X3, "SarifFormatter._create_run", "same-list", "results and driver.rules are not derived from the same unfiltered list", cr.loc))
    crs = repo.func(f"{SARIF}._create_rules")
    _check_single_iteration(run, X3, crs, crs.node.args.args[1].arg if len(crs.node.args.args) > 1 else "violations")
    def vparam(fn_):
        a_ = fn_.node.args.args
        return a_[1].arg if len(a_) > 1 and a_[0].arg in ("self", "cls") else a_[0].arg
    crl, crr = repo.func(f"{SARIF}._create_rule"), repo.func(f"{SARIF}._create_result")
    rid = [n for n in inline.flat_nodes(repo, crl) if isinstance(n, ast.Dict)]
    ok = any(isinstance(k, ast.Constant) and k.value == "id" and ast.unparse(v) == f"{vparam(crl)}.rule_id" for d in rid for k, v in zip(d.keys, d.values))
    ok2 = any(isinstance(k, ast.Constant) and k.value == "ruleId" and ast.unparse(v) == f"{vparam(crr)}.rule_id" for d in inline.flat_nodes(repo, crr) if isinstance(d, ast.Dict) for k, v in zip(d.keys, d.values))
    (run.ok(X3, "SARIF ruleId/id", "both are violation.rule_id") if ok and ok2 else run.finding(X3, "SarifFormatter", "rule-id", "result.ruleId and rules[].id are not both violation.rule_id", crs.loc))
    cl = repo.func(f"{SARIF}._create_location")
    sl = sc = None
    for d in inline.flat_nodes(repo, cl):   # the region may be built by a private helper (parameters substituted)
        if isinstance(d, ast.Dict):
            for k, v in zip(d.keys, d.values):
                if isinstance(k, ast.Constant) and k.value == "startLine":
                    sl = v
                if isinstance(k, ast.Constant) and k.value == "startColumn":
                    sc = v
    vp_ = vparam(cl)
    (run.ok(X3, "SARIF startLine", "violation.line") if sl is not None and ast.unparse(sl) == f"{vp_}.line" else run.finding(X3, "SarifFormatter._create_location", f"startLine:{norm(sl) if sl is not None else None}", "startLine is not violation.line", cl.loc))
    (run.ok(X3, "SARIF startColumn", "violation.column + 1") if sc is not None and ast.unparse(sc) in (f"{vp_}.column + 1", f"1 + {vp_}.column") else run.finding(X3, "SarifFormatter._create_location", f"startColumn:{norm(sc) if sc is not None else None}", "startColumn is not violation.column + 1 (SARIF columns are 1-based, Violation columns 0-based)", cl.loc))

    # ------------------------------------------------------------- X4/X5
    L = Linters(ctx)
    X4 = run.rule("X4", "each line expression reaching a Violation is a constant >= 1 or `x or k` with k >= 1 (never `or 0`); each column constant is >= 0", floor=40,
                  decides="SARIF startLine >= 1 and startColumn >= 1 for every violation, including syntax-error notices")
    X5 = run.rule("X5", "the file_path argument of every Violation construction has static type str (SARIF does not stringify)", floor=40)
    for sk in L.sinks():
        sym = sk["caller"].replace("src.linters.", "")
        loc = f"{repo.funcs[sk['caller']].module.rel}:{sk['call'].lineno}"
        for fld, lo in (("line", 1), ("column", 0)):
            e = sk["args"].get(fld)
            if e is None:
                continue
            bad = None
            for fq, leaf in leaf_exprs(L, sk["caller"], e):
                v = _min_const(leaf)
                if v is not None and v < lo:
                    bad = (fq, leaf)
            if bad:
                run.finding(X4, f"{sym}.{fld}", f"{norm(bad[1])}", f"{fld} can be {norm(bad[1])} (< {lo}) at {bad[0].replace('src.linters.', '')}", loc)
            else:
                run.ok(X4, f"{sym}.{fld}", f"{norm(e)}")
        t = sk["site"]["argtypes"].get("file_path", sk["site"]["argtypes"].get(1))
        if t is None:
            run.undecided(X5, sym, "file_path argument not found at the construction site")
        elif t in ("builtins.str", "str"):
            run.ok(X5, sym, "file_path: str")
        else:
            run.finding(X5, sym, f"file_path-type:{t}", f"file_path has static type {t}; SARIF would emit a non-string uri / json.dumps would fail", loc)

    X7 = run.rule("X7", "a missing target ends the run with exit 2 whenever ANY given path is missing (per-path test or `not all(...)`), and SARIF shows the same file path as text and JSON (no rewriting of the path)", floor=2,
                  decides="`thailint X ok.py missing.py` exits 2 like `thailint X missing.py`; a violation is attributed to the same file in every format")
    vp = repo.func("src.cli.utils.validate_paths_exist")
    ppar = vp.node.args.args[0].arg
    verdict = None
    for n in ast.walk(vp.node):
        # for p in paths: if not p.exists(): ... exit(2)
        if isinstance(n, ast.For) and ast.unparse(n.iter) == ppar:
            for i_ in [x for x in ast.walk(n) if isinstance(x, ast.If)]:
                t_ = i_.test
                if isinstance(t_, ast.UnaryOp) and isinstance(t_.op, ast.Not) and is_call_named(t_.operand, "exists") and any(isinstance(c_, ast.Call) and dotted(c_.func) == "sys.exit" for b_ in i_.body for c_ in ast.walk(b_)):
                    verdict = "per-path loop"
        # if not all(p.exists() for p in paths): / if any(not p.exists() ...):
        if isinstance(n, ast.If) and any(isinstance(c_, ast.Call) and dotted(c_.func) == "sys.exit" for b_ in n.body for c_ in ast.walk(b_)):
            t_ = n.test
            neg = isinstance(t_, ast.UnaryOp) and isinstance(t_.op, ast.Not)
            inner = t_.operand if neg else t_
            if isinstance(inner, ast.Call) and call_name(inner) in ("all", "any") and inner.args and isinstance(inner.args[0], (ast.GeneratorExp, ast.ListComp)):
                elt = inner.args[0].elt
                elt_neg = isinstance(elt, ast.UnaryOp) and isinstance(elt.op, ast.Not)
                core = elt.operand if elt_neg else elt
                if is_call_named(core, "exists"):
                    good = (call_name(inner) == "all" and neg and not elt_neg) or (call_name(inner) == "any" and not neg and elt_neg)
                    verdict = "quantified test" if good else f"WRONG:{norm(t_)}"
    if verdict and not verdict.startswith("WRONG"):
        run.ok(X7, "validate_paths_exist", f"exit 2 as soon as one path is missing ({verdict})")
    elif verdict:
        run.finding(X7, "validate_paths_exist", f"missing-path-quantifier:{verdict[6:]}", f"`{verdict[6:]}` is true only when every given path is missing: with one existing and one missing target the missing one is silently dropped and the run exits 0/1 instead of 2", vp.loc)
    else:
        run.undecided(X7, "validate_paths_exist", "existence test not recognised")
    uri = None
    for d in ast.walk(cl.node):
        if isinstance(d, ast.Dict):
            for k, v in zip(d.keys, d.values):
                if isinstance(k, ast.Constant) and k.value == "uri":
                    uri = v
    run.require(uri is not None, "SarifFormatter._create_location: no 'uri' entry")
    calls = [call_name(x) for x in ast.walk(uri) if isinstance(x, ast.Call)]
    other = [c_ for c_ in calls if c_ not in ("str", "_sanitize_string", "fspath", "as_posix")]
    if ast.unparse(uri).replace("str(", "").rstrip(")").endswith("file_path") and not other:
        run.ok(X7, "SARIF artifact uri", f"{norm(uri)}: the violation's file path as it is")
    elif other:
        run.finding(X7, "SarifFormatter._create_location", f"uri-rewritten:{norm(uri)[:60]}", f"the SARIF artifact uri is `{norm(uri)}`: the path is rewritten ({other}) while text and JSON show it unchanged - for a name containing the rewritten character the three renderings name different files", cl.loc)
    else:
        run.undecided(X7, "SARIF artifact uri", f"form not recognised: {norm(uri)}")

    X6 = run.rule("X6", "JSON and text sanitise file_path and message; JSON and SARIF are emitted via json.dumps with ensure_ascii left on", floor=4)
    for fn in ("_output_json", "_print_violation"):
        f = repo.func(f"{CLI_UTILS}.{fn}")
        san = [ast.unparse(n.args[0]) for n in inline.flat_nodes(repo, f) if isinstance(n, ast.Call) and call_name(n) == "_sanitize_string" and n.args]
        ok = any("file_path" in s for s in san) and any("message" in s for s in san)
        (run.ok(X6, fn, "file_path and message sanitised") if ok else run.finding(X6, fn, "sanitise", f"{fn} does not sanitise both file_path and message", f.loc))
    for fn in ("_output_json", "_output_sarif"):
        f = repo.func(f"{CLI_UTILS}.{fn}")
        d = [n for n in inline.flat_nodes(repo, f) if isinstance(n, ast.Call) and dotted(n.func) == "json.dumps"]
        bad = [k for n in d for k in n.keywords if k.arg == "ensure_ascii" and not (isinstance(k.value, ast.Constant) and k.value.value is True)]
        (run.ok(X6, f"{fn} json.dumps", "ensure_ascii default") if d and not bad else run.finding(X6, fn, "dumps", f"{fn} does not serialise through json.dumps(ensure_ascii=True)", f.loc))
    X8 = run.rule("X8", "standard output of a linter command carries the rendering and nothing else: the only stdout writers outside the `config`/`init-config` command modules are the renderers behind format_violations", floor=6,
                  decides="--format json / sarif output parses as one document whatever options (--clear-cache, --verbose, ...) accompany it")
    fv = repo.func(f"{CLI_UTILS}.format_violations")
    renderers = set(ctx.cg.reach([fv.qual], resolved_only=True))
    NON_LINTER = ("src.cli.config", "src.cli.config_merge")   # `thailint config ...` / `init-config`: their stdout is their result
    n_r = 0
    for f in sorted(repo.funcs.values(), key=lambda x: x.qual):
        for n in ast.walk(f.node):
            if not isinstance(n, ast.Call):
                continue
            t = dotted(n.func) or ""
            if t not in ("click.echo", "click.secho", "print", "sys.stdout.write", "echo", "secho", "click.echo_via_pager"):
                continue
            kw = {k.arg: k.value for k in n.keywords}
            if (isinstance(kw.get("err"), ast.Constant) and kw["err"].value is True) or ("file" in kw and "stderr" in ast.unparse(kw["file"])):
                continue
            if f.qual in renderers or (f.parent is not None and f.parent.qual in renderers):
                n_r += 1
                run.ok(X8, f"{f.qual.replace('src.', '')}:{n.lineno}", "renderer behind format_violations")
            elif f.module.name in NON_LINTER:
                continue
            else:
                run.finding(X8, f.qual.replace("src.", ""), f"stdout:{norm(n)[:60]}", f"{f.qual} writes `{norm(n)[:80]}` to standard output outside the renderers: with --format json or sarif the text lands in front of (or inside) the document, which no longer parses, while the exit status still says a valid report was produced", f"{f.module.rel}:{n.lineno}")
    run.require(n_r >= 6, f"X8: only {n_r} stdout writers found behind format_violations (7 confirmed)")
    run.extra["commands"] = len(cmds)
    return __doc__


def _exit_values(a):
    if a is None:
        return {0}
    if isinstance(a, ast.Constant) and isinstance(a.value, int):
        return {a.value}
    if isinstance(a, ast.IfExp):
        x, y = _exit_values(a.body), _exit_values(a.orelse)
        return None if x is None or y is None else x | y
    return None


def _min_const(e: ast.expr):
    """Smallest constant an expression can evaluate to when it is a constant or `x or k` / `k if c else x`."""
    if isinstance(e, ast.Constant) and isinstance(e.value, (int, float)) and not isinstance(e.value, bool):
        return e.value
    if isinstance(e, ast.UnaryOp) and isinstance(e.op, ast.USub) and isinstance(e.operand, ast.Constant):
        return -e.operand.value
    if isinstance(e, ast.BoolOp) and isinstance(e.op, ast.Or):
        last = e.values[-1]
        return _min_const(last)
    if isinstance(e, ast.IfExp):
        vals = [v for v in (_min_const(e.body), _min_const(e.orelse)) if v is not None]
        return min(vals) if vals else None
    return None


def _check_wrapped(run, rid, f, callee_name):
    calls = [n for n in ast.walk(f.node) if isinstance(n, ast.Call) and isinstance(n.func, ast.Name) and (n.func.id == callee_name or n.func.id.startswith("_execute_"))]
    if not calls:
        # run_linter_command idiom
        if any(isinstance(n, ast.Call) and call_name(n) == "run_linter_command" for n in ast.walk(f.node)):
            run.ok(rid, f"{f.name} wrapper", "delegates to run_linter_command")
            return
        run.finding(rid, f.name, "no-execute-call", f"{f.name} does not call its execute function", f.loc)
        return
    for c in calls:
        hs = handlers_covering(f.node, c)
        good = False
        for h in hs:
            if handler_names(h) & {"Exception"} and any(isinstance(n, ast.Call) and call_name(n) == "handle_linting_error" for n in ast.walk(h)):
                good = True
        if good:
            run.ok(rid, f"{f.name} wrapper", "try/except Exception -> handle_linting_error")
        elif any(isinstance(n, ast.Call) and call_name(n) == "run_linter_command" for n in ast.walk(f.node)):
            run.ok(rid, f"{f.name} wrapper", "lambda passed to run_linter_command")
        else:
            run.finding(rid, f.name, "unwrapped", f"{f.name}: the call to {norm(c.func)} is not under `except Exception -> handle_linting_error`", f.loc)


def _check_single_iteration(run, rid, f, var):
    its = []
    for n in ast.walk(f.node):
        if isinstance(n, (ast.For, ast.comprehension)) and ast.unparse(n.iter) == var:
            its.append(n)
        elif isinstance(n, (ast.For, ast.comprehension)) and var in {x.id for x in ast.walk(n.iter) if isinstance(x, ast.Name)}:
            run.finding(rid, f.name, f"iter:{norm(n.iter)}", f"{f.name} iterates {norm(n.iter)}, not the plain list (slice/filter/set would drop or reorder violations)", f.loc)
            return
    filt = [n for n in its if isinstance(n, ast.comprehension) and n.ifs]
    if len(its) == 1 and not filt:
        run.ok(rid, f"{f.name} iteration", f"one unfiltered pass over {var}")
    else:
        run.finding(rid, f.name, f"iterations:{len(its)}", f"{f.name} makes {len(its)} passes over {var}{' with a filter' if filt else ''}", f.loc)


def _dict_keys_in(node):
    return {k.value for d in ast.walk(node) if isinstance(d, ast.Dict) for k in d.keys if isinstance(k, ast.Constant)}
