"""C04 - suppression directives silence exactly what they name, in every linter.

Decides (structure only):
 I1 every linter's violations pass the shared ignore gate (IgnoreDirectiveParser.should_ignore_violation):
    T1 rule level and T2 language-branch level by call-graph reachability (absence of an edge in the
    over-approximate graph is certain), T3 site level by gate-flow (every constructed Violation is
    tested by a gate idiom before it reaches check()/finalize()'s return);
 I2 the five marker recognisers accept the same comment prefixes x tool names x letter case;
 I3 the rule-list regexes are case-insensitive like their markers;
 I4 text looked up by a parser-derived line number is split with the parser's newline model;
 I5 rule-name matching folds case on both operands; alias targets are emitted ids;
 I6 the header window is the documented ten lines;
 I7 a "not ignored" verdict consults all five scopes.
Not decided: isolation ("changes no other violation") on arbitrary files; block-scope semantics.
"""

from __future__ import annotations

import ast

from .. import cfg
from ..facts import UNKNOWN, call_name, dotted, norm
from ..linters import Linters
from ..util import alpha, contains, func_paths, is_call_named, str_consts
from . import shared

GATE = "src.linter_config.ignore.IgnoreDirectiveParser.should_ignore_violation"
EXEMPT_RULES = {"LazyIgnoresRule": "the property exempts the lazy-ignores linter: its subject is the suppression comments themselves"}
IGN = "src.linter_config.ignore"
MARK = "src.linter_config.directive_markers"


def check(run, ctx):
    repo, cg = ctx.repo, ctx.cg
    L = Linters(ctx)
    run.require(len(L.rules) >= 20, f"only {len(L.rules)} rule classes discovered")
    run.require(GATE in cg.funcs, "ignore gate should_ignore_violation not found")
    sinks = L.sinks()
    sink_callers = {s["caller"] for s in sinks if not shared.is_syntax_error_builder(ctx, s["caller"])}

    T1 = run.rule("I1-T1", "from every rule's check()/finalize() that can construct a violation, the shared ignore gate is reachable in the over-approximate call graph", floor=19,
                  decides="a linter without any path to the shared directive parser cannot honour the documented directive forms")
    T2 = run.rule("I1-T2", "the same for every language branch (_check_python/_check_typescript/_check_rust/_analyze) that can construct a violation", floor=15)
    for r in L.rules:
        if r.short in EXEMPT_RULES:
            run.ok(T1, r.short, f"exempt: {EXEMPT_RULES[r.short]}", nontrivial=False)
            continue
        pr = L.reach(r)
        reach_sinks = sorted(sink_callers & set(pr))
        if not reach_sinks:
            run.undecided(T1, r.short, "no violation construction site reachable from check()/finalize() in the call graph")
            continue
        if GATE in pr:
            run.ok(T1, r.short, f"gate reachable; {len(reach_sinks)} construction sites")
        else:
            run.finding(T1, r.short, "no-gate", f"{r.short} builds violations ({reach_sinks[0].split('.', 2)[2]}...) but no call path reaches should_ignore_violation", r.cls.loc,
                        path=cg.path_to(pr, reach_sinks[0]))
            continue
        for lang, f in sorted(r.lang_entries.items()):
            pl = L.reach_from(r, [f.qual])
            ls = sorted(sink_callers & set(pl))
            if not ls:
                run.ok(T2, f"{r.short}.{f.name}", "branch constructs no violation", nontrivial=False)
                continue
            if GATE in pl:
                run.ok(T2, f"{r.short}.{f.name}", f"gate reachable from the {lang} branch")
            elif r.finalize is not None and GATE in L.reach_from(r, [r.finalize.qual]):
                run.ok(T2, f"{r.short}.{f.name}", "violations of this rule are produced and gated in finalize()")
            else:
                run.finding(T2, f"{r.short}.{f.name}", "no-gate", f"the {lang} branch builds violations but never reaches should_ignore_violation", f.loc, path=cg.path_to(pl, ls[0]))

    if True:
        from ..gateflow import run_t3

        run_t3(run, ctx, L)

    # ------------------------------------------------------------- I2
    I2 = run.rule("I2", "marker recognisers agree: comment prefixes {#, //} x tools {thailint, design-lint} x case-insensitive", floor=5,
                  decides="'#' and '//' comment styles and any letter case are interchangeable for every directive form")
    mm = repo.mod(MARK)
    rows = {}
    for fn in ("has_ignore_directive_marker", "has_line_ignore_marker", "has_ignore_next_line_marker", "has_ignore_start_marker", "has_ignore_end_marker"):
        f = repo.func(f"{MARK}.{fn}")
        rows[fn] = _marker_row(f, repo)
    want = ({"#", "//"}, {"thailint", "design-lint"}, True)
    for fn, (pref, tools, fold) in rows.items():
        f = repo.func(f"{MARK}.{fn}")
        probs = []
        # recognisers written as a chain of whole-marker literals must list the full cross product
        pairs = {(pre, t) for s_ in _needle_strings(repo, f) for pre in ("//", "#") for t in ("thailint", "design-lint") if s_.strip().startswith(pre + " " + t + ":")}
        if pairs and len(pairs) < 4:
            missing = sorted({(a, b) for a in ("#", "//") for b in ("thailint", "design-lint")} - pairs)
            probs.append(f"comment/tool combinations {missing} are not recognised")
        if pref != want[0]:
            probs.append(f"comment prefixes {sorted(pref)} (expected # and //)")
        if tools != want[1]:
            probs.append(f"tool names {sorted(tools)}")
        if not fold:
            probs.append("subject is not case-folded")
        if probs:
            for p in probs:
                kind = "combination" if p.startswith("comment/tool") else "prefix" if p.startswith("comment") else "tools" if p.startswith("tool") else "case"
                run.finding(I2, fn, kind, f"{fn}: {p}", f.loc)
        else:
            run.ok(I2, fn, "prefixes {#,//} x tools {thailint,design-lint} x case-folded")

    # ------------------------------------------------------------- I3
    I3 = run.rule("I3", "every re.search that extracts a rule list from a directive carries re.IGNORECASE (markers are case-insensitive)", floor=6)
    # every regex constant of the module, whether passed to re.search(...) in place or compiled once at module level
    from .. import regexes as RX
    import re as _re

    for p_ in RX.patterns_in(repo):
        if p_["module"].name != IGN or p_["func"] == "split" or not isinstance(p_["pattern"], str) or "ignore" not in p_["pattern"]:
            continue
        pat = p_["pattern"]
        if p_["flags"] is None:
            run.undecided(I3, f"{pat[:24]}", "flags are not a constant expression")
        elif p_["flags"] & _re.IGNORECASE or pat.startswith("(?i"):
            run.ok(I3, f"{pat[:32]}", "case-insensitive")
        else:
            run.finding(I3, IGN.replace("src.", "", 1), f"regex:{pat}", f"regex {pat!r} is case-sensitive while its marker is matched case-insensitively", f"{p_['module'].rel}:{p_['line']}")

    # ------------------------------------------------------------- I4
    I4 = run.rule("I4", "a line list indexed by a parser-derived (\\n-model) line number is produced by split('\\n'), not str.splitlines()", floor=5,
                  decides="a form feed / NEL / U+2028 above a violation must not shift the directive lookup")
    for rec in shared.line_model_sites(ctx):
        if rec["indexed_by_line"]:
            run.finding(I4, rec["func"], "splitlines-indexed-by-line", f"{rec['func']}: {rec['expr']} is indexed by a line number ({rec['use']}) but str.splitlines() also splits on \\x0b \\x0c \\x1c-\\x1e \\x85 U+2028 U+2029", rec["loc"])
        else:
            run.ok(I4, rec["func"], f"{rec['expr']}: {rec['use']}", nontrivial=rec["use"] != "no positional use")

    # ------------------------------------------------------------- I5
    I5 = run.rule("I5", "rule-name matching compares case-folded operands only; every alias target is an emitted rule id", floor=4)
    RM = "src.linter_config.rule_matcher"
    # rule_matches says "no" only after the alias table was consulted: every non-True exit passes through _matches_via_alias
    rm_f = repo.func(f"{RM}.rule_matches")
    rm_paths = func_paths(rm_f)
    if rm_paths is None:
        run.undecided(I5, "rule_matches", "too many paths")
    else:
        cut = None
        for p_ in rm_paths:
            last = p_[-1]
            if last[0] != "return":
                continue
            rv = last[1].value if isinstance(last[1], ast.Return) else None
            if isinstance(rv, ast.Constant) and rv.value is True:
                continue
            consulted = any(isinstance(x, ast.Call) and call_name(x) == "_matches_via_alias" for ev_ in p_ for x in (ast.walk(ev_[1]) if isinstance(ev_[1], ast.AST) else []))
            if not consulted:
                cut = last[1]
        if cut is None:
            run.ok(I5, "rule_matches", "every exit other than `return True` has consulted the alias table")
        else:
            run.finding(I5, "rule_matches", f"alias-bypass:{norm(cut)[:50]}", f"rule_matches can answer `{norm(cut)[:60]}` without consulting _matches_via_alias: a directive written with the deprecated linter name in that form (e.g. the wildcard `print-statements.*`) no longer silences the renamed rule", f"{rm_f.module.rel}:{getattr(cut, 'lineno', rm_f.node.lineno)}")
    _rm_all = [g for g in repo.funcs_in(f"{RM}.") if g.parent is None]
    def _called_in_module(name):     # such a parameter is judged at its call sites (below): the callee may compare it as it is
        return any(isinstance(c, ast.Call) and call_name(c) == name for g in _rm_all for c in ast.walk(g.node))
    for fn in ("_matches_pattern_directly", "_matches_via_alias", "_pattern_matches_deprecated_id"):
        f = repo.func(f"{RM}.{fn}")
        params = {a.arg for a in f.node.args.args}
        if _called_in_module(f.name):
            folded_locally = {n.func.value.id for n in ast.walk(f.node) if isinstance(n, ast.Call) and isinstance(n.func, ast.Attribute) and n.func.attr in ("lower", "casefold") and isinstance(n.func.value, ast.Name)}
            params = {p_ for p_ in params if p_ in folded_locally}    # a parameter the function folds itself must not also be compared raw
        raw = []
        for n in ast.walk(f.node):
            if isinstance(n, ast.Compare):
                for side in [n.left] + n.comparators:
                    if isinstance(side, ast.Name) and side.id in params and not side.id.endswith("_lower"):
                        raw.append(norm(n))
            if isinstance(n, ast.Call) and isinstance(n.func, ast.Attribute) and n.func.attr in ("startswith", "endswith"):
                if isinstance(n.func.value, ast.Name) and n.func.value.id in params and not n.func.value.id.endswith("_lower"):
                    raw.append(norm(n))
        lowers = [n for n in ast.walk(f.node) if isinstance(n, ast.Call) and call_name(n) == "lower"]
        # every local named *_lower must really be the case-folded value
        for n in ast.walk(f.node):
            if isinstance(n, ast.Assign) and len(n.targets) == 1 and isinstance(n.targets[0], ast.Name) and n.targets[0].id.endswith("_lower"):
                if not contains(n.value, lambda x: isinstance(x, ast.Call) and call_name(x) in ("lower", "casefold")) and not (isinstance(n.value, ast.Subscript) and isinstance(n.value.value, ast.Name) and n.value.value.id.endswith("_lower")):
                    raw.append(norm(n))
        if raw:
            run.finding(I5, fn, f"raw-compare:{raw[0]}", f"{fn} compares an un-folded operand: {raw[0]}", f.loc)
        elif not lowers:
            run.finding(I5, fn, "no-lower", f"{fn} never case-folds its operands", f.loc)
        else:
            run.ok(I5, fn, f"{len(lowers)} operands folded, no raw comparison")
    # a parameter that the callee compares as it is (named *_lower) is handed a case-folded value at every call site
    rm_funcs = [g for g in repo.funcs_in(f"{RM}.") if g.parent is None]
    n_lp = 0
    for callee in rm_funcs:
        # by role, not by name: the parameter is an operand of ==/in/startswith/endswith as it is, and the callee never folds it
        raw_cmp = {x.id for n in ast.walk(callee.node) if isinstance(n, ast.Compare) for x in [n.left] + n.comparators if isinstance(x, ast.Name)}
        raw_cmp |= {n.func.value.id for n in ast.walk(callee.node) if isinstance(n, ast.Call) and isinstance(n.func, ast.Attribute) and n.func.attr in ("startswith", "endswith") and isinstance(n.func.value, ast.Name)}
        folds_itself = {n.func.value.id for n in ast.walk(callee.node) if isinstance(n, ast.Call) and isinstance(n.func, ast.Attribute) and n.func.attr in ("lower", "casefold") and isinstance(n.func.value, ast.Name)}
        for i, a in enumerate(callee.node.args.args):
            if a.arg not in raw_cmp or a.arg in folds_itself:
                continue
            for caller in rm_funcs:
                for c in ast.walk(caller.node):
                    if not (isinstance(c, ast.Call) and call_name(c) == callee.name):
                        continue
                    arg = c.args[i] if i < len(c.args) else next((k.value for k in c.keywords if k.arg == a.arg), None)
                    if arg is None:
                        continue
                    n_lp += 1
                    folded = contains(arg, lambda x: isinstance(x, ast.Call) and call_name(x) in ("lower", "casefold"))
                    if isinstance(arg, ast.Name) and not folded:
                        binds = [b.value for b in ast.walk(caller.node) if isinstance(b, ast.Assign) and len(b.targets) == 1 and isinstance(b.targets[0], ast.Name) and b.targets[0].id == arg.id]
                        folded = (bool(binds) and all(contains(b, lambda x: isinstance(x, ast.Call) and call_name(x) in ("lower", "casefold")) for b in binds)) or (not binds and arg.id in {p_.arg for p_ in caller.node.args.args} and arg.id not in {x.func.value.id for x in ast.walk(caller.node) if isinstance(x, ast.Call) and isinstance(x.func, ast.Attribute) and x.func.attr in ("lower", "casefold") and isinstance(x.func.value, ast.Name)} and False)
                    if folded:
                        run.ok(I5, f"{caller.name} -> {callee.name}({a.arg})", "case-folded argument")
                    else:
                        run.finding(I5, caller.name, f"unfolded-arg:{callee.name}:{a.arg}", f"{caller.name} hands `{norm(arg)[:40]}` to {callee.name}, which compares its parameter `{a.arg}` as it is: a directive that spells the (deprecated) rule name with capitals (`ignore[Print-Statements]`) no longer matches", f"{caller.module.rel}:{c.lineno}")
    run.require(n_lp >= 1, "I5: no call site hands a value to a parameter the callee compares unfolded (positive control: _matches_via_alias -> _pattern_matches_deprecated_id)")
    ids = L.emitted_ids()
    aliases = repo.fold(repo.mod("src.core.rule_aliases"), repo.mod("src.core.rule_aliases").assigns.get("RULE_ID_ALIASES"))
    run.require(isinstance(aliases, dict), "RULE_ID_ALIASES not foldable")
    for dep, canon in aliases.items():
        if canon in ids:
            run.ok(I5, f"alias {dep}", f"-> {canon} is an emitted id")
        else:
            run.finding(I5, "RULE_ID_ALIASES", f"alias:{dep}->{canon}", f"alias target {canon!r} is not an id any linter emits", "src/core/rule_aliases.py")

    # ------------------------------------------------------------- I6
    I6 = run.rule("I6", "the ignore-file header window is the documented ten lines and both header readers slice by it", floor=3)
    hs = repo.fold(repo.mod("src.core.constants"), repo.mod("src.core.constants").assigns.get("HEADER_SCAN_LINES"))
    (run.ok(I6, "HEADER_SCAN_LINES", "== 10") if hs == 10 else run.finding(I6, "HEADER_SCAN_LINES", f"value:{hs}", f"header window is {hs}, documentation says the first 10 lines", "src/core/constants.py"))
    for fn in ("_has_file_ignore_in_content", "_read_file_first_lines"):
        f = repo.func(f"{IGN}.{fn}")
        sl = [n for n in ast.walk(f.node) if isinstance(n, ast.Subscript) and isinstance(n.slice, ast.Slice) and n.slice.lower is None and isinstance(n.slice.upper, ast.Name) and n.slice.upper.id == "HEADER_SCAN_LINES"]
        (run.ok(I6, fn, "[:HEADER_SCAN_LINES]") if sl else run.finding(I6, fn, "no-window", f"{fn} does not slice the header by HEADER_SCAN_LINES", f.loc))

    # ------------------------------------------------------------- I7
    I7 = run.rule("I7", "in should_ignore_violation and its two helpers, every path that does not return True has consulted every scope decider of that function", floor=3,
                  decides="repository patterns, ignore-file, block, next-line and same-line scopes are all honoured, none shadowing another")
    deciders = {
        f"{IGN}.IgnoreDirectiveParser.should_ignore_violation": ["_is_ignored_at_file_level", "_is_ignored_in_content"],
        f"{IGN}.IgnoreDirectiveParser._is_ignored_at_file_level": ["is_ignored", "_has_file_ignore_in_content"],
        f"{IGN}._is_ignored_in_content": ["_check_block_ignore", "_check_prev_line_ignore", "_check_current_line_ignore"],
    }
    for fq, names in deciders.items():
        f = repo.func(fq)
        paths = func_paths(f)
        run.require(paths is not None, f"{fq}: too many paths")
        bad = None
        for p in paths:
            t = p[-1]
            if t[0] == "return" and isinstance(t[1].value, ast.Constant) and t[1].value.value is True:
                continue
            for nm in names:
                if cfg.first_index(p, lambda n, nm=nm: is_call_named(n, nm)) is None:
                    bad = nm
        if bad:
            run.finding(I7, f.name, f"skips:{bad}", f"{f.name} can return a non-True verdict without consulting {bad}", f.loc)
        else:
            run.ok(I7, f.name, f"all of {names} consulted before a non-True verdict")
    # ------------------------------------------------------------- I8
    I8 = run.rule("I8", "the catch-all test `'*' in X` is a membership test in a collection of whole rule names, never a substring test in text", floor=1,
                  decides="only the bare `*` (bare ignore) silences every rule; `prefix.*` silences its prefix only")
    n_i8 = 0
    for f in sorted(repo.funcs.values(), key=lambda x: x.qual):
        if not f.module.name.startswith(("src.linter_config.", "src.core.violation_utils", "src.core.rule_aliases")) and "ignore" not in f.module.name:
            continue
        for n in ast.walk(f.node):
            if not (isinstance(n, ast.Compare) and len(n.ops) == 1 and isinstance(n.ops[0], (ast.In, ast.NotIn)) and isinstance(n.left, ast.Constant) and n.left.value == "*"):
                continue
            n_i8 += 1
            kind = _static_kind(f, n.comparators[0])
            sym = f"{f.qual.replace('src.', '', 1)}:{norm(n)}"
            if kind == "collection":
                run.ok(I8, sym, "right operand is a set/list of rule names")
            elif kind == "str":
                run.finding(I8, f.qual.replace("src.", "", 1), f"substring-star:{norm(n)}", f"`{norm(n)}` tests for the character '*' inside text: a directive naming `prefix.*` is then taken for the bare catch-all and silences every rule in its scope", f"{f.module.rel}:{n.lineno}")
            else:
                run.undecided(I8, sym, "operand type not determined")
    run.require(n_i8 >= 1, "no `'*' in <rules>` catch-all test found in the ignore machinery")
    I9 = run.rule("I9", "DRY applies its suppression filters to the final violation list: the removal of overlapping windows (deduplicate_violations) runs before the first `_filter_*` step", floor=1,
                  decides="a directive on the reported line silences that violation and leaves the others alone - it cannot uncover the hidden window one line further down")
    gv = repo.func("src.linters.dry.violation_generator.ViolationGenerator.generate_violations")
    calls = [n for n in ast.walk(gv.node) if isinstance(n, ast.Call)]
    calls.sort(key=lambda n: (n.lineno, n.col_offset))
    dd = [n for n in calls if call_name(n) == "deduplicate_violations"]
    fl = [n for n in calls if (call_name(n) or "").startswith("_filter_")]
    run.require(bool(dd) and len(fl) >= 2, f"generate_violations: {len(dd)} de-duplication and {len(fl)} _filter_* steps found (1 and 3 confirmed)")
    early = [n for n in fl if (n.lineno, n.col_offset) < (dd[0].lineno, dd[0].col_offset)]
    if early:
        run.finding(I9, "ViolationGenerator.generate_violations", f"filter-before-dedup:{call_name(early[0])}", f"generate_violations runs {call_name(early[0])} before deduplicate_violations: a directive on the reported line removes the first window of an overlapping run, so de-duplication keeps the next window instead - the violation reappears one line lower and later ones re-align", f"{gv.module.rel}:{early[0].lineno}")
    else:
        run.ok(I9, "ViolationGenerator.generate_violations", f"deduplicate_violations, then {[call_name(n) for n in fl]}")
    I10 = run.rule("I10", "an ignore pattern whose trailing separator was stripped is matched against path *components* (or by glob), never by substring containment in the path text", floor=2,
                   decides="`generated/` silences the files inside that directory only - not `generated_types.rs` next to it")
    from .c09 import path_predicates
    n_i10 = 0
    for f in sorted(repo.funcs.values(), key=lambda x: x.qual):
        if f.parent is not None or not f.module.name.startswith(("src.linters", "src.core", "src.linter_config")) or not path_predicates(repo, f):
            continue
        n_i10 += 1
        taint, parts = set(), set()
        assigns = sorted([a for a in ast.walk(f.node) if isinstance(a, (ast.Assign, ast.AnnAssign)) and getattr(a, "value", None) is not None], key=lambda a: a.lineno)
        def _stripped(e):
            return any(isinstance(c, ast.Call) and isinstance(c.func, ast.Attribute) and c.func.attr in ("rstrip", "strip", "removesuffix") and c.args and isinstance(repo.fold(f.module, c.args[0]), str) and "/" in repo.fold(f.module, c.args[0]) for c in ast.walk(e)) \
                   or any(isinstance(x, ast.Name) and x.id in taint for x in ast.walk(e))
        for _ in range(3):
            for a in assigns:
                tg = a.targets[0] if isinstance(a, ast.Assign) else a.target
                if isinstance(tg, ast.Name):
                    if _stripped(a.value):
                        taint.add(tg.id)
                    if isinstance(a.value, ast.Attribute) and a.value.attr == "parts":
                        parts.add(tg.id)
            for g in [g for c in ast.walk(f.node) if isinstance(c, (ast.GeneratorExp, ast.ListComp, ast.SetComp)) for g in c.generators] + [l for l in ast.walk(f.node) if isinstance(l, ast.For)]:
                if isinstance(g.target, ast.Name) and _stripped(g.iter):
                    taint.add(g.target.id)
        bad = None
        for c in ast.walk(f.node):
            if isinstance(c, ast.Compare) and len(c.ops) == 1 and isinstance(c.ops[0], (ast.In, ast.NotIn)) and _stripped(c.left):
                rhs = c.comparators[0]
                if (isinstance(rhs, ast.Attribute) and rhs.attr == "parts") or (isinstance(rhs, ast.Name) and rhs.id in parts):
                    continue
                bad = c
        sym = f.qual.replace("src.", "", 1)
        if bad is not None:
            run.finding(I10, sym, f"stripped-pattern-substring:{alpha(f.node, bad)}", f"{f.qual}: `{norm(bad)}` looks for a pattern that lost its trailing `/` as a substring of the path: the directory boundary is gone, so `generated/` also silences `src/generated_types.rs` (and every other path that merely contains the word)", f"{f.module.rel}:{bad.lineno}")
        else:
            run.ok(I10, sym, "no separator-stripped pattern in a substring test")
    run.require(n_i10 >= 10, f"I10: only {n_i10} path-predicate functions found")
    run.extra["call_resolution"] = f"{cg.n_resolved}/{cg.n_calls}"
    run.extra["rule_classes"] = len(L.rules)
    run.extra["violation_construction_sites"] = len(sinks)
    return __doc__


def _needle_strings(repo, f) -> list[str]:
    """Every string a marker recogniser searches for: the literal constants of the function plus the values of composed
    needles - `opener + "ignore"` / f"{opener}ignore" with `opener` ranging over a constant tuple (comprehension or loop)."""
    out = list(str_consts(f.node))
    env: dict[str, list[str]] = {}
    for n in ast.walk(f.node):
        gens = n.generators if isinstance(n, (ast.GeneratorExp, ast.ListComp, ast.SetComp)) else ([n] if isinstance(n, ast.For) else [])
        for g in gens:
            v = repo.fold(f.module, g.iter)
            if isinstance(g.target, ast.Name) and isinstance(v, (tuple, list, set, frozenset)) and all(isinstance(x, str) for x in v):
                env[g.target.id] = list(v)

    def vals(e) -> list[str] | None:
        if isinstance(e, ast.Constant) and isinstance(e.value, str):
            return [e.value]
        if isinstance(e, ast.Name):
            if e.id in env:
                return env[e.id]
            v = repo.fold(f.module, e)
            return [v] if isinstance(v, str) else None
        if isinstance(e, ast.BinOp) and isinstance(e.op, ast.Add):
            a, b = vals(e.left), vals(e.right)
            return [x + y for x in a for y in b] if a is not None and b is not None else None
        if isinstance(e, ast.JoinedStr):
            acc = [""]
            for part in e.values:
                pv = vals(part.value) if isinstance(part, ast.FormattedValue) else vals(part)
                if pv is None:
                    return None
                acc = [x + y for x in acc for y in pv]
            return acc
        if isinstance(e, ast.Call) and call_name(e) in ("lower", "casefold") and isinstance(e.func, ast.Attribute):
            a = vals(e.func.value)
            return [x.lower() for x in a] if a is not None else None
        return None

    for n in ast.walk(f.node):
        needle = None
        if isinstance(n, ast.Compare) and len(n.ops) == 1 and isinstance(n.ops[0], (ast.In, ast.NotIn)):
            needle = n.left
        elif isinstance(n, ast.Call) and isinstance(n.func, ast.Attribute) and n.func.attr in ("startswith", "find", "index") and n.args:
            needle = n.args[0]
        if needle is not None and not isinstance(needle, ast.Constant):
            out += vals(needle) or []
    # module-level marker tuples the function iterates over count as written-out alternatives too
    for v in env.values():
        out += v
    return out


def _marker_row(f, repo=None):
    """(comment prefixes, tool names, case-folded?) accepted by a has_*_marker function."""
    consts = _needle_strings(repo, f) if repo is not None else str_consts(f.node)
    prefixes, tools = set(), set()
    for s in consts:
        s0 = s.strip()
        for pre in ("//", "#"):
            if s0.startswith(pre):
                prefixes.add(pre)
        for t in ("thailint", "design-lint"):
            if t in s0:
                tools.add(t)
    # case folding: every `in`/startswith subject is a name bound from a .lower() call
    lowered = set()
    for n in ast.walk(f.node):
        if isinstance(n, ast.Assign) and contains(n.value, lambda x: isinstance(x, ast.Call) and call_name(x) in ("lower", "casefold")):
            for t in n.targets:
                if isinstance(t, ast.Name):
                    lowered.add(t.id)
    subjects = set()
    for n in ast.walk(f.node):
        if isinstance(n, ast.Compare) and isinstance(n.ops[0], (ast.In, ast.NotIn)):
            subjects.add(ast.unparse(n.comparators[0]))
        if isinstance(n, ast.Call) and isinstance(n.func, ast.Attribute) and n.func.attr == "startswith":
            subjects.add(ast.unparse(n.func.value))
    fold = bool(subjects) and all(s in lowered or s.endswith(".lower()") for s in subjects)
    return prefixes, tools, fold



def _static_kind(f, e: ast.expr) -> str:
    """'str' / 'collection' / '?' for a name in function f, from its parameter annotation or its (single-form) local assignments."""
    STR_CALLS = {"join", "strip", "lower", "upper", "group", "format", "replace", "lstrip", "rstrip", "str"}
    COLL_CALLS = {"split", "set", "list", "frozenset", "sorted", "tuple", "findall", "keys", "values"}
    if isinstance(e, (ast.Set, ast.List, ast.Tuple, ast.SetComp, ast.ListComp, ast.Dict)):
        return "collection"
    if isinstance(e, (ast.JoinedStr,)) or (isinstance(e, ast.Constant) and isinstance(e.value, str)):
        return "str"
    if isinstance(e, ast.Call):
        nm = call_name(e)
        return "str" if nm in STR_CALLS else "collection" if nm in COLL_CALLS else "?"
    if isinstance(e, ast.Name):
        for a in f.node.args.posonlyargs + f.node.args.args + f.node.args.kwonlyargs:
            if a.arg == e.id and a.annotation is not None:
                t = ast.unparse(a.annotation).replace("typing.", "")
                if t.split("[")[0].split("|")[0].strip() in ("set", "list", "frozenset", "tuple", "Set", "List", "Iterable", "Sequence", "Collection", "AbstractSet"):
                    return "collection"
                if t.split("|")[0].strip() == "str":
                    return "str"
        kinds = set()
        for n in ast.walk(f.node):
            if isinstance(n, (ast.Assign, ast.AnnAssign)) and n.value is not None:
                for t in (n.targets if isinstance(n, ast.Assign) else [n.target]):
                    if isinstance(t, ast.Name) and t.id == e.id:
                        kinds.add(_static_kind(f, n.value))
        if len(kinds) == 1:
            return kinds.pop()
    return "?"
