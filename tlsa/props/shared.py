"""Rule helpers shared by several properties."""

from __future__ import annotations

import ast

from ..facts import Func, call_name, dotted, norm
from ..linters import AstIndex


def is_syntax_error_builder(ctx, fqual: str) -> bool:
    """Functions that turn a SyntaxError into a notice violation (not a rule verdict)."""
    f = ctx.repo.funcs.get(fqual)
    if f is None:
        return False
    if "syntax_error" in f.name:
        return True
    for a in f.node.args.args:
        if a.annotation is not None and ast.unparse(a.annotation) == "SyntaxError":
            return True
    return False


def _mentions_line(e: ast.AST) -> bool:
    for n in ast.walk(e):
        if isinstance(n, ast.Name) and ("line" in n.id.lower() or n.id in ("prev_idx", "idx", "lineno")):
            return True
        if isinstance(n, ast.Attribute) and ("line" in n.attr.lower()):
            return True
    return False


def _uses_of_list(ctx, idx: AstIndex, f: Func, var: str, depth: int, seen: set) -> list[str]:
    """How a list-of-lines variable is used inside f (following it into callees as a parameter)."""
    uses: list[str] = []
    key = (f.qual, var)
    if key in seen or depth < 0:
        return uses
    seen.add(key)
    for n in ast.walk(f.node):
        if isinstance(n, ast.Subscript) and isinstance(n.value, ast.Name) and n.value.id == var:
            if isinstance(n.slice, ast.Slice):
                uses.append("header-slice" if n.slice.lower is None else "slice")
            elif _mentions_line(n.slice):
                uses.append(f"indexed:{norm(n)}")
            else:
                uses.append(f"subscript:{norm(n)}")
        elif isinstance(n, ast.Call) and call_name(n) == "enumerate" and n.args and isinstance(n.args[0], ast.Name) and n.args[0].id == var:
            start = n.args[1] if len(n.args) > 1 else next((k.value for k in n.keywords if k.arg == "start"), None)
            if isinstance(start, ast.Constant) and start.value == 1:
                uses.append("enumerate-from-1")
            else:
                uses.append("enumerate-from-0")
        elif isinstance(n, ast.Call):
            # passed to a callee?
            for i, a in enumerate(n.args):
                if isinstance(a, ast.Name) and a.id == var:
                    site = ctx.cg.site_at(f.module.name, n.lineno, n.col_offset)
                    if site is None:
                        continue
                    for cq in site["callees"]:
                        g = ctx.repo.funcs.get(cq)
                        if g is None:
                            continue
                        params = [x.arg for x in g.node.args.args]
                        off = 1 if g.cls is not None and params and params[0] in ("self", "cls") else 0
                        if i + off < len(params):
                            uses.extend(_uses_of_list(ctx, idx, g, params[i + off], depth - 1, seen))
            for k in n.keywords:
                if isinstance(k.value, ast.Name) and k.value.id == var and k.arg:
                    site = ctx.cg.site_at(f.module.name, n.lineno, n.col_offset)
                    if site is None:
                        continue
                    for cq in site["callees"]:
                        g = ctx.repo.funcs.get(cq)
                        if g is not None:
                            uses.extend(_uses_of_list(ctx, idx, g, k.arg, depth - 1, seen))
    return uses


def line_model_sites(ctx) -> list[dict]:
    """Every str.splitlines() call in src with a classification of how the resulting list is used."""
    repo = ctx.repo
    idx = AstIndex(repo)
    out = []
    for f in repo.funcs.values():
        if f.parent is not None:
            continue
        for n in ast.walk(f.node):
            is_sl = isinstance(n, ast.Call) and call_name(n) == "splitlines" and not n.args
            is_sn = isinstance(n, ast.Call) and call_name(n) == "split" and len(n.args) == 1 and isinstance(n.args[0], ast.Constant) and n.args[0].value == "\n"
            if not (is_sl or is_sn):
                continue
            rec = dict(func=f.qual.replace("src.", "", 1), fq=f.qual, loc=f"{f.module.rel}:{n.lineno}", expr=norm(n), use="no positional use", indexed_by_line=False, producer=False, model="splitlines" if is_sl else "newline")
            # find how the call is consumed
            parent = _parent_of(f.node, n)
            uses: list[str] = []
            if isinstance(parent, ast.Subscript) and isinstance(parent.slice, ast.Slice):
                uses.append("header-slice" if parent.slice.lower is None else "slice")
            elif isinstance(parent, ast.Call) and call_name(parent) == "enumerate":
                start = parent.args[1] if len(parent.args) > 1 else next((k.value for k in parent.keywords if k.arg == "start"), None)
                uses.append("enumerate-from-1" if isinstance(start, ast.Constant) and start.value == 1 else "enumerate-from-0")
            elif isinstance(parent, ast.Assign) and len(parent.targets) == 1 and isinstance(parent.targets[0], ast.Name):
                uses = _uses_of_list(ctx, idx, f, parent.targets[0].id, 3, set())
            elif isinstance(parent, ast.Subscript) and not isinstance(parent.slice, ast.Slice):
                uses.append(f"indexed:{norm(parent)}" if _mentions_line(parent.slice) else f"subscript:{norm(parent)}")
            elif isinstance(parent, ast.Return):
                uses.append("returned")
            ind = [u for u in uses if u.startswith("indexed:") or u == "enumerate-from-1"]
            if ind:
                rec["use"] = "; ".join(sorted(set(ind)))
                # enumerate-from-1 on its own in a function that constructs directive records is a producer (C12-B4)
                only_enum = all(u == "enumerate-from-1" for u in ind)
                if only_enum and isinstance(parent, ast.Call):
                    rec["producer"] = True
                else:
                    rec["indexed_by_line"] = True
                rec["positional"] = "producer" if rec["producer"] else "lookup"
                if not is_sl:
                    # split("\n") is the parsers' own line model: positional use is what we want to see
                    rec["producer"] = rec["indexed_by_line"] = False
            elif uses:
                rec["use"] = "; ".join(sorted(set(uses)))
            out.append(rec)
    out.sort(key=lambda r: (r["fq"], r["expr"]))
    return out


def _parent_of(root: ast.AST, target: ast.AST) -> ast.AST | None:
    for n in ast.walk(root):
        for c in ast.iter_child_nodes(n):
            if c is target:
                return n
    return None
