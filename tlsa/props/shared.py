"""Rule helpers shared by several properties."""

from __future__ import annotations

import ast

from ..facts import Func, argv, call_name, dotted, norm
from ..linters import AstIndex


def is_syntax_error_builder(ctx, fqual: str) -> bool:
    """Functions that turn a SyntaxError into a notice violation (not a rule verdict)."""
    f = ctx.repo.funcs.get(fqual)
    if f is None:
        return False
    if "syntax_error" in f.name:
        return True
    for a in f.node.args.args:
        if a.annotation is not None and ast.unparse(a.annotation) == "SyntaxError":
            return True
    return False


def _mentions_line(e: ast.AST) -> bool:
    for n in ast.walk(e):
        if isinstance(n, ast.Name) and ("line" in n.id.lower() or n.id in ("prev_idx", "idx", "lineno")):
            return True
        if isinstance(n, ast.Attribute) and ("line" in n.attr.lower()):
            return True
    return False


def _uses_of_list(ctx, idx: AstIndex, f: Func, var: str, depth: int, seen: set) -> list[str]:
    """How a list-of-lines variable is used inside f (following it into callees as a parameter)."""
    uses: list[str] = []
    key = (f.qual, var)
    if key in seen or depth < 0:
        return uses
    seen.add(key)
    for n in ast.walk(f.node):
        if isinstance(n, ast.Subscript) and isinstance(n.value, ast.Name) and n.value.id == var:
            if isinstance(n.slice, ast.Slice):
                uses.append("header-slice" if n.slice.lower is None else f"indexed:{norm(n)}" if _mentions_line(n.slice) else "slice")
            elif _mentions_line(n.slice):
                uses.append(f"indexed:{norm(n)}")
            else:
                uses.append(f"subscript:{norm(n)}")
        elif isinstance(n, ast.Call) and call_name(n) == "enumerate" and n.args and isinstance(n.args[0], ast.Name) and n.args[0].id == var:
            start = n.args[1] if len(n.args) > 1 else next((k.value for k in n.keywords if k.arg == "start"), None)
            if isinstance(start, ast.Constant) and start.value == 1:
                uses.append("enumerate-from-1")
            else:
                uses.append("enumerate-from-0")
        elif isinstance(n, ast.Call):
            # passed to a callee?
            for i, a in enumerate(n.args):
                if isinstance(a, ast.Name) and a.id == var:
                    site = ctx.cg.site_at(f.module.name, n.lineno, n.col_offset)
                    if site is None:
                        continue
                    for cq in site["callees"]:
                        g = ctx.repo.funcs.get(cq)
                        if g is None:
                            continue
                        params = [x.arg for x in g.node.args.args]
                        off = 1 if g.cls is not None and params and params[0] in ("self", "cls") else 0
                        if i + off < len(params):
                            uses.extend(_uses_of_list(ctx, idx, g, params[i + off], depth - 1, seen))
            for k in n.keywords:
                if isinstance(k.value, ast.Name) and k.value.id == var and k.arg:
                    site = ctx.cg.site_at(f.module.name, n.lineno, n.col_offset)
                    if site is None:
                        continue
                    for cq in site["callees"]:
                        g = ctx.repo.funcs.get(cq)
                        if g is not None:
                            uses.extend(_uses_of_list(ctx, idx, g, k.arg, depth - 1, seen))
    return uses


def line_model_sites(ctx) -> list[dict]:
    """Every str.splitlines() call in src with a classification of how the resulting list is used."""
    repo = ctx.repo
    idx = AstIndex(repo)
    out = []
    for f in repo.funcs.values():
        if f.parent is not None:
            continue
        for n in ast.walk(f.node):
            is_sl = isinstance(n, ast.Call) and call_name(n) == "splitlines" and not n.args
            is_sn = isinstance(n, ast.Call) and call_name(n) == "split" and len(n.args) >= 1 and isinstance(n.args[0], ast.Constant) and n.args[0].value == "\n"
            if not (is_sl or is_sn):
                continue
            rec = dict(func=f.qual.replace("src.", "", 1), fq=f.qual, loc=f"{f.module.rel}:{n.lineno}", expr=norm(n), use="no positional use", indexed_by_line=False, producer=False, model="splitlines" if is_sl else "newline")
            # find how the call is consumed
            parent = _parent_of(f.node, n)
            uses: list[str] = []
            if isinstance(parent, ast.Subscript) and isinstance(parent.slice, ast.Slice):
                uses.append("header-slice" if parent.slice.lower is None else f"indexed:{norm(parent)}" if _mentions_line(parent.slice) else "slice")
            elif isinstance(parent, ast.Call) and call_name(parent) == "enumerate":
                start = parent.args[1] if len(parent.args) > 1 else next((k.value for k in parent.keywords if k.arg == "start"), None)
                uses.append("enumerate-from-1" if isinstance(start, ast.Constant) and start.value == 1 else "enumerate-from-0")
            elif isinstance(parent, ast.Assign) and len(parent.targets) == 1 and isinstance(parent.targets[0], ast.Name):
                uses = _uses_of_list(ctx, idx, f, parent.targets[0].id, 3, set())
            elif isinstance(parent, ast.Subscript) and not isinstance(parent.slice, ast.Slice):
                uses.append(f"indexed:{norm(parent)}" if _mentions_line(parent.slice) else f"subscript:{norm(parent)}")
            elif isinstance(parent, ast.Return):
                uses.append("returned")
            ind = [u for u in uses if u.startswith("indexed:") or u == "enumerate-from-1"]
            if ind:
                rec["use"] = "; ".join(sorted(set(ind)))
                # enumerate-from-1 on its own in a function that constructs directive records is a producer (C12-B4)
                only_enum = all(u == "enumerate-from-1" for u in ind)
                if only_enum and isinstance(parent, ast.Call):
                    rec["producer"] = True
                else:
                    rec["indexed_by_line"] = True
                rec["positional"] = "producer" if rec["producer"] else "lookup"
                if not is_sl:
                    # split("\n") is the parsers' own line model: positional use is what we want to see
                    rec["producer"] = rec["indexed_by_line"] = False
            elif uses:
                rec["use"] = "; ".join(sorted(set(uses)))
            out.append(rec)
    out.sort(key=lambda r: (r["fq"], r["expr"]))
    return out


def _parent_of(root: ast.AST, target: ast.AST) -> ast.AST | None:
    for n in ast.walk(root):
        for c in ast.iter_child_nodes(n):
            if c is target:
                return n
    return None


# --------------------------------------------------------------------------- traversal completeness
def collector_walkers(ctx, prefixes=("src.linters", "src.analyzers")) -> list[dict]:
    """Self-recursive tree walkers that collect into an accumulator parameter.  Verdict: on every non-raising path
    the function loops over ALL children of its node parameter and recurses into each (no pruning early return)."""
    from ..util import func_paths

    out = []
    for f in sorted(ctx.repo.funcs.values(), key=lambda x: x.qual):
        if f.parent is not None or not f.module.name.startswith(prefixes):
            continue
        if not any(isinstance(x, ast.Call) and call_name(x) == f.name for x in ast.walk(f.node)):
            continue
        params = [a.arg for a in f.node.args.args if a.arg not in ("self", "cls")]
        acc = [p for p in params if any(isinstance(x, ast.Call) and isinstance(x.func, ast.Attribute) and x.func.attr in ("append", "extend", "add") and isinstance(x.func.value, ast.Name) and x.func.value.id == p for x in ast.walk(f.node))]
        if not acc or not params:
            continue
        node_param = params[0]
        paths = func_paths(f)
        rec = dict(func=f.qual.replace("src.", "", 1), fq=f.qual, loc=f.loc, ok=True, detail="")
        if paths is None:
            rec.update(ok=None, detail="too many paths")
            out.append(rec)
            continue
        n_paths = 0
        for p in paths:
            if p[-1][0] == "raise":
                continue
            n_paths += 1
            full = False
            for ev in p:
                if ev[0] == "iter" and isinstance(ev[1], (ast.For, ast.AsyncFor)):
                    it = ev[1].iter
                    its = ast.unparse(it)
                    all_children = its in (f"{node_param}.children", f"ast.iter_child_nodes({node_param})")
                    recurses = any(isinstance(x, ast.Call) and call_name(x) == f.name and any(isinstance(a, ast.Name) and isinstance(ev[1].target, ast.Name) and a.id == ev[1].target.id for a in argv(x)) for s in ev[1].body for x in ast.walk(s))
                    guarded = any(isinstance(s, ast.If) and any(isinstance(x, ast.Call) and call_name(x) == f.name for x in ast.walk(s)) and not any(isinstance(x, ast.Call) and call_name(x) == f.name for o in s.orelse for x in ast.walk(o)) for s in ev[1].body)
                    if all_children and recurses and not guarded:
                        full = True
            if not full:
                rec.update(ok=False, detail=f"a path ends ({norm(p[-1][1]) if p[-1][1] is not None else 'falls through'}) without recursing into every child of `{node_param}`")
        rec["detail"] = rec["detail"] or f"all {n_paths} paths recurse into every child of `{node_param}`"
        out.append(rec)
    return out


def visitor_methods(ctx, prefix="src.linters") -> list[dict]:
    """visit_* methods of ast.NodeVisitor subclasses: every path must reach self.generic_visit(node) (directly or through a
    self-helper all of whose paths call it), otherwise the subtree below that node is never analysed."""
    from ..util import func_paths

    def reaches(f, depth=2) -> bool | None:
        paths = func_paths(f)
        if paths is None:
            return None
        for p in paths:
            if p[-1][0] == "raise":
                continue
            ok = False
            for ev in p:
                for root in __import__("tlsa.cfg", fromlist=["event_nodes"]).event_nodes(ev):
                    for n in ast.walk(root):
                        if isinstance(n, ast.Call) and call_name(n) in ("generic_visit",):
                            ok = True
                        elif isinstance(n, ast.Call) and isinstance(n.func, ast.Attribute) and isinstance(n.func.value, ast.Name) and n.func.value.id == "self" and depth > 0 and f.cls is not None:
                            g = ctx.repo.find_method(f.cls.qual, n.func.attr)
                            if g is not None and g is not f and any(isinstance(a, ast.Name) and a.id == f.node.args.args[1].arg for a in n.args) and reaches(g, depth - 1):
                                ok = True
            if not ok:
                return False
        return True

    out = []
    for f in sorted(ctx.repo.funcs.values(), key=lambda x: x.qual):
        if not (f.name.startswith("visit_") and f.cls is not None and f.module.name.startswith(prefix) and len(f.node.args.args) >= 2):
            continue
        if not any("NodeVisitor" in b for b in ctx.repo.mro(f.cls.qual)):
            continue
        v = reaches(f)
        out.append(dict(func=f.qual.replace("src.", "", 1), fq=f.qual, loc=f.loc, ok=v, detail="generic_visit reached on every path" if v else "a path returns without generic_visit: the node's subtree is skipped"))
    return out


def statement_fields() -> set[str]:
    """Fields of Python ast node classes that hold statements (parsed from the ASDL signatures in the class docstrings)."""
    import re

    out = set()
    for name in dir(ast):
        c = getattr(ast, name)
        if isinstance(c, type) and issubclass(c, ast.AST) and c.__doc__:
            for typ, fld in re.findall(r"(\w+)\*\s+(\w+)", c.__doc__):
                if typ in ("stmt", "excepthandler", "match_case"):
                    out.add(fld)
    return out


def config_memoisation(ctx, L) -> list[dict]:
    """Every method of every rule class (own and inherited src.* methods): does it store a language-dependent parsed
    configuration (the result of load_linter_config(...) or <Config>.from_dict(..., language), directly, through a local
    name or inside a tuple/list) on the rule instance without any test on the file's language?  The rule instance lives
    for the whole run and sees files of several languages."""
    from ..linters import ABSTRACT_BASES

    def is_loader(call: ast.Call) -> bool:
        nm = call_name(call)
        if nm == "load_linter_config":
            return True
        if nm == "from_dict" and (len(call.args) >= 2 or any(k.arg == "language" for k in call.keywords)):
            return True
        return nm in ("_load_config", "_get_config", "_try_load_production_config", "_try_load_test_config") and isinstance(call.func, ast.Attribute) and isinstance(call.func.value, ast.Name) and call.func.value.id == "self"

    out = []
    seen = set()
    for r in L.rules:
        for cq in ctx.repo.mro(r.qual):
            c = ctx.repo.classes.get(cq)
            if c is None or not cq.startswith("src."):
                continue
            for nm, f in sorted(c.methods.items()):
                if (r.short, nm) in seen:
                    continue
                seen.add((r.short, nm))
                tainted: set[str] = set()
                stores = []
                changed = True
                while changed:
                    changed = False
                    for n in ast.walk(f.node):
                        if not isinstance(n, (ast.Assign, ast.AnnAssign)) or n.value is None:
                            continue
                        rhs_t = any((isinstance(x, ast.Call) and is_loader(x)) or (isinstance(x, ast.Name) and x.id in tainted) for x in ast.walk(n.value))
                        if not rhs_t:
                            continue
                        for t in (n.targets if isinstance(n, ast.Assign) else [n.target]):
                            for el in (t.elts if isinstance(t, (ast.Tuple, ast.List)) else [t]):
                                if isinstance(el, ast.Name) and el.id not in tainted:
                                    tainted.add(el.id)
                                    changed = True
                                base = el
                                while isinstance(base, ast.Subscript):
                                    base = base.value
                                if isinstance(base, ast.Attribute) and isinstance(base.value, ast.Name) and base.value.id == "self" and n not in stores:
                                    stores.append(n)
                keyed = any((isinstance(x, ast.Attribute) and x.attr == "language") or (isinstance(x, ast.Name) and x.id in ("language", "lang")) for n in ast.walk(f.node) if isinstance(n, (ast.If, ast.IfExp, ast.Subscript))
                            for x in ast.walk(n.test if isinstance(n, (ast.If, ast.IfExp)) else n.slice))
                if nm in ("_load_config", "_get_config") or stores:
                    if c.qual in ABSTRACT_BASES and not stores:
                        continue
                    out.append(dict(rule=r.short, func=f, name=nm, bad=bool(stores) and not keyed, store=norm(stores[0]) if stores else ""))
    return out


def loc_counters(ctx) -> list[dict]:
    """The SRP lines-of-code counters of the three languages: does each count only lines whose strip() is non-empty?
    The filter may be written in place (comprehension / loop condition) or in a private predicate it calls."""
    from .. import inline

    repo = ctx.repo
    out = []
    # the per-language LOC counters, by role: functions of the SRP package that cut a slice of lines out of the file's
    # source (split on newlines + a slice subscript); wrappers that only delegate are not counters themselves
    def _is_counter(g):
        splits = any(isinstance(n, ast.Call) and call_name(n) in ("split", "splitlines") for n in ast.walk(g.node))
        slices = any(isinstance(n, ast.Subscript) and isinstance(n.slice, ast.Slice) for n in ast.walk(g.node))
        return splits and slices and g.parent is None
    by_name = [f for f in repo.funcs_in("src.linters.srp.") if f.name in ("count_loc", "_node_loc") and f.cls is None or f.name == "_node_loc"]
    cands = by_name + [f for f in repo.funcs_in("src.linters.srp.") if _is_counter(f) and f not in by_name]
    seen = set()
    for f in cands:
        if f.qual in seen:
            continue
        seen.add(f.qual)
        # (condition, function it lives in)
        conds: list[tuple[ast.expr, Func]] = []
        owners = [f] + inline.callees(repo, f)
        for g in owners:
            for n in ast.walk(g.node):
                if isinstance(n, (ast.ListComp, ast.GeneratorExp, ast.SetComp)):
                    for gen in n.generators:
                        conds += [(c, g) for c in gen.ifs]
                elif isinstance(n, ast.For):
                    conds += [(x.test, g) for x in ast.walk(n) if isinstance(x, ast.If)]
        # predicates called inside a condition contribute their return expressions
        more: list[tuple[ast.expr, Func]] = []
        for c, g in conds:
            for call in [x for x in ast.walk(c) if isinstance(x, ast.Call)]:
                h = inline.resolve_call(repo, g, call)
                if h is not None and h.module.name.startswith("src"):
                    more += [(r.value, h) for r in ast.walk(h.node) if isinstance(r, ast.Return) and r.value is not None]
        conds += more

        def stripped_names(g: Func) -> set[str]:
            names = set()
            for n in ast.walk(g.node):
                if isinstance(n, ast.Assign) and isinstance(n.value, ast.Call) and call_name(n.value) == "strip":
                    names |= {t.id for t in n.targets if isinstance(t, ast.Name)}
                if isinstance(n, ast.NamedExpr) and isinstance(n.value, ast.Call) and call_name(n.value) == "strip" and isinstance(n.target, ast.Name):
                    names.add(n.target.id)
            return names

        def truth_operands(e: ast.expr):
            if isinstance(e, ast.BoolOp):
                for v in e.values:
                    yield from truth_operands(v)
            elif isinstance(e, ast.UnaryOp) and isinstance(e.op, ast.Not):
                yield from truth_operands(e.operand)
            elif isinstance(e, ast.Call) and call_name(e) == "bool" and e.args:
                yield from truth_operands(e.args[0])
            else:
                yield e

        blank_filtered = False
        raw_truthiness = False
        for c, g in conds:
            ok_names = stripped_names(g)
            for op in truth_operands(c):
                if isinstance(op, ast.NamedExpr):
                    op_v = op.value
                    if isinstance(op_v, ast.Call) and call_name(op_v) == "strip":
                        blank_filtered = True
                    continue
                if isinstance(op, ast.Call) and call_name(op) == "strip":
                    blank_filtered = True
                elif isinstance(op, ast.Name):
                    if op.id in ok_names:
                        blank_filtered = True
                    elif any(isinstance(t, ast.Name) and t.id == op.id for n in ast.walk(g.node) if isinstance(n, (ast.comprehension, ast.For)) for t in [n.target]) or op.id in {a.arg for a in g.node.args.args}:
                        raw_truthiness = True   # the loop variable / the line parameter itself, unstripped
        arithmetic_only = not conds
        out.append(dict(func=f.qual.replace("src.", "", 1), loc=f.loc, ok=blank_filtered and not raw_truthiness and not arithmetic_only,
                        detail="counts lines whose strip() is non-empty and not a comment" if blank_filtered and not raw_truthiness else ("end - start + 1: blank and comment lines count as code" if arithmetic_only else "the blank-line test is applied to the raw line, so whitespace-only lines count as code")))
    return out


def cached_content_readers(ctx) -> list[dict]:
    """functools cache decorators on functions from which a file read is reachable (the result depends on file content,
    the cache key does not)."""
    repo, cg = ctx.repo, ctx.cg
    READS = {"pathlib.Path.read_text", "pathlib.Path.read_bytes", "builtins.open", "pathlib.Path.open", "pathlib.Path.stat", "pathlib.Path.exists", "io.open"}
    out = []
    for f in repo.funcs.values():
        decs = [d for d in f.decorators if any(t in d for t in ("lru_cache", "functools.cache", "cached_property")) or d == "cache"]
        if not decs or not f.module.name.startswith("src."):
            continue
        pr = cg.reach([f.qual])
        reads = sorted(q for q in pr if q in READS or q.replace("new:", "") in READS)
        out.append(dict(func=f.qual.replace("src.", "", 1), loc=f.loc, decorator=decs[0], reads=reads))
    return out


def whole_tree_finders(ctx) -> list[dict]:
    """Python `find_all_*` functions that take a parsed tree: they must enumerate with ast.walk(tree) (or a NodeVisitor),
    not with a hand-written descent over selected fields."""
    out = []
    for f in sorted(ctx.repo.funcs.values(), key=lambda x: x.qual):
        if not (f.module.name.startswith("src.linters.") and f.name.startswith("find_all_") and "python" in f.module.name):
            continue
        params = [a.arg for a in f.node.args.args if a.arg not in ("self", "cls")]
        if not params:
            continue
        walks = [n for n in ast.walk(f.node) if isinstance(n, ast.Call) and dotted(n.func) == "ast.walk" and n.args and isinstance(n.args[0], ast.Name) and n.args[0].id == params[0]]
        visits = [n for n in ast.walk(f.node) if isinstance(n, ast.Call) and (call_name(n) in ("visit", "generic_visit") or (call_name(n).startswith("find_all_") and n.args and isinstance(n.args[0], ast.Name) and n.args[0].id == params[0] and not (isinstance(n.func, ast.Attribute) and call_name(n) == f.name)))]
        out.append(dict(func=f.qual.replace("src.", "", 1), loc=f.loc, ok=bool(walks or visits), detail="ast.walk(tree)" if walks else "NodeVisitor" if visits else "hand-written descent: nodes below unvisited fields (function bodies, if/try blocks) are never found"))
    return out


MODULE_MUT = {"append", "extend", "add", "update", "setdefault", "insert", "remove", "discard", "pop", "popitem", "clear", "appendleft"}


def module_state_mutations(ctx) -> tuple[int, list[dict]]:
    """Module-level names of src.* modules that a function re-binds (`global X`), mutates through a container method or
    assigns into (X[k] = v): state that lives as long as the process.  Returns (#module-level names examined, mutations)."""
    out = []
    n_glob = 0
    for m in sorted(ctx.repo.modules.values(), key=lambda x: x.name):
        if not m.name.startswith("src"):
            continue
        tree = ast.parse(m.src)
        glob = set()
        for st in tree.body:
            if isinstance(st, ast.Assign):
                glob |= {t.id for t in st.targets if isinstance(t, ast.Name)}
            elif isinstance(st, ast.AnnAssign) and isinstance(st.target, ast.Name):
                glob.add(st.target.id)
        n_glob += len(glob)
        for fn in ast.walk(tree):
            if not isinstance(fn, (ast.FunctionDef, ast.AsyncFunctionDef)) or not glob:
                continue
            gl = {n for x in ast.walk(fn) if isinstance(x, ast.Global) for n in x.names}
            locs = {a.arg for a in fn.args.posonlyargs + fn.args.args + fn.args.kwonlyargs}
            # names whose value depends on what the caller passed in (parameters, transitively through local assignments)
            dep = set(locs) - {"self", "cls"}
            changed = True
            while changed:
                changed = False
                for x in ast.walk(fn):
                    if isinstance(x, (ast.Assign, ast.AnnAssign)) and x.value is not None and any(isinstance(y, ast.Name) and y.id in dep for y in ast.walk(x.value)):
                        for t in (x.targets if isinstance(x, ast.Assign) else [x.target]):
                            for el in ast.walk(t):
                                if isinstance(el, ast.Name) and isinstance(el.ctx, ast.Store) and el.id not in dep and el.id not in gl:
                                    dep.add(el.id)
                                    changed = True
            def _dep(e) -> bool:
                return e is not None and any(isinstance(y, ast.Name) and y.id in dep for y in ast.walk(e))
            for x in ast.walk(fn):
                tg = []
                if isinstance(x, ast.Assign):
                    tg = x.targets
                elif isinstance(x, (ast.AnnAssign, ast.AugAssign)):
                    tg = [x.target]
                elif isinstance(x, (ast.For, ast.comprehension)):
                    tg = [x.target]
                elif isinstance(x, ast.NamedExpr):
                    tg = [x.target]
                for t in tg:
                    for el in ast.walk(t):
                        if isinstance(el, ast.Name) and isinstance(el.ctx, ast.Store):
                            if el.id in gl and el.id in glob:
                                out.append(dict(module=m, func=fn.name, name=el.id, how="re-bound through `global`", line=x.lineno if hasattr(x, "lineno") else fn.lineno, data=_dep(getattr(x, "value", None))))
                            elif el.id not in gl:
                                locs.add(el.id)
            for x in ast.walk(fn):
                if isinstance(x, ast.Call) and isinstance(x.func, ast.Attribute) and x.func.attr in MODULE_MUT and isinstance(x.func.value, ast.Name) and x.func.value.id in glob and x.func.value.id not in locs:
                    out.append(dict(module=m, func=fn.name, name=x.func.value.id, how=f".{x.func.attr}()", line=x.lineno, data=any(_dep(a) for a in list(x.args) + [k.value for k in x.keywords])))
                if isinstance(x, (ast.Assign, ast.AugAssign, ast.Delete)):
                    for t in (x.targets if isinstance(x, (ast.Assign, ast.Delete)) else [x.target]):
                        if isinstance(t, ast.Subscript) and isinstance(t.value, ast.Name) and t.value.id in glob and t.value.id not in locs:
                            out.append(dict(module=m, func=fn.name, name=t.value.id, how="item assignment", line=x.lineno, data=_dep(t.slice) or _dep(getattr(x, "value", None))))
        # --- aliases: `self.A = NAME` / `x = NAME` binds the module-level container itself (no copy); a mutation of the
        #     alias is a mutation of NAME.  And class-level containers (`class C: cache: dict = {}`) are shared by all
        #     instances: `self.cache[k] = v` without re-binding in __init__ writes process-wide state.
        def _mutable(v):
            if isinstance(v, (ast.Set, ast.List, ast.Dict, ast.ListComp, ast.SetComp, ast.DictComp)):
                return True
            return isinstance(v, ast.Call) and isinstance(v.func, ast.Name) and v.func.id in ("set", "list", "dict", "defaultdict", "OrderedDict", "Counter", "deque")
        gvals = {}
        for st in tree.body:
            if isinstance(st, ast.Assign) and len(st.targets) == 1 and isinstance(st.targets[0], ast.Name):
                gvals[st.targets[0].id] = st.value
            elif isinstance(st, ast.AnnAssign) and isinstance(st.target, ast.Name) and st.value is not None:
                gvals[st.target.id] = st.value
        mut_globals = {k for k, v in gvals.items() if _mutable(v)}

        def _attr_muts(scope, attr):
            """mutating uses of self.<attr> inside scope: (how, line, value-depends-on-something) """
            res = []
            for x in ast.walk(scope):
                if isinstance(x, ast.Call) and isinstance(x.func, ast.Attribute) and x.func.attr in MODULE_MUT and isinstance(x.func.value, ast.Attribute) and x.func.value.attr == attr and isinstance(x.func.value.value, ast.Name) and x.func.value.value.id in ("self", "cls"):
                    res.append((f".{x.func.attr}()", x.lineno, bool(x.args or x.keywords)))
                if isinstance(x, (ast.Assign, ast.AugAssign, ast.Delete)):
                    for t in (x.targets if isinstance(x, (ast.Assign, ast.Delete)) else [x.target]):
                        if isinstance(t, ast.Subscript) and isinstance(t.value, ast.Attribute) and t.value.attr == attr and isinstance(t.value.value, ast.Name) and t.value.value.id in ("self", "cls"):
                            res.append(("item assignment", x.lineno, True))
            return res

        for cl in [c for c in ast.walk(tree) if isinstance(c, ast.ClassDef)]:
            for fn in [x for x in cl.body if isinstance(x, (ast.FunctionDef, ast.AsyncFunctionDef))]:
                for x in ast.walk(fn):
                    if isinstance(x, ast.Assign) and isinstance(x.value, ast.Name) and x.value.id in mut_globals:
                        for t in x.targets:
                            if isinstance(t, ast.Attribute) and isinstance(t.value, ast.Name) and t.value.id == "self":
                                for how, line, dep_ in _attr_muts(cl, t.attr):
                                    out.append(dict(module=m, func=f"{cl.name}.{fn.name}", name=x.value.id, how=f"bound uncopied to self.{t.attr} ({fn.name}:{x.lineno}) and changed through it by {how}", line=line, data=dep_))
            # class-level containers mutated through instances and never re-bound per instance
            for st in cl.body:
                tgt, val = (st.targets[0], st.value) if isinstance(st, ast.Assign) and len(st.targets) == 1 else (st.target, st.value) if isinstance(st, ast.AnnAssign) else (None, None)
                if not (isinstance(tgt, ast.Name) and val is not None and _mutable(val)):
                    continue
                if any(isinstance(d, ast.Name) and d.id == "dataclass" or isinstance(d, ast.Call) and isinstance(d.func, ast.Name) and d.func.id == "dataclass" for d in cl.decorator_list):
                    continue
                rebound = any(isinstance(x, (ast.Assign, ast.AnnAssign)) and any(isinstance(t, ast.Attribute) and t.attr == tgt.id and isinstance(t.value, ast.Name) and t.value.id == "self" for t in (x.targets if isinstance(x, ast.Assign) else [x.target]))
                              for fn in cl.body if isinstance(fn, ast.FunctionDef) and fn.name == "__init__" for x in ast.walk(fn))
                if rebound:
                    continue
                for how, line, dep_ in _attr_muts(cl, tgt.id):
                    out.append(dict(module=m, func=cl.name, name=f"{cl.name}.{tgt.id}", how=f"class-level container shared by all instances, changed through self.{tgt.id} by {how}", line=line, data=dep_))
    return n_glob, out


def worklist_walkers(ctx, prefixes) -> list[dict]:
    """Iterative tree walks (`pending = [...]; while pending: cur = pending.pop(); ...; pending.extend(cur.children)`).
    Verdict: the work list starts with the node the function was given - `[node]` - not with `node.children`, which
    leaves the node itself untested (a bare identifier as the tail expression of a block, a one-node subtree)."""
    out = []
    for f in sorted(ctx.repo.funcs.values(), key=lambda x: x.qual):
        if f.parent is not None or not f.module.name.startswith(prefixes):
            continue
        params = [a.arg for a in f.node.args.args if a.arg not in ("self", "cls")]
        if not params:
            continue
        for loop in [n for n in ast.walk(f.node) if isinstance(n, ast.While) and isinstance(n.test, ast.Name)]:
            wl = loop.test.id
            pops = any(isinstance(c, ast.Call) and isinstance(c.func, ast.Attribute) and c.func.attr in ("pop", "popleft") and isinstance(c.func.value, ast.Name) and c.func.value.id == wl for c in ast.walk(loop))
            feeds = any(isinstance(c, ast.Call) and isinstance(c.func, ast.Attribute) and c.func.attr in ("extend", "append", "extendleft") and isinstance(c.func.value, ast.Name) and c.func.value.id == wl
                        and any(isinstance(x, ast.Attribute) and x.attr in ("children", "named_children") for a in c.args for x in ast.walk(a)) for c in ast.walk(loop))
            if not (pops and feeds):
                continue
            init = next((a.value for a in ast.walk(f.node) if isinstance(a, (ast.Assign, ast.AnnAssign)) and getattr(a, "value", None) is not None and a.lineno < loop.lineno
                         and any(isinstance(t, ast.Name) and t.id == wl for t in (a.targets if isinstance(a, ast.Assign) else [a.target]))), None)
            from_children = init is not None and any(isinstance(x, ast.Attribute) and x.attr in ("children", "named_children") and isinstance(x.value, ast.Name) and x.value.id == params[0] for x in ast.walk(init))
            out.append(dict(func=f.qual.replace("src.", "", 1), loc=f"{f.module.rel}:{loop.lineno}", ok=not from_children, init=norm(init) if init is not None else "?"))
    return out


def param_mutations(f: Func, pname: str) -> list[ast.AST]:
    """Statements of f that change the mapping/list passed in as parameter `pname` in place (update/setdefault/pop/...,
    item assignment or deletion) - the caller's object, which outlives the call."""
    out = []
    # plain aliases (`thresholds = config`, also `x = config if c else {}`): the same object under another name
    names = {pname}
    for _ in range(2):
        for n in ast.walk(f.node):
            if isinstance(n, ast.Assign) and len(n.targets) == 1 and isinstance(n.targets[0], ast.Name) and n.targets[0].id != pname:
                v = n.value
                alts = [v.body, v.orelse] if isinstance(v, ast.IfExp) else v.values if isinstance(v, ast.BoolOp) else [v]
                if any(isinstance(a, ast.Name) and a.id in names for a in alts):
                    names.add(n.targets[0].id)
    for n in ast.walk(f.node):
        if isinstance(n, ast.Call) and isinstance(n.func, ast.Attribute) and n.func.attr in MODULE_MUT and isinstance(n.func.value, ast.Name) and n.func.value.id in names:
            out.append(n)
        elif isinstance(n, (ast.Assign, ast.AugAssign, ast.Delete)):
            for t in (n.targets if isinstance(n, (ast.Assign, ast.Delete)) else [n.target]):
                if isinstance(t, ast.Subscript) and isinstance(t.value, ast.Name) and t.value.id in names:
                    out.append(n)
            # `config |= other` / `items += more` update the caller's dict / list in place
            if isinstance(n, ast.AugAssign) and isinstance(n.target, ast.Name) and n.target.id in names and isinstance(n.op, (ast.BitOr, ast.Add)):
                out.append(n)
    rebound = any(isinstance(n, ast.Assign) and any(isinstance(t, ast.Name) and t.id == pname for t in n.targets) for n in ast.walk(f.node))
    return [] if rebound else out   # `config = dict(config)` first: a private copy is being changed


def ancestor_walks(f: Func) -> list[dict]:
    """`cur = X.parent; while cur is not None: ...; cur = cur.parent` loops of a function.  For each: the node kinds that
    end it with acceptance (`return True`) and every other way out of the loop body (return of anything else, break):
    an enclosing-context test ("is this literal anywhere inside a const item?") must have none of the latter."""
    out = []
    for loop in [n for n in ast.walk(f.node) if isinstance(n, (ast.While, ast.For))]:
        steps = [n for n in ast.walk(loop) if isinstance(n, ast.Assign) and isinstance(n.value, ast.Attribute) and n.value.attr == "parent" and isinstance(n.targets[0], ast.Name)
                 and isinstance(n.value.value, ast.Name) and n.value.value.id == n.targets[0].id]
        if not steps:
            continue
        var = steps[0].targets[0].id
        if isinstance(loop, ast.For):
            # `for _ in range(N): ... cur = cur.parent`: a climb with a fixed number of steps never reaches the root
            out.append(dict(loop=loop, var=var, to_root=False, early=[], conditional_step=False, bounded=norm(loop.iter)))
            continue
        to_root = norm(loop.test) in (f"{var} is not None", var, f"{var} != None")
        if not to_root and isinstance(loop.test, ast.BoolOp) and isinstance(loop.test.op, ast.And) and norm(loop.test.values[0]) in (f"{var} is not None", var, f"{var} != None"):
            # `while cur is not None and cur.type not in ACCEPT: cur = cur.parent` + `return cur is not None`: the loop stops
            # below the root only AT an accepted kind, and the result says so - the same climb with the acceptance in the test
            rest = loop.test.values[1:]
            neg_kind = all(isinstance(v, ast.Compare) and len(v.ops) == 1 and isinstance(v.ops[0], (ast.NotIn, ast.NotEq)) and isinstance(v.left, ast.Attribute) and v.left.attr == "type"
                           and isinstance(v.left.value, ast.Name) and v.left.value.id == var for v in rest)
            after = [r for r in ast.walk(f.node) if isinstance(r, ast.Return) and r.lineno > loop.end_lineno and r.value is not None]
            if neg_kind and after and all(norm(r.value) in (f"{var} is not None", f"{var} != None", f"bool({var})") for r in after):
                to_root = True
        early = [n for n in ast.walk(loop) if isinstance(n, ast.Break) or (isinstance(n, ast.Return) and not (isinstance(n.value, ast.Constant) and n.value.value is True))]
        # leaving at the root node kind itself is not "early": nothing is above it
        root_ifs = [n for n in ast.walk(loop) if isinstance(n, ast.If) and isinstance(n.test, ast.Compare) and len(n.test.ops) == 1 and isinstance(n.test.ops[0], (ast.Eq, ast.In))
                    and isinstance(n.test.left, ast.Attribute) and n.test.left.attr == "type"
                    and all(isinstance(c, ast.Constant) and c.value in ("source_file", "program") for cmp in n.test.comparators for c in (cmp.elts if isinstance(cmp, (ast.Tuple, ast.Set, ast.List)) else [cmp]))]
        early = [e for e in early if not any(e in i.body for i in root_ifs)]
        cond_steps = [s for s in steps if not any(s is st for st in loop.body)]
        out.append(dict(loop=loop, var=var, to_root=to_root, early=early, conditional_step=bool(cond_steps) and len(cond_steps) == len(steps)))
    return out
