"""C19 - every linter honours its documented examples (narrow structural claim).

Decides (structure only) - necessary conditions for a documented example to be reportable at all:
 Y1 every rule id the docs use in a suppression or an output example is an id some linter emits (or an alias / a
    linter prefix of one);
 Y2 every language a linter's page marks as supported is one detect_language can produce and one the rule dispatches;
 Y3 every node kind the TypeScript analyzers of the pattern linters test is a named kind of the linked grammar;
 Y4 the collecting tree walkers and NodeVisitor methods of the pattern linters never prune a subtree.
Not decided: whether any particular example is detected, anywhere it is embedded - that is behaviour over programs.
"""

from __future__ import annotations

import ast
import glob
import os
import re

from .. import clifacts, docs, kinds
from ..facts import UNKNOWN, call_name, norm
from ..linters import Linters
from .c01 import _kind_verdict
from .c05 import RULE_DOCS

LANG_WORDS = {"python": ["python"], "typescript": ["typescript"], "javascript": ["javascript"], "typescript/javascript": ["typescript", "javascript"], "rust": ["rust"],
              "bash": ["bash"], "markdown": ["markdown"], "css": ["css"], "css/scss": ["css"]}
NON_COMMAND_WORDS = {"is", "in", "uses", "supports", "sees", "provides", "linters", "into", "import", "from", "automatically", "as", "with", "codebase", "to", "and", "for", "on", "will", "can", "has", "the", "a",
                     "run", "cli", "commands", "command", "exits", "returns", "treats", "reads", "checks", "does", "configuration", "config-file", "output", "docker", "itself", "project", "repository", "version",
                     "installed", "package", "detects", "reports", "looks", "follows", "via", "or", "by", "at", "also", "only", "should", "would", "may", "must", "team", "ignore", "directive", "directives"}
ANON_OK = {
    ("linters.cqs.typescript_function_analyzer._get_function_child_positions", "function"): "deliberately refers to the `function` keyword token child of a function_declaration (filters the extractor's duplicate)",
    ("linters.cqs.typescript_function_analyzer._filter_duplicate_functions", "function"): "same: drops the keyword-token pseudo-function the extractor yields",
    ("linters.cqs.typescript_function_analyzer._is_async_function", "async"): "async is an anonymous modifier token",
    ("linters.dry.typescript_constant_extractor._is_const_declaration", "const"): "const is an anonymous keyword token of lexical_declaration",
    ("linters.dry.typescript_statement_detector._contains_function_body", "function"): "listed next to its named twin function_expression in the same test",
    ("linters.stringly_typed.typescript.comparison_tracker.TypeScriptComparisonTracker._is_typeof_expression", "typeof"): "typeof is the anonymous operator token of unary_expression",
}


def check(run, ctx):
    repo = ctx.repo
    L = Linters(ctx)
    ids = set(L.emitted_ids()) - {"?"}
    aliases = repo.fold(repo.mod("src.core.rule_aliases"), repo.mod("src.core.rule_aliases").assigns.get("RULE_ID_ALIASES")) or {}
    linter_aliases = repo.fold(repo.mod("src.core.rule_aliases"), repo.mod("src.core.rule_aliases").assigns.get("LINTER_ALIASES")) or {}
    prefixes = {i.split(".")[0] for i in ids}
    pages = sorted(glob.glob(os.path.join(ctx.root, "docs", "*-linter.md")))
    run.require(len(pages) >= 18, f"only {len(pages)} linter doc pages")

    Y1 = run.rule("Y1", "rule ids used in documented suppressions / output examples are emitted ids, aliases or linter prefixes", floor=25,
                  decides="a documented suppression or filter names a rule that exists; a documented command can be run")
    id_re = re.compile(r"(?:(?:thailint|design-lint):\s*ignore(?:-file|-next-line)?\[|(?:thailint|design-lint):\s*ignore-start\s+|\"rule_id\":\s*\"|Rule ID[^`\n]*`|\"ruleId\":\s*\")([a-z][a-z0-9_-]*(?:\.[a-z0-9_*-]+)?)")
    tick_re = re.compile(r"`((?:" + "|".join(sorted(re.escape(x) for x in prefixes)) + r")\.[a-z][a-z0-9-]*)`")
    seen = set()
    foreign_ok = {"magic-number", "rule-id", "rule-name", "rule", "rules", "rule1", "rule2", "my-rule", "category", "linter-name", "specific-rule"}
    for pg in pages + [os.path.join(ctx.root, "docs", "how-to-ignore-violations.md")]:
        txt = open(pg, encoding="utf-8").read()
        rel = os.path.relpath(pg, ctx.root)
        for m in list(id_re.finditer(txt)) + list(tick_re.finditer(txt)):
            rid = m.group(1)
            if (rel, rid) in seen:
                continue
            seen.add((rel, rid))
            base = rid.rstrip("*").rstrip(".")
            if rid in ids or rid in aliases or base in prefixes or base in linter_aliases or base in ids:
                run.ok(Y1, f"{rel}:{rid}", "emitted id / alias / linter prefix")
            elif base in foreign_ok or any(base.startswith(p) for p in ("E", "W")):
                run.ok(Y1, f"{rel}:{rid}", "placeholder in prose", nontrivial=False)
            else:
                line = txt[: m.start()].count("\n") + 1
                run.finding(Y1, rel, f"unknown-rule-id:{rid}", f"{rel}:{line} names rule id {rid!r}, which no linter emits (emitted prefixes: {sorted(prefixes)[:8]}...): a suppression or filter written as documented matches nothing", f"{rel}:{line}")
    Y2 = run.rule("Y2", "each language a linter page marks (Fully/Partially) Supported is produced by detect_language and dispatched by the rule", floor=25,
                  decides="the documented examples of that language can be analysed at all")
    ld = repo.mod("src.orchestrator.language_detector")
    emap = repo.fold(ld, ld.assigns.get("EXTENSION_MAP"))
    image = set(emap.values()) | {"python"}
    for r in L.rules:
        pg = RULE_DOCS[r.short][0][0]
        txt = ctx.text(pg)
        sec = txt[txt.find("## Language Support"):] if "## Language Support" in txt else ""
        sec = sec[: sec.find("\n## ", 5)] if "\n## " in sec[5:] else sec
        claimed = []
        for m in re.finditer(r"^### ([A-Za-z/]+?)(?: Support)?\s*\n+\s*\*\*([^*]+)\*\*", sec, re.M):
            name, status = m.group(1).strip().lower(), m.group(2).lower()
            if name in LANG_WORDS and re.match(r"(fully |partially )?supported", status.strip()):
                claimed += LANG_WORDS[name]
        handled = set()
        for r2 in L.rules:
            if RULE_DOCS[r2.short][0][0] == pg:
                handled |= _languages_dispatched(repo, L, r2)
        for lang in dict.fromkeys(claimed):
            sym = f"{r.short}:{lang}"
            if lang not in image:
                run.finding(Y2, sym, "language-never-detected", f"{pg} marks {lang} as supported by {r.short}, but detect_language never yields {lang!r} (extensions map to {sorted(image)}): such files are typed 'unknown' and skipped", ld.rel)
            elif lang not in handled:
                run.finding(Y2, sym, "language-not-dispatched", f"{pg} marks {lang} as supported, but {r.short} only analyses {sorted(handled)}", r.cls.loc)
            else:
                run.ok(Y2, sym, "detected and dispatched")

    from . import shared

    Y4 = run.rule("Y4", "traversal completeness of the pattern linters: collecting tree walkers recurse into every child and ast.NodeVisitor methods always reach generic_visit", floor=25,
                  decides="an example is found wherever it is embedded (inside classes, functions and other blocks, any number of times)")
    for rec in shared.collector_walkers(ctx):
        (run.ok(Y4, rec["func"], rec["detail"]) if rec["ok"] else run.finding(Y4, rec["func"], "pruned-walk", f"{rec['func']}: {rec['detail']}: examples embedded below such a node are never reported", rec["loc"]))
    for rec in shared.visitor_methods(ctx):
        if rec["ok"] is None:
            run.undecided(Y4, rec["func"], "too many paths")
        else:
            (run.ok(Y4, rec["func"], rec["detail"]) if rec["ok"] else run.finding(Y4, rec["func"], "no-generic-visit", f"{rec['func']}: {rec['detail']}: patterns nested inside a matched node are never visited", rec["loc"]))

    for rec in shared.whole_tree_finders(ctx):
        (run.ok(Y4, rec["func"], rec["detail"]) if rec["ok"] else run.finding(Y4, rec["func"], "partial-descent", f"{rec['func']}: {rec['detail']}", rec["loc"]))
    # tree-sitter recovers from parse errors; a rule that gives up when the tree `has_error` drops the whole file
    # (every .tsx/.jsx file parses with errors under the TypeScript grammar these analyzers use)
    n_ts_mod = 0
    for m in sorted(repo.modules.values(), key=lambda x: x.name):
        if not m.name.startswith(("src.linters.", "src.analyzers.")):
            continue
        n_ts_mod += 1
        for n in ast.walk(m.tree):
            if isinstance(n, ast.Attribute) and n.attr in ("has_error", "is_error", "is_missing"):
                run.finding(Y4, m.name.replace("src.", "", 1), f"gives-up-on-parse-error:{n.attr}", f"{m.name} consults `{norm(n)}`: an analysis that stops when the recovered tree contains an error node reports nothing for the whole file - documented examples embedded next to JSX, or in a file with one unrelated syntax slip, are no longer found", f"{m.rel}:{n.lineno}")
    run.ok(Y4, "parse-error tolerance", f"{n_ts_mod} linter/analyzer modules: none consults has_error / is_error")

    Y3 = run.rule("Y3", "node-kind literals in the TypeScript analyzers outside nesting are named kinds of the linked grammar", floor=60)
    g = ctx.grammar
    for m in repo.modules.values():
        if kinds.module_language(m.name) != "typescript" or m.name.startswith("src.linters.nesting"):
            continue
        for k, how, line, fn in kinds.kind_literals(repo, ctx.cg, m):
            _kind_verdict(run, Y3, g["typescript"], "typescript", m, k, how, line, fn, ANON_OK)
    Y5 = run.rule("Y5", "an exemption the documentation grants by enclosing construct (a print inside `if __name__ == \"__main__\":`) is decided by testing every ancestor: a parent_map climb is left early only by acceptance", floor=1,
                  decides="the documented acceptable example stays unreported wherever the guard stands (inside try/else, under a platform `if`, in a function), not only as a module-level statement")
    n_y5 = 0
    for f in sorted(repo.funcs.values(), key=lambda x: x.qual):
        if not f.module.name.startswith("src.linters.") or f.parent is not None:
            continue
        for loop in [n for n in ast.walk(f.node) if isinstance(n, ast.While) and isinstance(n.test, ast.Compare) and len(n.test.ops) == 1 and isinstance(n.test.ops[0], ast.In)
                     and "parent" in norm(n.test.comparators[0]) and isinstance(n.test.left, ast.Name)]:
            n_y5 += 1
            early = [x for x in ast.walk(loop) if isinstance(x, ast.Break) or (isinstance(x, ast.Return) and not (isinstance(x.value, ast.Constant) and x.value.value is True))]
            sym = f.qual.replace("src.linters.", "", 1)
            if early:
                run.finding(Y5, sym, f"walk-cut:{norm(early[0])[:50]}", f"{f.qual}: the climb over enclosing nodes ends with `{norm(early[0])[:60]}` before every ancestor was tested: a `__main__` guard that is not itself the module-level statement (inside try/else, a platform `if`, a function) is not recognised, and the prints the documentation shows as acceptable are reported", f"{f.module.rel}:{early[0].lineno}")
            else:
                run.ok(Y5, sym, "every ancestor tested; only acceptance ends the climb")
    run.require(n_y5 >= 1, "Y5: no parent_map climb found (positive control: print_statements.python_analyzer.is_in_main_block)")
    return __doc__


def _languages_dispatched(repo, L, r) -> set[str]:
    lang_cls = repo.cls("src.core.constants.Language")
    lang_vals = {k: repo.fold(lang_cls.module, v, lang_cls) for k, v in lang_cls.assigns.items()}
    if r.kind == "pyonly":
        return {"python"}
    out = set()
    if r.kind == "multi":
        for lang, f in r.lang_entries.items():
            body = [s for s in f.node.body if not (isinstance(s, ast.Expr) and isinstance(s.value, ast.Constant))]
            if len(body) == 1 and isinstance(body[0], ast.Return) and isinstance(body[0].value, (ast.List, ast.Tuple)) and not body[0].value.elts:
                continue  # stub returning []
            out.add(lang)
            if lang == "typescript":
                out.add("javascript")
        return out
    reach = L.reach(r)
    mro = set(repo.mro(r.qual))
    for fq in reach:
        f = repo.funcs.get(fq)
        if f is None or not (f.module.name.startswith(r.pkg) or (f.cls is not None and f.cls.qual in mro)):
            continue
        for n in ast.walk(f.node):
            if isinstance(n, ast.Compare) and any(isinstance(x, ast.Attribute) and x.attr == "language" for x in ast.walk(n)):
                for x in ast.walk(n):
                    if isinstance(x, ast.Attribute) and isinstance(x.value, ast.Name) and x.value.id == "Language" and isinstance(lang_vals.get(x.attr), str):
                        out.add(lang_vals[x.attr])
                    if isinstance(x, ast.Constant) and isinstance(x.value, str) and x.value.isalpha():
                        out.add(x.value)
            if isinstance(n, ast.Dict) and n.keys and all(isinstance(k, (ast.Attribute, ast.Constant)) for k in n.keys):
                ks = []
                for k in n.keys:
                    if isinstance(k, ast.Attribute) and isinstance(k.value, ast.Name) and k.value.id == "Language":
                        ks.append(lang_vals.get(k.attr))
                    elif isinstance(k, ast.Constant) and isinstance(k.value, str):
                        ks.append(k.value)
                if ks and all(isinstance(k, str) for k in ks) and set(ks) & {"python", "typescript", "javascript", "rust"}:
                    out |= set(ks)
    if "typescript" in out and r.short in ("DRYRule",):
        out.add("javascript")
    return out
