"""C02 - magic-number linter flags exactly the non-allowed literals outside exemptions.

Decides (structure only):
 M1 the Python admission predicate isinstance(value, (int, float)) excludes bool (a subclass of int);
 M2 in each language branch `value in config.allowed_numbers` is known False on every path that builds a
    violation, and allowed_numbers is only ever used in membership tests / forwarded;
 M3 every int()/float() conversion of literal text sits under a ValueError handler;
 M4 the violation builders report the literal's own line and interpolate the tested value;
 M6 every documented exempt position has its predicate reachable from that language's flagging decision;
 M7 the literal collectors visit every child of every node (traversal completeness);
 M8 the int/float discrimination of literal text does not mistake radix-prefixed literals for floats.
Not decided: completeness of the exemption predicates on arbitrary programs; hex/suffix parsing values.
"""

from __future__ import annotations

import ast

from .. import cfg
from .. import inline
from ..facts import call_name, dotted, kwarg, norm
from ..linters import Linters
from ..util import expand_locals, Implication, func_paths, is_call_named, is_caught

PKG = "src.linters.magic_numbers"
RULE = f"{PKG}.linter.MagicNumberRule"
# documented exempt position -> predicate function (frozen from docs/magic-numbers-linter.md and the property text)
EXEMPTIONS = {
    "python": {
        "test code": f"{PKG}.context_analyzer.is_test_file",
        "UPPER_CASE constant definition": f"{PKG}.context_analyzer.is_constant_definition",
        "small integer in range()": f"{PKG}.context_analyzer.is_small_integer_in_range",
        "small integer in enumerate()": f"{PKG}.context_analyzer.is_small_integer_in_enumerate",
        "string repetition": f"{PKG}.context_analyzer.is_string_repetition",
        "constants-definition module": f"{PKG}.definition_detector.is_definition_file",
    },
    "typescript": {
        "enum member": f"{PKG}.typescript_analyzer.TypeScriptMagicNumberAnalyzer.is_enum_context",
        "UPPER_CASE const definition": f"{PKG}.typescript_analyzer.TypeScriptMagicNumberAnalyzer.is_constant_definition",
        "test code": f"{RULE}._is_test_file",
    },
    "rust": {
        "const/static item": f"{PKG}.rust_analyzer.RustMagicNumberAnalyzer.is_constant_definition",
        "test code": f"{PKG}.rust_analyzer.RustMagicNumberAnalyzer.is_test_context",
    },
}
TRY_CREATE = {"python": "_try_create_violation", "typescript": "_try_create_typescript_violation", "rust": "_try_create_rust_violation"}
BUILDERS = {"python": "create_violation", "typescript": "create_typescript_violation", "rust": "create_rust_violation"}


def _is_allowed_atom(n):
    return isinstance(n, ast.Compare) and len(n.ops) == 1 and isinstance(n.ops[0], ast.In) and ast.unparse(n.comparators[0]).endswith("allowed_numbers")


def check(run, ctx):
    repo, cg = ctx.repo, ctx.cg
    L = Linters(ctx)
    rule = L.rule("MagicNumberRule")

    M1 = run.rule("M1", "the Python literal admission test excludes bool", floor=1, decides="True/False are never reported as magic numbers")
    vc = repo.func(f"{PKG}.python_analyzer.PythonMagicNumberAnalyzer.visit_Constant")
    adm = [n for n in ast.walk(vc.node) if isinstance(n, ast.If) and any(is_call_named(x, "isinstance") and "int" in ast.unparse(x.args[1]) for x in ast.walk(n.test))]
    run.require(len(adm) == 1, "visit_Constant: admission test not found")
    t = adm[0].test
    excl = any(is_call_named(x, "isinstance") and ast.unparse(x.args[1]) == "bool" for x in ast.walk(t)) or "type(" in ast.unparse(t)
    early = any(isinstance(n, ast.If) and "bool" in ast.unparse(n.test) and any(isinstance(s, ast.Return) for s in n.body) for n in ast.walk(vc.node))
    if excl or early:
        run.ok(M1, "visit_Constant", norm(t))
    else:
        run.finding(M1, "PythonMagicNumberAnalyzer.visit_Constant", "admits-bool", f"`{norm(t)}` admits True/False (bool is a subclass of int): with 1 or 0 removed from allowed_numbers a boolean is reported as a magic number", vc.loc)

    M2 = run.rule("M2", "on every path that builds a violation `value in config.allowed_numbers` is known False; allowed_numbers is only tested for membership or forwarded", floor=5,
                  decides="adding a value to allowed_numbers removes exactly the violations of that value")
    imp = Implication(repo, RULE, _is_allowed_atom)
    for lang, fn in TRY_CREATE.items():
        f = repo.func_by_role(f"{RULE}.{fn}", f"the rule method that calls the builder {BUILDERS[lang]}", lambda g, b=BUILDERS[lang]: any(is_call_named(c, b) for c in ast.walk(g.node)))
        paths = func_paths(f)
        run.require(paths is not None, f"{fn}: too many paths")
        n_build = 0
        bad = False
        for p in paths:
            i = cfg.first_index(p, lambda n, b=BUILDERS[lang]: is_call_named(n, b))
            if i is None:
                continue
            n_build += 1
            if not imp.established(p, i, False, f.module):
                bad = True
        run.require(n_build > 0, f"{fn} no longer calls {BUILDERS[lang]}")
        if bad:
            run.finding(M2, fn, "allow-list-not-dominating", f"{fn}: a path builds a violation without `value in config.allowed_numbers` having been tested False", f.loc)
        else:
            run.ok(M2, fn, f"{n_build} building paths, all after the allow-list test")
        # the tested value is the literal's value parameter
        tested = set()
        for g in [f] + [repo.find_method(RULE, call_name(c)) for c in ast.walk(f.node) if isinstance(c, ast.Call) and isinstance(c.func, ast.Attribute) and isinstance(c.func.value, ast.Name) and c.func.value.id == "self"]:
            if g is None:
                continue
            for n in ast.walk(g.node):
                if _is_allowed_atom(n):
                    tested.add(ast.unparse(n.left))
        if tested == {"value"}:
            run.ok(M2, f"{fn} operand", "tests the literal's value")
        elif tested:
            run.finding(M2, fn, f"operand:{sorted(tested)}", f"{fn}: the allow-list test is applied to {sorted(tested)}, not to the literal's value", f.loc)
    for m in repo.modules_in(PKG):
        if m.name.endswith(".config"):
            continue
        parents = {id(c): p for p in ast.walk(m.tree) for c in ast.iter_child_nodes(p)}
        for n in ast.walk(m.tree):
            if isinstance(n, ast.Attribute) and n.attr == "allowed_numbers" and isinstance(n.ctx, ast.Load):
                p = parents.get(id(n))
                if isinstance(p, ast.Compare) and isinstance(p.ops[0], (ast.In, ast.NotIn)) and p.comparators[0] is n:
                    run.ok(M2, f"{m.name.replace('src.linters.', '')}:{norm(p)}", "membership test")
                elif isinstance(p, (ast.Dict, ast.keyword, ast.Call)):
                    run.ok(M2, f"{m.name.replace('src.linters.', '')}:forward@{n.lineno}", "forwarded", nontrivial=False)
                else:
                    run.finding(M2, m.name.replace("src.linters.", ""), f"non-membership-use:{norm(p)}", f"allowed_numbers is used other than in a membership test: {norm(p)}", f"{m.rel}:{n.lineno}")

    M3 = run.rule("M3", "int()/float() on literal text is under a ValueError handler", floor=4, decides="an odd numeric token cannot turn into exit 2 (ValueError is re-raised by the orchestrator)")
    for mod in ("typescript_analyzer", "rust_analyzer"):
        for f in repo.funcs_in(f"{PKG}.{mod}."):
            for c in ast.walk(f.node):
                if isinstance(c, ast.Call) and isinstance(c.func, ast.Name) and c.func.id in ("int", "float") and c.args and not isinstance(c.args[0], ast.Constant):
                    if is_caught(f.node, c, "ValueError"):
                        run.ok(M3, f"{mod}.{f.name}:{norm(c)}", "under except ValueError")
                    else:
                        run.finding(M3, f"{mod}.{f.name}", f"unguarded:{norm(c)}", f"{norm(c)} can raise ValueError outside any handler; _safe_check_rule re-raises ValueError, so the run ends with exit 2", f"{f.module.rel}:{c.lineno}")

    M4 = run.rule("M4", "builders report the passed line and interpolate the tested value in the message", floor=3)
    for lang, b in BUILDERS.items():
        f = repo.func(f"{PKG}.violation_builder.ViolationBuilder.{b}")
        flat = list(inline.flat_nodes(repo, f))   # the builder may delegate to a private helper
        sk = next((c for c in flat if isinstance(c, ast.Call) and call_name(c) in ("Violation", "build_from_params")), None)
        run.require(sk is not None, f"{b}: no violation construction")
        line, msg = kwarg(sk, "line"), kwarg(sk, "message")
        msg_names = set()
        src = msg
        if isinstance(msg, ast.Name):
            asg = [n for n in flat if isinstance(n, ast.Assign) and any(isinstance(t, ast.Name) and t.id == msg.id for t in n.targets)]
            src = asg[0].value if asg else msg
        msg_names = {n.id for n in ast.walk(src) if isinstance(n, ast.Name)}
        # one level of local renderings: number = _format_number(value)
        for _ in range(2):
            for n in flat:
                if isinstance(n, ast.Assign) and any(isinstance(t, ast.Name) and t.id in msg_names for t in n.targets):
                    msg_names |= {x.id for x in ast.walk(n.value) if isinstance(x, ast.Name)}
        bparams = [a.arg for a in f.node.args.args if a.arg not in ("self", "cls")]
        p_line = line.id if isinstance(line, ast.Name) and line.id in bparams else None
        p_val = next((q for q in bparams if q in msg_names and q != p_line and f.node.args.args[[a.arg for a in f.node.args.args].index(q)].annotation is not None
                      and any(t_ in ast.unparse(f.node.args.args[[a.arg for a in f.node.args.args].index(q)].annotation) for t_ in ("int", "float"))), None)
        if p_line is not None and p_val is not None:
            run.ok(M4, b, f"line={p_line} (a parameter), message interpolates the numeric parameter {p_val}")
        else:
            run.finding(M4, b, "line-or-message", f"{b}: line is {norm(line) if line is not None else None}, message names {sorted(msg_names)}", f.loc)
        # call site passes (value, line_number) of the same literal tuple
        tc = repo.func_by_role(f"{RULE}.{TRY_CREATE[lang]}", f"the rule method that calls the builder {b}", lambda g, b=b: any(is_call_named(c, b) for c in ast.walk(g.node)))
        call = next(c for c in ast.walk(tc.node) if is_call_named(c, b))
        argn = [ast.unparse(a) for a in call.args] + [ast.unparse(k.value) for k in call.keywords]
        # the arguments bound to the builder's value / line parameters come from ONE literal record: two elements of one
        # tuple unpacking (`node, parent, value, line_number = literal_info`) or two fields of one record object, and the
        # value argument is the one the flagging predicate was asked about (it is an argument of another call as well)
        def _arg_for(pn):
            if pn is None:
                return None
            i_ = bparams.index(pn)
            kw_ = next((k.value for k in call.keywords if k.arg == pn), None)
            return kw_ if kw_ is not None else call.args[i_] if i_ < len(call.args) else None
        a_val, a_line = _arg_for(p_val), _arg_for(p_line)
        unpacks = [set(e.id for e in t.elts if isinstance(e, ast.Name)) for a in ast.walk(tc.node) if isinstance(a, ast.Assign) for t in a.targets if isinstance(t, ast.Tuple)]
        same_record = False
        tparams = {a.arg for a in tc.node.args.args}
        if isinstance(a_val, ast.Name) and isinstance(a_line, ast.Name) and a_val.id != a_line.id:
            # ... or two parameters of the creating method (its caller unpacks the record in the loop header)
            same_record = any(a_val.id in u and a_line.id in u for u in unpacks) or (a_val.id in tparams and a_line.id in tparams)
        elif isinstance(a_val, ast.Attribute) and isinstance(a_line, ast.Attribute):
            same_record = ast.unparse(a_val.value) == ast.unparse(a_line.value) and a_val.attr != a_line.attr
        tested = a_val is not None and any((isinstance(c, ast.Call) and c is not call and any(ast.unparse(x) == ast.unparse(a_val) for x in c.args))
                                           or (isinstance(c, ast.Compare) and ast.unparse(c.left) == ast.unparse(a_val)) for c in ast.walk(tc.node))
        if same_record and tested:
            run.ok(M4, f"{TRY_CREATE[lang]} -> {b}", f"args {argn}: value and line of one literal record, the value being the tested one")
        else:
            run.finding(M4, TRY_CREATE[lang], f"args:{len(argn)}:{'same-record' if same_record else 'mixed'}:{'tested' if tested else 'untested'}", f"{b} is not called with the literal's value and line_number", tc.loc)

    M6 = run.rule("M6", "each documented exempt position's predicate is reachable from that language's flagging branch", floor=11,
                  decides="the documented exemptions (constant definitions, range/enumerate, string repetition, test code, definition files, enum/const/static, #[test]) are wired in")
    for lang, table in EXEMPTIONS.items():
        entry = rule.lang_entries[lang]
        pr = L.reach_from(rule, [entry.qual])
        for what, fq in table.items():
            run.require(fq in repo.funcs, f"exemption predicate {fq} vanished")
            if fq in pr:
                run.ok(M6, f"{lang}:{what}", f"{fq.rsplit('.', 1)[-1]} reachable from {entry.name}")
            else:
                run.finding(M6, f"{lang}:{what}", f"unreachable:{fq.rsplit('.', 1)[-1]}", f"the documented exemption '{what}' is not applied in the {lang} branch: {fq} is not reachable from {entry.name}", entry.loc)
    from . import shared

    M7 = run.rule("M7", "traversal completeness: the literal collectors visit every child of every node (no subtree is pruned)", floor=3,
                  decides="each numeric literal is seen, wherever it is placed (template substitutions, nested scopes, arguments, ...)")
    for rec in shared.collector_walkers(ctx, prefixes=(PKG,)):
        (run.ok(M7, rec["func"], rec["detail"]) if rec["ok"] else run.finding(M7, rec["func"], "pruned-walk", f"{rec['func']}: {rec['detail']}: literals below such a node are never reported", rec["loc"]))
    for rec in shared.visitor_methods(ctx, prefix=PKG):
        (run.ok(M7, rec["func"], rec["detail"]) if rec["ok"] else run.finding(M7, rec["func"], "no-generic-visit", f"{rec['func']}: {rec['detail']}", rec["loc"]))
    for lang, mod in (("typescript", "typescript_analyzer"), ("rust", "rust_analyzer")):
        f = next(x for x in repo.funcs_in(f"{PKG}.{mod}.") if x.name == "find_numeric_literals")
        ok = any(is_call_named(c, "_collect_numeric_literals") and c.args and isinstance(c.args[0], ast.Name) and c.args[0].id == f.node.args.args[1].arg for c in ast.walk(f.node))
        (run.ok(M7, f"{lang} find_numeric_literals", "collection starts at the root node") if ok else run.finding(M7, f"{mod}.find_numeric_literals", "root", "collection does not start at the root node it is given", f.loc))
    M8 = run.rule("M8", "literal text is classified int-vs-float by node kind, or by a text test that exempts radix-prefixed literals (0x.. may contain the digit e)", floor=2,
                  decides="hex/octal/binary literals are reported like any other integer literal")
    for mod in ("typescript_analyzer", "rust_analyzer"):
        f = next(x for x in repo.funcs_in(f"{PKG}.{mod}.") if x.name == "_extract_numeric_value")
        tests = [n.test for n in ast.walk(f.node) if isinstance(n, ast.If) and any(is_call_named(x, "int") or is_call_named(x, "float") for s in n.body for x in ast.walk(s))]
        run.require(bool(tests), f"{mod}._extract_numeric_value: int/float decision not found")
        t = tests[0]
        by_kind = any(isinstance(x, ast.Attribute) and x.attr == "type" for x in ast.walk(t))
        e_test = any(isinstance(x, ast.Compare) and isinstance(x.ops[0], (ast.In, ast.NotIn)) and isinstance(x.left, ast.Constant) and x.left.value in ("e", "E") for x in ast.walk(t))
        radix = any(is_call_named(x, "startswith") and any(isinstance(c, ast.Constant) and str(c.value).lower() == "0x" for a in x.args for c in ast.walk(a)) for x in ast.walk(t))
        if by_kind and not e_test:
            run.ok(M8, f"{mod}._extract_numeric_value", f"decided by node kind: {norm(t)}")
        elif e_test and radix:
            run.ok(M8, f"{mod}._extract_numeric_value", "exponent test exempts radix-prefixed literals")
        elif e_test:
            run.finding(M8, f"{mod}._extract_numeric_value", f"exponent-test:{norm(t)}", f"`{norm(t)}` sends every literal containing the letter e to float(): hex literals such as 0xE0 or 0x1e raise ValueError there and are silently dropped", f.loc)
        else:
            run.undecided(M8, f"{mod}._extract_numeric_value", f"unrecognised decision {norm(t)}")
    M13 = run.rule("M13", "literal text is cleaned by affix removal, never by a character-set strip: every str.strip/lstrip/rstrip argument in the magic-number code is a single character (or absent)", floor=3,
                   decides="the reported value is the literal's value: `42u32` is 42, not what is left after deleting every trailing character that occurs in the suffix")
    for m in repo.modules_in(PKG):
        calls = [n for n in ast.walk(m.tree) if isinstance(n, ast.Call) and isinstance(n.func, ast.Attribute) and n.func.attr in ("strip", "lstrip", "rstrip") and n.args]
        bad = []
        for n in calls:
            v = repo.fold(m, n.args[0])
            if not (isinstance(v, str) and len(set(v)) <= 1):
                bad.append(n)
        for n in bad:
            run.finding(M13, f"{m.name.split('.')[-1]}", f"charset-strip:{norm(n)[:50]}", f"`{norm(n)[:70]}` deletes every leading/trailing character that occurs in the argument (str.strip takes a character set, not an affix): `42u32`.rstrip('u32') is `4`, `64u64` becomes empty and is dropped", f"{m.rel}:{n.lineno}")
        if not bad:
            run.ok(M13, m.name, f"{len(calls)} strip-family calls with an argument, all single-character")
    M9 = run.rule("M9", "the parsed MagicNumberConfig is not stored on the rule instance without a language key", floor=1,
                  decides="allowed_numbers / max_small_integer of each file's own language apply, whatever file the run saw first")
    recs = [r_ for r_ in shared.config_memoisation(ctx, L) if r_["rule"] == rule.short]
    run.require(bool(recs), "MagicNumberRule: no config-loading method found")
    for rec in recs:
        if rec["bad"]:
            run.finding(M9, f"{rec['rule']}.{rec['name']}", f"memoised:{rec['store']}", f"{rec['func'].qual} keeps the parsed configuration on the rule instance ({rec['store']}) with no test of the file's language: the language-specific allowed_numbers of the first file decide every later file", rec["func"].loc)
        else:
            run.ok(M9, f"{rec['rule']}.{rec['name']}", "no instance-level memoisation of the parsed configuration")

    M10 = run.rule("M10", "enclosing-context exemptions (Rust const/static item, TypeScript enum) climb to the root: the ancestor loop is left early only by acceptance", floor=2,
                   decides="a literal anywhere inside a const/static initialiser or an enum body is exempt, however deeply it is nested (blocks, closures, calls)")
    for mod, fn in (("rust_analyzer", "is_constant_definition"), ("typescript_analyzer", "is_enum_context")):
        f = next((x for x in repo.funcs_in(f"{PKG}.{mod}.") if x.name == fn), None)
        run.require(f is not None, f"{mod}.{fn} vanished")
        walks = shared.ancestor_walks(f)
        if not walks:
            run.undecided(M10, f"{mod}.{fn}", "no ancestor loop recognised")
            continue
        wk = walks[0]
        if wk["to_root"] and not wk["early"] and not wk["conditional_step"]:
            run.ok(M10, f"{mod}.{fn}", "walks every ancestor; only acceptance ends the loop")
        else:
            why = norm(wk["early"][0]) if wk["early"] else (f"for ... in {wk['bounded']}" if wk.get("bounded") else norm(wk["loop"].test) if not wk["to_root"] else "conditional step")
            run.finding(M10, f"{mod}.{fn}", f"walk-cut:{why}", f"{fn}: the ancestor walk can stop before the root (`{why}`): a literal nested in a block, closure or call inside the exempt item is reported although the item is exempt", f"{f.module.rel}:{(wk['early'][0] if wk['early'] else wk['loop']).lineno}")
    M12 = run.rule("M12", "the small-integer exemptions for range() and enumerate() apply the same bounds test (0 <= value <= max_small_integer, both ends inclusive)", floor=1,
                   decides="a literal equal to max_small_integer is exempt in enumerate() exactly as it is in range()")
    def bounds_form(fn_name):
        g = next((x for x in repo.funcs_in(f"{PKG}.context_analyzer.") if x.name == fn_name), None)
        if g is None:
            return None, None
        forms = []
        for n in inline.flat_nodes(repo, g):
            if isinstance(n, ast.Compare) and any("max_small" in ast.unparse(expand_locals(g.node, c)) or "max_small" in ast.unparse(c) for c in [n.left] + n.comparators):
                forms.append("|".join(type(o).__name__ for o in n.ops) + ":" + ("range" if any(isinstance(x, ast.Call) and call_name(x) == "range" for c in n.comparators for x in ast.walk(c)) else "plain"))
        return sorted(set(forms)), g
    fr_, g_r = bounds_form("is_small_integer_in_range")
    fe_, g_e = bounds_form("is_small_integer_in_enumerate")
    run.require(g_r is not None and g_e is not None and fr_, "the two small-integer predicates (or their bounds test) were not found")
    if fr_ == fe_ and all(f_.startswith("LtE|LtE") or f_.startswith("GtE|GtE") for f_ in fr_):
        run.ok(M12, "range/enumerate bounds", f"both use {fr_}")
    else:
        run.finding(M12, "is_small_integer_in_enumerate", f"bounds:{fe_}<>{fr_}", f"the enumerate() exemption tests its bound as {fe_}, the range() exemption as {fr_}: a literal sitting exactly on max_small_integer is exempt in one call and reported in the other", g_e.loc)

    M11 = run.rule("M11", "the UPPER_CASE-name predicates of the Python and TypeScript exemptions are siblings: both accept a constant name that starts with underscores (`_TIMEOUT_SECONDS`)", floor=2,
                   decides="a private UPPER_CASE constant definition is exempt in both languages")
    for mod, fn in (("context_analyzer", "_is_constant_name"), ("typescript_analyzer", "_is_uppercase_constant")):
        f = next((x for x in repo.funcs_in(f"{PKG}.{mod}.") if x.name == fn), None)
        run.require(f is not None, f"{mod}.{fn} vanished")
        verdict = _leading_underscore_ok(repo, f)
        if verdict is True:
            run.ok(M11, f"{mod}.{fn}", "decided by str.isupper() over the name / its letters: leading underscores are accepted")
        elif verdict is None:
            run.undecided(M11, f"{mod}.{fn}", "predicate form not recognised")
        else:
            run.finding(M11, f"{mod}.{fn}", f"rejects-leading-underscore:{verdict}", f"{fn} decides with the pattern {verdict!r}, whose first character must be an upper-case letter: `_TIMEOUT_SECONDS = 3600` is no longer an exempt constant definition here while the sibling predicate of the other language still accepts it", f.loc)
    run.extra["call_resolution"] = f"{cg.n_resolved}/{cg.n_calls}"
    return __doc__


def _leading_underscore_ok(repo, f):
    """True: accepts names with leading '_' (isupper-based, or a regex whose first position admits '_');
    a pattern string: a regex that cannot start with '_'; None: unknown form."""
    import re._parser as sre

    pats = []
    for n in ast.walk(f.node):
        if isinstance(n, ast.Call) and isinstance(n.func, ast.Attribute) and n.func.attr in ("match", "fullmatch", "search"):
            src = n.func.value
            if isinstance(src, ast.Name) and src.id == "re" and n.args:
                pats.append(repo.fold(f.module, n.args[0]))
            else:
                # module-level compiled pattern: NAME = re.compile("...")
                for st in ast.parse(f.module.src).body:
                    if isinstance(st, ast.Assign) and isinstance(src, ast.Name) and any(isinstance(t, ast.Name) and t.id == src.id for t in st.targets) and isinstance(st.value, ast.Call) and call_name(st.value) == "compile" and st.value.args:
                        pats.append(repo.fold(f.module, st.value.args[0]))
    if pats:
        for p in pats:
            if not isinstance(p, str):
                return None
            try:
                items = list(sre.parse(p))
            except Exception:  # noqa: BLE001
                return None
            items = [it for it in items if str(it[0]) != "AT"]
            if not items:
                return None
            op, av = items[0]
            first_ok = None
            if str(op) == "IN":
                first_ok = any((str(k) == "LITERAL" and v == ord("_")) or (str(k) == "RANGE" and v[0] <= ord("_") <= v[1]) or str(k) == "CATEGORY" and "WORD" in str(v) for k, v in av)
            elif str(op) == "LITERAL":
                first_ok = av == ord("_")
            elif str(op) in ("MAX_REPEAT", "MIN_REPEAT"):
                lo, _hi, sub = av
                inner = list(sub)
                if inner and str(inner[0][0]) == "LITERAL" and inner[0][1] == ord("_"):
                    first_ok = True
                elif inner and str(inner[0][0]) == "IN":
                    first_ok = any((str(k) == "LITERAL" and v == ord("_")) or (str(k) == "RANGE" and v[0] <= ord("_") <= v[1]) for k, v in inner[0][1])
            if first_ok is None:
                return None
            if not first_ok:
                return p
        return True
    if any(isinstance(n, ast.Call) and call_name(n) == "isupper" for n in ast.walk(f.node)):
        return True
    return None
