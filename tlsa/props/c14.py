"""C14 - a run lints exactly the non-excluded, non-ignored files.

Decides (structure only): W1 both exclusion gates dominate rule execution in lint_file and
rules are reached only through lint_file; W2 directory pruning and the per-file predicate use the
same tables, which contain the documented names; W3 the walk shape (top-down os.walk, in-place
pruning, break only when non-recursive and only after the first level was collected); W4 both
directory entry points collect through the one walker and hand every collected file to lint_file;
is_ignored relativises against the project root before matching.
Not decided: fnmatch/glob semantics for arbitrary trees.
"""

from __future__ import annotations

import ast

from .. import cfg
from .. import inline
from ..facts import UNKNOWN, call_name, kwarg, norm
from ..util import contains, func_paths, is_call_named, known_before

ORCH = "src.orchestrator.core"
DOC_EXCLUDED_DIRS = {".git", "node_modules", "__pycache__", ".venv", "venv", "build", "dist", ".pytest_cache", ".mypy_cache", ".ruff_cache"}
DOC_EXCLUDED_EXT = {".pyc", ".pyo", ".so"}


def check(run, ctx):
    repo, cg = ctx.repo, ctx.cg
    m = repo.mod(ORCH)
    W1 = run.rule("W1", "in Orchestrator.lint_file the hard-coded exclusion test and the repository ignore test are both known False on every path that reaches rule execution; rule.check is reached only via lint_file", floor=4,
                  decides="an excluded or ignored file never contributes a violation, even when named explicitly")
    lint_file = repo.func(f"{ORCH}.Orchestrator.lint_file")
    paths = func_paths(lint_file)
    run.require(paths is not None, "lint_file: too many paths")
    # the first step from lint_file towards rule execution: any private Orchestrator method from which rule.check is reachable
    _exec_names = {q.rsplit(".", 1)[-1] for q in cg.funcs if q.startswith(f"{ORCH}.Orchestrator._") and any(c.endswith(".check") and c.startswith("src.") for c in cg.reach([q]))} | {"check"}
    exec_pred = lambda n: is_call_named(n, *sorted(_exec_names))
    excl_pred = lambda n: is_call_named(n, "_is_hardcoded_excluded")
    ign_pred = lambda n: is_call_named(n, "is_ignored")
    n_exec = 0
    for p in paths:
        i = cfg.first_index(p, exec_pred)
        if i is None:
            continue
        n_exec += 1
        for label, pred in (("_is_hardcoded_excluded", excl_pred), ("ignore_parser.is_ignored", ign_pred)):
            st = known_before(p, i, pred)
            if st is False:
                run.ok(W1, f"lint_file path#{n_exec}", f"{label} known False before rule execution")
            else:
                run.finding(W1, "Orchestrator.lint_file", f"gate:{label}", f"a path reaches _execute_rules without {label}(...) having been tested False", lint_file.loc)
    run.require(n_exec > 0, "lint_file no longer reaches _execute_rules")
    # gate arguments are the file being linted
    for gate in ("_is_hardcoded_excluded", "is_ignored"):
        for c in ast.walk(lint_file.node):
            if is_call_named(c, gate):
                arg = c.args[0] if c.args else None
                pname = lint_file.node.args.args[1].arg
                if isinstance(arg, ast.Name) and arg.id == pname:
                    run.ok(W1, f"lint_file:{gate} arg", f"applied to parameter {pname}")
                else:
                    run.finding(W1, "Orchestrator.lint_file", f"gate-arg:{gate}", f"{gate} is not applied to the linted path parameter: {norm(c)}", lint_file.loc)
    # who calls rule.check outside linters
    check_callees = {q for q in cg.funcs if q.endswith(".check") and q.startswith("src.") and (q.startswith("src.linters.") or q.startswith("src.core."))}
    callers_of_check = set()
    for s in cg.sites:
        if s["kind"] == "call" and s["name"] == "check" and any(c in check_callees for c in s["callees"]):
            if "src.core.base.BaseLintRule.check" in s["callees"]:
                callers_of_check.add(s["caller"])
    # every route from a caller of rule.check up to an entry point passes through lint_file: climbing the callers, only
    # private Orchestrator methods may lie between (whatever they are called), and the climb must end at lint_file
    LF = f"{ORCH}.Orchestrator.lint_file"
    run.require(bool(callers_of_check), "no caller of BaseLintRule.check found")
    seen_up, todo_up = set(), sorted(callers_of_check)
    while todo_up:
        q = todo_up.pop()
        if q in seen_up or q == LF:
            continue
        seen_up.add(q)
        priv = q.startswith(f"{ORCH}.Orchestrator._") and not q.rsplit(".", 1)[-1].startswith("__")
        if not priv:
            run.finding(W1, q, "calls:rule.check", f"{q} reaches rule execution bypassing lint_file's exclusion gates", "")
            continue
        ups = {s_["caller"] for s_ in cg.sites_calling(q, ("call", "ref"))}
        if not ups:
            run.finding(W1, q, "unreached-executor", f"{q} executes rules but is not called from lint_file", "")
            continue
        run.ok(W1, f"{sorted(ups)[0].rsplit('.', 1)[-1]} -> {q.rsplit('.', 1)[-1]}", "private step between lint_file and rule.check")
        todo_up += sorted(ups)
    run.ok(W1, "lint_file is the sole route", f"{len(seen_up)} private Orchestrator methods between lint_file and rule.check")

    W2 = run.rule("W2", "directory pruning and the per-file predicate consult the same constant tables, and those contain the documented always-excluded names", floor=6,
                  decides="files inside always-excluded directories and compiled artefacts are skipped identically by the walk and by explicit naming")
    dirs = repo.fold(m, m.assigns.get("_HARDCODED_EXCLUDE_DIRS"))
    exts = repo.fold(m, m.assigns.get("_HARDCODED_EXCLUDE_EXTENSIONS"))
    run.require(dirs is not UNKNOWN and exts is not UNKNOWN, "exclusion tables not foldable")
    for d in sorted(DOC_EXCLUDED_DIRS):
        if d in dirs:
            run.ok(W2, f"_HARDCODED_EXCLUDE_DIRS[{d}]", "documented directory present")
        else:
            run.finding(W2, "_HARDCODED_EXCLUDE_DIRS", f"missing:{d}", f"documented always-excluded directory {d!r} is not in the table", f"{m.rel}")
    for e in sorted(DOC_EXCLUDED_EXT):
        if e in exts:
            run.ok(W2, f"_HARDCODED_EXCLUDE_EXTENSIONS[{e}]", "compiled artefact suffix present")
        else:
            run.finding(W2, "_HARDCODED_EXCLUDE_EXTENSIONS", f"missing:{e}", f"compiled-artefact suffix {e!r} is not in the table", f"{m.rel}")
    uses = {
        "_is_hardcoded_excluded": {"_HARDCODED_EXCLUDE_DIRS", "_HARDCODED_EXCLUDE_EXTENSIONS", ".egg-info"},
        "_should_include_dir": {"_HARDCODED_EXCLUDE_DIRS", ".egg-info"},
        "_collect_files_from_walk": {"_HARDCODED_EXCLUDE_EXTENSIONS"},
    }
    for fn, need in uses.items():
        f = repo.func(f"{ORCH}.{fn}")
        flat = list(inline.flat_nodes(repo, f))   # the test may live in a shared private predicate
        have = {n.id for n in flat if isinstance(n, ast.Name)} | {n.value for n in flat if isinstance(n, ast.Constant) and isinstance(n.value, str)}
        for x in sorted(need):
            if x in have:
                run.ok(W2, f"{fn} uses {x}")
            else:
                run.finding(W2, fn, f"no-use:{x}", f"{fn} no longer consults {x}", f.loc)

    # sibling agreement: the directory walk and the single-file gate test the same thing against the same table -
    # the raw component name against the directory table, the file's last suffix against the extension table
    def _operand_shape(f_, e):
        for _ in range(3):
            if isinstance(e, ast.Name):
                binds = [a.value for a in ast.walk(f_.node) if isinstance(a, ast.Assign) and len(a.targets) == 1 and isinstance(a.targets[0], ast.Name) and a.targets[0].id == e.id]
                if len(binds) == 1:
                    e = binds[0]
                    continue
            break
        if isinstance(e, ast.Name):
            return "raw"
        if isinstance(e, ast.Attribute) and e.attr in ("suffix", "name"):
            return e.attr
        if isinstance(e, ast.Subscript) and isinstance(e.value, ast.Call) and call_name(e.value) == "splitext" and repo.fold(f_.module, e.slice) == 1:
            return "suffix"
        return norm(e)[:60]
    shapes = {}
    for fn in uses:
        f = repo.func(f"{ORCH}.{fn}")
        for g_ in [f] + [h for c_ in ast.walk(f.node) if isinstance(c_, ast.Call) for h in [inline.resolve_call(repo, f, c_)] if h is not None and h.module is f.module]:
            for n in ast.walk(g_.node):
                if isinstance(n, ast.Compare) and len(n.ops) == 1 and isinstance(n.ops[0], (ast.In, ast.NotIn)) and isinstance(n.comparators[0], ast.Name) and n.comparators[0].id in ("_HARDCODED_EXCLUDE_DIRS", "_HARDCODED_EXCLUDE_EXTENSIONS"):
                    shapes.setdefault(n.comparators[0].id, {}).setdefault(fn, set()).add(_operand_shape(g_, n.left))
                elif isinstance(n, ast.Call) and isinstance(n.func, ast.Attribute) and isinstance(n.func.value, ast.Name) and n.func.value.id in ("_HARDCODED_EXCLUDE_DIRS", "_HARDCODED_EXCLUDE_EXTENSIONS") and n.args:
                    shapes.setdefault(n.func.value.id, {}).setdefault(fn, set()).add(f"{n.func.attr}({norm(n.args[0])[:50]})")
    for table, want in (("_HARDCODED_EXCLUDE_DIRS", "raw"), ("_HARDCODED_EXCLUDE_EXTENSIONS", "suffix")):
        per = shapes.get(table, {})
        run.require(len(per) >= 2, f"W2: {table} is tested in {len(per)} of the walk / single-file gates only")
        for fn, sh in sorted(per.items()):
            odd = sorted(x for x in sh if x != want)
            if odd:
                run.finding(W2, fn, f"operand:{table}:{odd[0]}", f"{fn} tests `{odd[0]}` against {table} while its sibling gate tests {'the component name as it is' if want == 'raw' else 'the last suffix (`.suffix`)'}: a file is then excluded when reached through a directory walk and linted when named directly (or the other way round) - e.g. `Build/x.py`, `user.class.ts`", repo.func(f"{ORCH}.{fn}").loc)
            else:
                run.ok(W2, f"{fn} operand of {table}", f"{want}")

    def polarity(owner, e) -> int:
        """+1: e is true exactly when the name is an excluded directory name (in the table or *.egg-info); -1: its negation; 0: unknown"""
        if isinstance(e, ast.Compare) and len(e.ops) == 1 and isinstance(e.comparators[0], ast.Name) and e.comparators[0].id == "_HARDCODED_EXCLUDE_DIRS":
            return 1 if isinstance(e.ops[0], ast.In) else -1 if isinstance(e.ops[0], ast.NotIn) else 0
        if isinstance(e, ast.Call) and call_name(e) == "endswith" and e.args and isinstance(e.args[0], ast.Constant) and e.args[0].value == ".egg-info":
            return 1
        if isinstance(e, ast.UnaryOp) and isinstance(e.op, ast.Not):
            return -polarity(owner, e.operand)
        if isinstance(e, ast.BoolOp):
            ps = [polarity(owner, v) for v in e.values]
            if isinstance(e.op, ast.Or) and all(x == 1 for x in ps):
                return 1
            if isinstance(e.op, ast.And) and all(x == -1 for x in ps):
                return -1
            return 0
        if isinstance(e, ast.Call) and call_name(e) == "any" and e.args and isinstance(e.args[0], (ast.GeneratorExp, ast.ListComp)):
            return polarity(owner, e.args[0].elt)
        if isinstance(e, ast.Call):
            g = inline.resolve_call(repo, owner, e)
            if g is not None:
                rets = [r.value for r in ast.walk(g.node) if isinstance(r, ast.Return) and r.value is not None]
                if len(rets) == 1:
                    return polarity(g, rets[0])
        return 0

    f = repo.func(f"{ORCH}._should_include_dir")
    rets = [r.value for r in ast.walk(f.node) if isinstance(r, ast.Return) and r.value is not None]
    ok = len(rets) == 1 and polarity(f, rets[0]) == -1
    (run.ok(W2, "_should_include_dir polarity", "a directory is kept iff its name is neither in the table nor *.egg-info") if ok else run.finding(W2, "_should_include_dir", "polarity", "the pruning predicate is not the negation of `dirname in _HARDCODED_EXCLUDE_DIRS or dirname.endswith('.egg-info')`", f.loc))
    f = repo.func(f"{ORCH}._is_hardcoded_excluded")
    # every path component is tested against the table, and a hit excludes the file (loop with early return, or any(...))
    loop_ok = False
    for n in ast.walk(f.node):
        if isinstance(n, ast.For) and contains(n.iter, lambda x: isinstance(x, ast.Attribute) and x.attr in ("parts", "parents")):
            for t in [t for t in ast.walk(n) if isinstance(t, ast.If)]:
                pos = polarity(f, t.test) == 1 or contains(t.test, lambda x: isinstance(x, ast.Compare) and isinstance(x.ops[0], ast.In) and isinstance(x.comparators[0], ast.Name) and x.comparators[0].id == "_HARDCODED_EXCLUDE_DIRS")
                if pos and any(isinstance(s_, ast.Return) and isinstance(s_.value, ast.Constant) and s_.value.value is True for s_ in t.body):
                    loop_ok = True
        if isinstance(n, ast.Return) and n.value is not None:
            for c in ast.walk(n.value):
                if isinstance(c, ast.Call) and call_name(c) == "any" and c.args and isinstance(c.args[0], (ast.GeneratorExp, ast.ListComp)):
                    gen = c.args[0]
                    if not gen.generators[0].ifs and contains(gen.generators[0].iter, lambda x: isinstance(x, ast.Attribute) and x.attr in ("parts", "parents")) and polarity(f, gen.elt) == 1:
                        # `return any(...)` or `return <ext test> or any(...)`: a hit makes the result True
                        loop_ok = loop_ok or n.value is c or (isinstance(n.value, ast.BoolOp) and isinstance(n.value.op, ast.Or))
    (run.ok(W2, "_is_hardcoded_excluded parts loop", "every path component tested against the table") if loop_ok else run.finding(W2, "_is_hardcoded_excluded", "parts-loop", "no loop over path components returning True on table membership", f.loc))

    W3 = run.rule("W3", "_collect_files_fast: os.walk top-down without followlinks, dirs[:] pruned in place by _should_include_dir, files collected before the non-recursive break, break guarded by `not recursive`", floor=5,
                  decides="exactly the files beneath the target (direct children only when non-recursive)")
    f = repo.func(f"{ORCH}._collect_files_fast")
    walks = [c for c in ast.walk(f.node) if isinstance(c, ast.Call) and ast.unparse(c.func) in ("os.walk", "walk")]
    run.require(len(walks) == 1, "_collect_files_fast: expected exactly one os.walk call")
    w = walks[0]
    bad_kw = [k.arg for k in w.keywords if (k.arg == "followlinks" and not (isinstance(k.value, ast.Constant) and k.value.value is False)) or (k.arg == "topdown" and not (isinstance(k.value, ast.Constant) and k.value.value is True))]
    if bad_kw or len(w.args) > 1:
        run.finding(W3, "_collect_files_fast", "walk-kwargs", f"os.walk called with {norm(w)}: pruning needs top-down order and links must not be followed", f.loc)
    else:
        run.ok(W3, "os.walk kwargs", norm(w))
    first = w.args[0] if w.args else None
    pname = f.node.args.args[0].arg
    (run.ok(W3, "os.walk root", f"walks parameter {pname}") if isinstance(first, ast.Name) and first.id == pname else run.finding(W3, "_collect_files_fast", "walk-root", f"os.walk root is {norm(first) if first else None}, not the directory parameter", f.loc))
    loop = next((n for n in ast.walk(f.node) if isinstance(n, ast.For) and n.iter is w), None)
    run.require(loop is not None, "_collect_files_fast: os.walk is not a for-loop iterator")
    dirs_name = loop.target.elts[1].id if isinstance(loop.target, ast.Tuple) and len(loop.target.elts) == 3 and isinstance(loop.target.elts[1], ast.Name) else None
    files_name = loop.target.elts[2].id if dirs_name and isinstance(loop.target.elts[2], ast.Name) else None
    run.require(dirs_name is not None, "_collect_files_fast: loop target is not (root, dirs, files)")
    idx_prune = idx_collect = idx_break = None
    for i, st in enumerate(loop.body):
        if isinstance(st, ast.Assign) and isinstance(st.targets[0], ast.Subscript) and isinstance(st.targets[0].value, ast.Name) and st.targets[0].value.id == dirs_name and isinstance(st.targets[0].slice, ast.Slice):
            if contains(st.value, lambda x: is_call_named(x, "_should_include_dir")) and isinstance(st.value, ast.ListComp) and st.value.generators[0].ifs:
                idx_prune = i
        if contains(st, lambda x: isinstance(x, ast.Call) and call_name(x) in ("extend", "append") ) and contains(st, lambda x: isinstance(x, ast.Name) and x.id == files_name):
            idx_collect = i if idx_collect is None else idx_collect
        if isinstance(st, ast.If) and any(isinstance(b, ast.Break) for b in st.body):
            idx_break = i
            t = st.test
            rec_param = f.node.args.args[1].arg if len(f.node.args.args) > 1 else "recursive"
            if isinstance(t, ast.UnaryOp) and isinstance(t.op, ast.Not) and isinstance(t.operand, ast.Name) and t.operand.id == rec_param:
                run.ok(W3, "break guard", f"if not {rec_param}: break")
            else:
                run.finding(W3, "_collect_files_fast", "break-guard", f"break is guarded by {norm(t)}, not by `not {rec_param}`", f.loc)
        elif isinstance(st, ast.Break):
            run.finding(W3, "_collect_files_fast", "break-unguarded", "unconditional break in the walk loop", f.loc)
    (run.ok(W3, "dirs[:] pruning", "in-place slice assignment filtered by _should_include_dir") if idx_prune is not None else run.finding(W3, "_collect_files_fast", "no-prune", "dirs[:] is not pruned in place with _should_include_dir", f.loc))
    # ... and by nothing else: every other reduction of `dirs` (a second slice assignment, remove/clear/del, an extra
    # condition in the comprehension) prunes whole sub-trees by a predicate that was written for something else
    extra = []
    for n in ast.walk(loop):
        if isinstance(n, ast.Assign) and isinstance(n.targets[0], ast.Subscript) and isinstance(n.targets[0].value, ast.Name) and n.targets[0].value.id == dirs_name:
            if not (isinstance(n.value, ast.ListComp) and len(n.value.generators) == 1 and len(n.value.generators[0].ifs) == 1 and is_call_named(n.value.generators[0].ifs[0], "_should_include_dir")):
                extra.append(n)
        if isinstance(n, ast.Call) and isinstance(n.func, ast.Attribute) and n.func.attr in ("remove", "clear", "pop") and isinstance(n.func.value, ast.Name) and n.func.value.id == dirs_name:
            extra.append(n)
        if isinstance(n, ast.Delete) and any(dirs_name in ast.unparse(t) for t in n.targets):
            extra.append(n)
    if extra:
        run.finding(W3, "_collect_files_fast", f"extra-dir-pruning:{norm(extra[0])[:60]}", f"_collect_files_fast also prunes sub-directories by `{norm(extra[0])[:80]}`: a predicate meant for files (a repository ignore pattern without trailing slash, `*.d`, `snapshots`) can match a directory's own path while the files inside it do not match, and the whole sub-tree is never walked - the directory run is no longer the union of its files", f"{f.module.rel}:{extra[0].lineno}")
    else:
        run.ok(W3, "dirs[:] pruning only by _should_include_dir", "no other reduction of the directory list")
    (run.ok(W3, "collect", "files of each visited directory are collected") if idx_collect is not None else run.finding(W3, "_collect_files_fast", "no-collect", "filenames of the visited directory are not collected", f.loc))
    if idx_break is None:
        run.finding(W3, "_collect_files_fast", "no-break", "no break for the non-recursive case", f.loc)
    elif idx_collect is not None and idx_break < idx_collect:
        run.finding(W3, "_collect_files_fast", "break-before-collect", "non-recursive break precedes collection of the first level", f.loc)
    else:
        run.ok(W3, "break position", "after collection of the current level")
    if idx_prune is not None and idx_collect is not None and loop.orelse:
        run.finding(W3, "_collect_files_fast", "loop-else", "walk loop has an else clause", f.loc)

    W4 = run.rule("W4", "lint_directory and lint_directory_parallel collect via _collect_files_fast(dir, recursive) and every collected path goes to lint_file; is_ignored matches the path relative to project_root", floor=5,
                  decides="directory targets are expanded by the one walker; ignore patterns see project-relative paths")
    for name in ("lint_directory", "lint_directory_parallel"):
        f = repo.func(f"{ORCH}.Orchestrator.{name}")
        cs = [c for c in ast.walk(f.node) if is_call_named(c, "_collect_files_fast")]
        if len(cs) != 1:
            run.finding(W4, name, "collector", f"{name} does not collect through _collect_files_fast exactly once", f.loc)
            continue
        c = cs[0]
        a0 = c.args[0] if c.args else kwarg(c, "dir_path")
        a1 = c.args[1] if len(c.args) > 1 else kwarg(c, "recursive")
        pars = [a.arg for a in f.node.args.args]
        if isinstance(a0, ast.Name) and len(pars) > 2 and a0.id == pars[1] and isinstance(a1, ast.Name) and a1.id == pars[2]:
            run.ok(W4, f"{name} collector", norm(c))
        else:
            run.finding(W4, name, "collector-args", f"{norm(c)} does not forward (dir_path, recursive)", f.loc)
        other = [x for x in ast.walk(f.node) if isinstance(x, ast.Call) and call_name(x) in ("glob", "rglob", "iterdir", "scandir", "listdir", "walk")]
        if other:
            run.finding(W4, name, "second-walker", f"{name} also enumerates files with {norm(other[0])}", f.loc)
        else:
            run.ok(W4, f"{name} single walker")
    f = repo.func(f"{ORCH}.Orchestrator.lint_directory")
    loop_ok = False
    for n in inline.flat_nodes(repo, f):   # the loop may live in a private helper (parameters substituted by the call's arguments)
        if isinstance(n, ast.For) and contains(n, lambda x: is_call_named(x, "lint_file")):
            it = n.iter
            # iterates the collected list unfiltered
            if isinstance(it, ast.Name):
                loop_ok = True
    (run.ok(W4, "lint_directory loop", "iterates the collected list and calls lint_file on each") if loop_ok else run.finding(W4, "lint_directory", "loop", "collected files are not each passed to lint_file", f.loc))
    f = repo.func("src.linter_config.ignore.IgnoreDirectiveParser.is_ignored")
    rel = [c for c in inline.flat_nodes(repo, f) if is_call_named(c, "relative_to") and c.args]   # helper bodies inlined, parameters substituted by the call's arguments
    if rel and isinstance(rel[0].args[0], ast.Attribute) and rel[0].args[0].attr == "project_root":
        run.ok(W4, "is_ignored relative_to(project_root)")
    else:
        run.finding(W4, "IgnoreDirectiveParser.is_ignored", "relativise", "path is not relativised against project_root before pattern matching", f.loc)
    mp = [c for c in inline.flat_nodes(repo, f) if is_call_named(c, "matches_pattern")]
    if mp and isinstance(mp[0].args[0], ast.Name) and any(isinstance(g, ast.comprehension) and ast.unparse(g.iter) == "self.repo_patterns" for n in inline.flat_nodes(repo, f) if isinstance(n, (ast.GeneratorExp, ast.ListComp)) for g in n.generators):
        run.ok(W4, "is_ignored any(matches_pattern over repo_patterns)")
    else:
        run.finding(W4, "IgnoreDirectiveParser.is_ignored", "pattern-loop", "does not test every repository pattern with matches_pattern", f.loc)
    W5 = run.rule("W5", "the CLI partitions its targets by is_file()/is_dir() only and passes both groups on unfiltered", floor=3,
                  decides="every explicitly named file is linted (unless excluded/ignored), also when a directory target shares a name prefix with it")
    sf = repo.func("src.cli.utils.separate_files_and_dirs")
    comps = [n for n in ast.walk(sf.node) if isinstance(n, ast.ListComp)]
    conds = sorted(ast.unparse(c) for n in comps for c in n.generators[0].ifs)
    par = sf.node.args.args[0].arg
    ok = len(comps) == 2 and all(len(n.generators[0].ifs) == 1 and ast.unparse(n.generators[0].iter) == par for n in comps) and [c.split(".")[-1] for c in conds] == ["is_dir()", "is_file()"] and not [n for n in ast.walk(sf.node) if isinstance(n, (ast.For, ast.While))]
    (run.ok(W5, "separate_files_and_dirs", f"partition by {conds}") if ok else run.finding(W5, "separate_files_and_dirs", f"extra-filter:{conds}", "targets are filtered by more than is_file()/is_dir(): an explicitly named file can be dropped before it is linted", sf.loc))
    el = repo.func("src.cli.utils.execute_linting_on_paths")
    # the file group = first element of the tuple bound from separate_files_and_dirs(...), whatever the local is called
    file_vars = {t.elts[0].id for a in ast.walk(el.node) if isinstance(a, ast.Assign) and is_call_named(a.value, sf.name) for t in a.targets if isinstance(t, ast.Tuple) and t.elts and isinstance(t.elts[0], ast.Name)}
    run.require(len(file_vars) == 1, "execute_linting_on_paths: the (files, dirs) pair returned by separate_files_and_dirs is not unpacked once")
    var = next(iter(file_vars))
    # ... and it is bound once: no second assignment, no in-place reduction between the partition and the lint calls
    rebinds = [a for a in ast.walk(el.node) if (isinstance(a, ast.Assign) and not is_call_named(a.value, sf.name) and any(isinstance(t, ast.Name) and t.id == var for t_ in a.targets for t in ast.walk(t_)))
               or (isinstance(a, ast.AugAssign) and isinstance(a.target, ast.Name) and a.target.id == var)
               or (isinstance(a, ast.Call) and isinstance(a.func, ast.Attribute) and isinstance(a.func.value, ast.Name) and a.func.value.id == var and a.func.attr in ("remove", "pop", "clear", "sort", "reverse", "__delitem__"))
               or (isinstance(a, ast.Delete) and any(isinstance(t, ast.Subscript) and isinstance(t.value, ast.Name) and t.value.id == var for t in a.targets))]
    if rebinds:
        run.finding(W5, "execute_linting_on_paths", f"file-group-rewritten:{norm(rebinds[0])[:60]}", f"execute_linting_on_paths rewrites the group of explicitly named files after the partition (`{norm(rebinds[0])[:90]}`): a file named on the command line can be dropped before it is linted (e.g. one below a directory target that a --no-recursive walk never reaches)", f"{el.module.rel}:{rebinds[0].lineno}")
    else:
        run.ok(W5, "execute_linting_on_paths file group", "bound once by the partition")
    for callee in ("lint_files", "lint_files_parallel"):
        c = next((n for n in inline.flat_nodes(repo, el) if is_call_named(n, callee)), None)   # dispatch helpers inlined, parameters substituted
        (run.ok(W5, f"execute_linting_on_paths -> {callee}", "receives the file group unchanged") if c is not None and c.args and isinstance(c.args[0], ast.Name) and c.args[0].id == var else run.finding(W5, "execute_linting_on_paths", f"arg:{callee}", f"{callee} does not receive the unfiltered file group", el.loc))
    W6 = run.rule("W6", "repository ignore patterns reach the matcher as written: between reading .thailintignore / the `ignore:` list and matching, a pattern is only trimmed of surrounding whitespace", floor=2,
                  decides="a pattern such as `.tools/**` or `../shared/` excludes what it names - no character of it is stripped, replaced or case-folded on the way")
    lr = repo.func("src.linter_config.ignore._load_repo_ignores")
    loaders = [lr] + [repo.funcs[q] for q in cg.reach([lr.qual], resolved_only=True) if q in repo.funcs and q != lr.qual and repo.funcs[q].module.name.startswith("src.")]
    REWRITE = {"lstrip", "rstrip", "strip", "replace", "removeprefix", "removesuffix", "lower", "upper", "casefold", "translate", "normpath", "sub"}
    n_w6 = 0
    for f in sorted(loaders, key=lambda x: x.qual):
        for n in ast.walk(f.node):
            if not (isinstance(n, ast.Call) and isinstance(n.func, ast.Attribute) and n.func.attr in REWRITE):
                continue
            n_w6 += 1
            sym = f"{f.qual.replace('src.', '', 1)}:{norm(n)[:40]}"
            if n.func.attr in ("strip", "lstrip", "rstrip") and not n.args and not n.keywords:
                run.ok(W6, sym, "whitespace trim")
            elif n.func.attr in ("strip", "lstrip", "rstrip") and n.args and isinstance(repo.fold(f.module, n.args[0]), str) and not repo.fold(f.module, n.args[0]).strip():
                run.ok(W6, sym, "whitespace trim")
            else:
                extra = ""
                if n.func.attr in ("strip", "lstrip", "rstrip") and n.args and isinstance(repo.fold(f.module, n.args[0]), str):
                    extra = f" (str.{n.func.attr}({repo.fold(f.module, n.args[0])!r}) removes every leading/trailing character of that set, not the prefix: `.tools/**` becomes `tools/**`)"
                run.finding(W6, f.qual.replace("src.", "", 1), f"pattern-rewritten:{norm(n)[:50]}", f"{f.qual}: `{norm(n)[:80]}` rewrites an ignore pattern on its way from the configuration to the matcher{extra}: the files the user named are linted and other files are skipped", f"{f.module.rel}:{n.lineno}")
    run.ok(W6, "_load_repo_ignores", f"{len(loaders)} functions between the pattern files and the matcher examined, {n_w6} string-rewriting calls")
    run.require(len(loaders) >= 4, f"W6: only {len(loaders)} functions reachable from _load_repo_ignores")
    run.extra["call_resolution"] = f"{cg.n_resolved}/{cg.n_calls}"
    return __doc__
