"""C12 - every violation points at a real location of the construct it describes.

Decides (structure only):
 B1 line base: every value that can flow into the `line` of a Violation is 1-based (parser .lineno, tree-sitter
    row + 1, enumerate(..., 1), a constant >= 1) - never a bare 0-based row, never a 1-based line with a further +k;
 B2 file-level violations use a constant line >= 1;
 B3 every value that can flow into `column` is a 0-based column (col_offset, start_point[1]) or a constant >= 0;
 B4 reported line numbers are produced in the parser's newline model: a list produced by str.splitlines() is not
    enumerated from 1 to manufacture the line number of a violation.
Not decided: that the node chosen is the construct the message describes, or that quoted names occur on that line.
"""

from __future__ import annotations

import ast

from ..dims import DimAnalysis
from ..facts import call_name, norm
from ..linters import Linters
from . import shared

BASELINE = {"B1": {"max_undecided": 3}, "B3": {"max_undecided": 2}}   # today 2 and 1: one more untraceable sink each is tolerated, beyond that the rule no longer decides enough


def check(run, ctx):
    L = Linters(ctx)
    D = DimAnalysis(ctx, L)
    sinks = L.sinks()
    run.require(len(sinks) >= 45, f"only {len(sinks)} violation construction sites")
    B1 = run.rule("B1", "every dimension that reaches Violation.line is a 1-based line (or a constant >= 1)", floor=40,
                  decides="reported lines are between 1 and the file length for the construct's own node")
    B3 = run.rule("B3", "every dimension that reaches Violation.column is a 0-based column or a constant >= 0", floor=40)
    n_known = n_top = 0
    for sk in sinks:
        sym = sk["caller"].replace("src.linters.", "")
        loc = f"{ctx.repo.funcs[sk['caller']].module.rel}:{sk['call'].lineno}"
        is_syntax = shared.is_syntax_error_builder(ctx, sk["caller"])
        for fld, rid in (("line", B1), ("column", B3)):
            e = sk["args"].get(fld)
            if e is None:
                continue
            ds = D.dims_of(sk["caller"], e)
            bad = []
            tops = []
            for d, prov in ds:
                if d.kind == "top":
                    tops.append(prov)
                    continue
                if fld == "line":
                    if d.kind in ("row0", "col0", "col1"):
                        bad.append((d, prov, f"a {d.kind} value is reported as a line (0-based rows need + 1)"))
                    elif d.kind == "off":
                        bad.append((d, prov, f"off-by-k: {d.note}"))
                    elif d.kind == "const" and d.value is not None and d.value < 1 and not is_syntax:
                        bad.append((d, prov, f"constant line {d.value} < 1"))
                else:
                    if d.kind in ("line1", "row0"):
                        bad.append((d, prov, f"a {d.kind} value is reported as a column"))
                    elif d.kind == "off":
                        bad.append((d, prov, f"off-by-k: {d.note}"))
                    elif d.kind == "const" and d.value is not None and d.value < 0:
                        bad.append((d, prov, f"constant column {d.value} < 0"))
            if bad:
                d, prov, why = bad[0]
                run.finding(rid, f"{sym}.{fld}", f"{d}:{prov.split(': ', 1)[-1]}", f"{fld} of the violation built at {sym} can come from `{prov}`: {why}", loc, path=[p for _, p, _ in bad])
            elif ds and len(tops) < len(ds):
                n_known += 1
                run.ok(rid, f"{sym}.{fld}", f"{norm(e)} <- {sorted({str(d) for d, _ in ds if d.kind != 'top'})}" + (f" (+{len(tops)} untraceable sources)" if tops else ""))
            else:
                n_top += 1
                run.undecided(rid, f"{sym}.{fld}", f"no source of {norm(e)} could be followed to a parser position ({tops[0] if tops else 'none'})")
    run.extra["sinks_with_known_dimension"] = n_known
    run.extra["sinks_untraceable"] = n_top

    B5 = run.rule("B5", "line and column of a violation (or of the record it is built from) are taken from the same syntax node", floor=25,
                  decides="the column lies within the reported line")
    def pos_base(e):
        if isinstance(e, ast.BinOp) and isinstance(e.right, ast.Constant):
            e = e.left
        if isinstance(e, ast.Subscript) and isinstance(e.value, ast.Attribute) and e.value.attr in ("start_point", "end_point"):
            return ast.unparse(e.value.value)
        if isinstance(e, ast.Attribute) and e.attr in ("lineno", "col_offset", "end_lineno", "end_col_offset"):
            return ast.unparse(e.value)
        return None
    for f in sorted(ctx.repo.funcs.values(), key=lambda x: x.qual):
        if not f.module.name.startswith("src.linters") or f.parent is not None:
            continue
        for c in ast.walk(f.node):
            pairs = []
            if isinstance(c, ast.Call):
                kw = {k.arg: k.value for k in c.keywords if k.arg}
                pairs.append((kw.get("line") if kw.get("line") is not None else kw.get("line_number"), kw.get("column")))
            elif isinstance(c, ast.Dict):
                d = {k.value: v for k, v in zip(c.keys, c.values) if isinstance(k, ast.Constant)}
                pairs.append((d.get("line"), d.get("column")))
            # local pair: line = X.start_point[0] + 1 ; column = Y.start_point[1] in one function, fed to one call
            for ln, col in pairs:
                if ln is None or col is None:
                    continue
                lb = pos_base(ln)
                if lb is None and isinstance(ln, ast.Name) and isinstance(col, ast.Name):
                    defs = {n.targets[0].id: n.value for n in ast.walk(f.node) if isinstance(n, ast.Assign) and len(n.targets) == 1 and isinstance(n.targets[0], ast.Name)}
                    if ln.id in defs and col.id in defs:
                        ln, col = defs[ln.id], defs[col.id]
                        lb = pos_base(ln)
                if lb is None:
                    continue
                sym = f"{f.qual.replace('src.linters.', '')}:{norm(ln)}"
                if isinstance(col, ast.Constant):
                    run.ok(B5, sym, f"constant column {col.value}", nontrivial=False)
                elif pos_base(col) == lb:
                    run.ok(B5, sym, f"line and column both from `{lb}`")
                else:
                    run.finding(B5, f.qual.replace("src.linters.", ""), f"column-from-other-node:{norm(col)}", f"line is taken from `{lb}` ({norm(ln)}) but column from `{norm(col)}`: for a construct spanning several lines the column can lie outside the reported line", f"{f.module.rel}:{c.lineno}")

    B6 = run.rule("B6", "a call never pairs the line of a syntax node with one of that node's parts (loop variable over node.children/targets, node.<field>): the record built for the part would carry the parent's line", floor=20,
                  decides="the name a message quotes occurs on the reported line, also for multi-line declarations (`const A = 1,\\n  B = 2`, `A = \\\\\\n  B = 5`)")
    def line_base(e):
        if isinstance(e, ast.BinOp) and isinstance(e.right, ast.Constant):
            e = e.left
        if isinstance(e, ast.Subscript) and isinstance(e.value, ast.Attribute) and e.value.attr == "start_point" and isinstance(e.slice, ast.Constant) and e.slice.value == 0:
            return ast.unparse(e.value.value)
        if isinstance(e, ast.Attribute) and e.attr == "lineno":
            return ast.unparse(e.value)
        return None
    for f in sorted(ctx.repo.funcs.values(), key=lambda x: x.qual):
        if not f.module.name.startswith("src.linters") or f.parent is not None:
            continue
        defs: dict[str, list] = {}
        parts: dict[str, set[str]] = {}   # variable -> names of the nodes it is a part of
        def part_of(target, src):
            base = src
            if isinstance(base, ast.Subscript):
                base = base.value
            if isinstance(base, ast.Call) and isinstance(base.func, ast.Attribute) and base.func.attr in ("child_by_field_name", "named_child", "child"):
                base = base.func
            if isinstance(base, ast.Attribute) and isinstance(target, ast.Name) and base.attr not in NON_NODE_ATTRS:
                parts.setdefault(target.id, set()).add(ast.unparse(base.value))
        for n in ast.walk(f.node):
            if isinstance(n, ast.Assign) and len(n.targets) == 1 and isinstance(n.targets[0], ast.Name):
                defs.setdefault(n.targets[0].id, []).append(n.value)
                part_of(n.targets[0], n.value)
            elif isinstance(n, ast.For):
                part_of(n.target, n.iter)
            elif isinstance(n, ast.comprehension):
                part_of(n.target, n.iter)
        for c in ast.walk(f.node):
            if not isinstance(c, ast.Call):
                continue
            args = list(c.args) + [k.value for k in c.keywords]
            for a in args:
                b = line_base(a)
                if b is None and isinstance(a, ast.Name) and len(defs.get(a.id, ())) == 1:
                    b = line_base(defs[a.id][0])
                if b is None:
                    continue
                sym = f"{f.qual.replace('src.linters.', '')}:{norm(c.func)}({norm(a)})"
                culprit = [x.id for x in args if isinstance(x, ast.Name) and b in parts.get(x.id, ()) and x.id != b]
                if culprit and not _line_param_becomes_record_line(ctx.repo, f, c, a, [x for x in args if isinstance(x, ast.Name) and x.id in culprit]):
                    run.ok(B6, sym, f"`{culprit[0]}` is a part of `{b}`, but the callee does not store this line in a record's line field", nontrivial=False)
                    continue
                # an annotated assignment starts with its target: node.target with node.lineno is the same line by construction
                if culprit:
                    run.finding(B6, f.qual.replace("src.linters.", ""), f"parent-line-for-part:{culprit[0]}<-{b}", f"`{norm(c)[:90]}` passes `{culprit[0]}`, a part of `{b}`, together with the line of `{b}` itself: whatever is recorded for `{culprit[0]}` gets the line where `{b}` starts, which differs as soon as the construct spans several lines", f"{f.module.rel}:{c.lineno}")
                else:
                    run.ok(B6, sym, f"line of `{b}`; no argument is a part of `{b}`")

    B7 = run.rule("B7", "the `line` of a class/struct metrics record (SRP) is the start line of the class node itself: <node>.lineno or <node>.start_point[0] + 1 with <node> the analysed class", floor=3,
                  decides="the SRP violation sits on the `class` / `struct` header line, where the quoted name is - not on a decorator or attribute line above it")
    from ..util import expand_locals as _xl
    for f in sorted(ctx.repo.funcs_in("src.linters.srp."), key=lambda x: x.qual):
        if f.parent is not None:
            continue
        params = {a.arg for a in f.node.args.args}
        for d in [n for n in ast.walk(f.node) if isinstance(n, ast.Dict)]:
            for k, v in zip(d.keys, d.values):
                if isinstance(k, ast.Constant) and k.value == "line":
                    e = _xl(f.node, v)
                    txt = ast.unparse(e)
                    base = txt.replace(".start_point[0] + 1", "").replace(".lineno", "")
                    good = (txt.endswith(".lineno") or txt.endswith(".start_point[0] + 1")) and base in params
                    sym = f"{f.qual.replace('src.linters.', '')}:line"
                    if good:
                        run.ok(B7, sym, f"line = {txt}")
                    else:
                        run.finding(B7, f.qual.replace("src.linters.", ""), f"record-line:{txt[:60]}", f"the metrics record takes its line from `{txt[:80]}`, not from the start of the analysed class node: for a class with decorators / attributes above it the violation lands on a line that does not show the class name", f"{f.module.rel}:{v.lineno}")

    B2 = run.rule("B2", "file-level violations (file-placement, missing header, orphaned header entry) use a constant line >= 1", floor=1)   # the constructions may be shared by one helper
    for sk in sinks:
        e = sk["args"].get("line")
        if isinstance(e, ast.Constant):
            sym = sk["caller"].replace("src.linters.", "")
            (run.ok(B2, sym, f"line={e.value}") if isinstance(e.value, int) and e.value >= 1 else run.finding(B2, sym, f"line:{e.value}", f"file-level violation uses line {e.value!r}", f"{ctx.repo.funcs[sk['caller']].module.rel}:{sk['call'].lineno}"))

    B4 = run.rule("B4", "line numbers of violations are not manufactured by enumerating str.splitlines() (which also splits on \\x0b \\x0c \\x1c-\\x1e \\x85 U+2028 U+2029)", floor=3,
                  decides="the reported line is the line editors and the language parsers agree on")
    for rec in shared.line_model_sites(ctx):
        if rec["producer"]:
            run.finding(B4, rec["func"], "splitlines-line-producer", f"{rec['func']}: `{rec['expr']}` is enumerated from 1 and the index becomes the reported line: a form feed / NEL / U+2028 inside the file shifts every later line number", rec["loc"])
        else:
            run.ok(B4, rec["func"], rec["use"], nontrivial=False)

    B8 = run.rule("B8", "text quoted in a cross-file (stringly-typed) message comes from the member the violation is reported for, not from a representative of its group", floor=1,
                  decides="the values quoted for file:line occur on that line, also when group members differ in case or order")
    vg = ctx.repo.mod("src.linters.stringly_typed.violation_generator")
    n_b8 = 0
    for f in sorted([x for x in ctx.repo.funcs.values() if x.module is vg and x.parent is None], key=lambda x: x.qual):
        texts = [n for n in ast.walk(f.node) if isinstance(n, ast.JoinedStr)]
        if not texts:
            continue   # not a message builder (the skip predicates may look at a representative)
        rep = {t.id for a in ast.walk(f.node) if isinstance(a, ast.Assign) and isinstance(a.value, ast.Subscript) and isinstance(ctx.repo.fold(vg, a.value.slice), int) for t in a.targets if isinstance(t, ast.Name)}
        for n in ast.walk(f.node):
            if isinstance(n, ast.Attribute) and n.attr in ("string_values", "variable_name", "function_name", "param_index"):
                n_b8 += 1
                base = n.value
                if (isinstance(base, ast.Subscript) and isinstance(ctx.repo.fold(vg, base.slice), int)) or (isinstance(base, ast.Name) and base.id in rep):
                    run.finding(B8, f.qual.replace("src.linters.", ""), f"representative:{norm(n)[:40]}", f"{f.qual} builds message text from `{norm(n)}` - one fixed member of the group - while one violation is reported per member: for a member whose spelling differs (groups are matched case-insensitively) the message quotes values that do not occur on the reported line", f"{vg.rel}:{n.lineno}")
                else:
                    run.ok(B8, f"{f.name}:{norm(n)[:30]}", "read from the member itself")
    run.require(n_b8 >= 1, "B8: no message builder reading member fields found in stringly_typed.violation_generator")
    B9 = run.rule("B9", "the name quoted for a TypeScript function value (arrow function / function expression) is read from the node it is the direct initialiser of: the variable_declarator consulted is `<node>.parent`, not something found by climbing", floor=1,
                  decides="a callback that is merely an argument inside an initialiser (`const total = xs.map((x) => {...})`) is not reported under the variable's name at the callback's line")
    from .. import inline
    repo = ctx.repo
    ext = [f for f in repo.funcs_in("src.linters.nesting.typescript_function_extractor.") if f.parent is None and len(f.node.args.args) >= 2
           and any(isinstance(c, ast.Constant) and c.value == "variable_declarator" for c in ast.walk(f.node))]
    run.require(len(ext) >= 1, "B9: no name extractor consults a variable_declarator")
    for f in ext:
        pars = {a.arg for a in f.node.args.args} - {"self", "cls"}
        npar = next((a.value.value.id for a in ast.walk(f.node) if isinstance(a, ast.Assign) and isinstance(a.value, ast.Attribute) and a.value.attr == "parent" and isinstance(a.value.value, ast.Name) and a.value.value.id in pars), f.node.args.args[1].arg)
        cmp_vars = {n.left.value.id for n in ast.walk(f.node) if isinstance(n, ast.Compare) and isinstance(n.left, ast.Attribute) and n.left.attr == "type" and isinstance(n.left.value, ast.Name)
                    and any(isinstance(c, ast.Constant) and c.value == "variable_declarator" for c in n.comparators)}
        bad = None
        for v in sorted(cmp_vars):
            binds = [a.value for a in ast.walk(f.node) if isinstance(a, ast.Assign) and any(isinstance(t, ast.Name) and t.id == v for t in a.targets)]
            for b in binds:
                direct = isinstance(b, ast.Attribute) and b.attr == "parent" and isinstance(b.value, ast.Name) and b.value.id == npar
                if direct and len(binds) == 1:
                    continue
                h = inline.resolve_call(repo, f, b) if isinstance(b, ast.Call) else None
                climbs = h is not None and any(isinstance(x, (ast.While, ast.For)) for x in ast.walk(h.node))
                bad = f"`{v} = {norm(b)[:50]}`" + (f" ({h.name} climbs in a loop)" if climbs else "")
            if not binds and v != npar:
                bad = f"`{v}` is not bound from {npar}.parent"
        if bad:
            run.finding(B9, f.name, f"declarator-not-direct-parent:{f.name}", f"{f.qual}: the declarator whose name is quoted is found through {bad} rather than `{npar}.parent`: a function value that is only a call argument or otherwise wrapped inside an initialiser is reported under the variable's name, while line and column stay those of the callback - the quoted name is not on the reported line", f.loc)
        else:
            run.ok(B9, f.name, f"name read from {npar}.parent only")
    return __doc__



NON_NODE_ATTRS = {"start_point", "end_point", "start_byte", "end_byte", "lineno", "end_lineno", "col_offset", "end_col_offset", "type", "text", "name", "id", "attr", "arg", "parent", "kind"}


def _line_param_becomes_record_line(repo, f, call: ast.Call, line_arg: ast.expr, part_args=()) -> bool:
    """Does the (same-module / same-class) callee put the parameter that receives line_arg straight into a
    line=/line_number= field of a record whose other fields are taken from the parameter that receives the part?
    (A record about the parent - `Violation(line=func_line, message=f"{func.name} ...")` - is not at issue.)"""
    nm = call_name(call)
    cands = [g for g in repo.funcs.values() if g.module is f.module and g.name == nm and g.parent is None]
    for g in cands:
        params = [a.arg for a in g.node.args.posonlyargs + g.node.args.args]
        if g.cls is not None and params and params[0] in ("self", "cls"):
            params = params[1:]
        def param_of(arg):
            for i, a in enumerate(call.args):
                if a is arg and i < len(params):
                    return params[i]
            for k in call.keywords:
                if k.value is arg:
                    return k.arg
            return None
        pname = param_of(line_arg)
        part_params = {param_of(x) for x in part_args} - {None}
        if pname is None or not part_params:
            continue
        # locals derived from the part parameter(s)
        dep = set(part_params)
        changed = True
        while changed:
            changed = False
            for n in ast.walk(g.node):
                if isinstance(n, ast.Assign) and any(isinstance(y, ast.Name) and y.id in dep for y in ast.walk(n.value)):
                    for t in n.targets:
                        for el in ast.walk(t):
                            if isinstance(el, ast.Name) and el.id not in dep:
                                dep.add(el.id)
                                changed = True
        for n in ast.walk(g.node):
            if isinstance(n, ast.Call):
                kws = {k.arg: k.value for k in n.keywords if k.arg}
                lv = next((kws[x] for x in ("line", "line_number", "lineno") if x in kws), None)
                if isinstance(lv, ast.Name) and lv.id == pname:
                    others = [v for k_, v in kws.items() if k_ not in ("line", "line_number", "lineno")] + list(n.args)
                    if any(isinstance(y, ast.Name) and y.id in dep for o in others for y in ast.walk(o)):
                        return True
    return False
