"""C10 - directory, file-list, CLI and library runs agree with one another.

Decides (structure only):
 A1 the library (Linter._lint_path) and the CLI (execute_linting_on_paths) route each target kind (file, directory)
    to orchestrator methods with the same finalize behaviour;
 A2 one invocation finalizes once over all of its targets (no per-group finalize that splits cross-file evidence);
 A3 both entry points build the orchestrator from the same config discovery and apply a rule-id filter;
 A4 per-file rules do not memoise their configuration across the files of one run.
Not decided: union laws on arbitrary trees.
"""

from __future__ import annotations

import ast

from .. import cfg, clifacts, inline
from ..facts import call_name, norm
from ..util import func_paths, is_call_named

ORCH = "src.orchestrator.core.Orchestrator"
FINALIZING = {"lint_files": True, "lint_directory": True, "lint_files_parallel": True, "lint_directory_parallel": True, "lint_file": False}


def _routes(repo, f):
    """orchestrator method -> (call, executed in a loop?) over the flattened entry point (dispatch helpers inlined)"""
    out = {}
    for n, in_loop in inline.flat_calls(repo, f):
        if isinstance(n.func, ast.Attribute) and n.func.attr in FINALIZING and "orchestrator" in ast.unparse(n.func.value).lower():
            prev = out.get(n.func.attr)
            out[n.func.attr] = (n, in_loop or (prev[1] if prev else False))
    return out


def check(run, ctx):
    repo, cg = ctx.repo, ctx.cg
    A1 = run.rule("A1", "file targets and directory targets are routed to finalizing orchestrator methods by both entry points", floor=4,
                  decides="Linter.lint(file) and `thailint X file` report the same, cross-file rules included")
    lib = repo.func_by_role("src.api.Linter._lint_path", "routes one target to the orchestrator's lint_file / lint_directory",
                            lambda g: any(isinstance(n, ast.Call) and isinstance(n.func, ast.Attribute) and n.func.attr in ("lint_directory", "lint_files") and "orchestrator" in ast.unparse(n.func.value) for n in ast.walk(g.node)))
    cli = repo.func("src.cli.utils.execute_linting_on_paths")
    lr, cr = _routes(repo, lib), _routes(repo, cli)
    run.require(lr and cr, "entry points no longer call orchestrator lint methods")
    # verify today's semantics of the orchestrator methods (which of them finalize)
    for m, fin in FINALIZING.items():
        f = repo.func(f"{ORCH}.{m}")
        pr = cg.reach([f.qual])
        has = any(q.endswith(".finalize") and q.startswith("src.") for q in pr)
        if has != fin:
            run.finding(A1, f"Orchestrator.{m}", f"finalize:{has}", f"Orchestrator.{m} {'now reaches' if has else 'no longer reaches'} rule.finalize(); the entry-point comparison below assumes the opposite", f.loc)
        else:
            run.ok(A1, f"Orchestrator.{m}", "finalizes" if fin else "does not finalize", nontrivial=False)
    for name, f, routes in ((f"library Linter.{lib.name}", lib, lr), ("CLI execute_linting_on_paths", cli, cr)):
        for m in sorted(routes):
            kind = "directory" if "directory" in m else "file"
            if FINALIZING[m]:
                run.ok(A1, f"{name}:{kind}", f"-> {m} (finalizes)")
            else:
                other = "CLI" if name.startswith("library") else "library"
                run.finding(A1, f"{name}:{kind}", f"routes-to:{m}", f"{name} sends a {kind} target to Orchestrator.{m}, which never calls finalize(): cross-file rules report nothing here while the {other} entry point reports them", f.loc)

    A2 = run.rule("A2", "an invocation with several targets finalizes once over all of them", floor=1,
                  decides="duplicates shared between two targets of one command are found; nothing is reported twice")
    in_loop = [m for m, (n, lp) in cr.items() if lp]
    groups = {("files" if "files" in m else "dir") for m in cr}
    if in_loop or len(groups) > 1:
        run.finding(A2, "execute_linting_on_paths", "per-group-finalize", f"file targets are finalized as one group and each directory target separately ({sorted(cr)}; in a loop: {sorted(in_loop)}): cross-file rules judge each group on its own (today masked/duplicated by the DRY state that is never reset, C08-S1)", cli.loc)
        # the two defects mask each other (DESIGN 5 item 9): while the CLI finalizes per group, the DRY storage that
        # survives finalize() is what still lets files of different targets be compared.  Repairing only the reset
        # (S1) loses every duplicate shared between two targets - that state of the tree is a NEW violation.
        dfin = repo.funcs.get("src.linters.dry.linter.DRYRule.finalize")
        if dfin is not None:
            resets = [n for n in inline.flat_nodes(repo, dfin) if isinstance(n, ast.Assign) and any(isinstance(t, ast.Attribute) and t.attr in ("_storage", "_active_storage") and isinstance(t.value, ast.Name) and t.value.id == "self" for t in n.targets)]
            resets += [n for n in inline.flat_nodes(repo, dfin) if isinstance(n, ast.Call) and isinstance(n.func, ast.Attribute) and n.func.attr in ("clear", "reset", "close") and isinstance(n.func.value, ast.Attribute) and n.func.value.attr in ("_storage", "_active_storage")]
            if resets:
                run.finding(A2, "execute_linting_on_paths", "per-group-finalize-with-reset", f"DRYRule.finalize now drops its block storage (`{norm(resets[0])[:60]}`) while the CLI still finalizes once per target group: blocks of `dirA/x.py` are gone when `dirB/y.py` is finalized, so a duplicate shared between two targets of one command (or two lint() calls of one Linter) is not reported at all", f"{dfin.module.rel}:{resets[0].lineno}")
            else:
                run.ok(A2, "DRYRule.finalize vs per-group finalize", "storage survives finalize(): cross-target duplicates are still found (the known S1/A2 pair)")
    else:
        run.ok(A2, "execute_linting_on_paths", "single finalizing call per invocation")

    # the CLI hands on what the orchestrator returned: the list is only extended, never filtered, de-duplicated or rebuilt
    rets = [r for r in ast.walk(cli.node) if isinstance(r, ast.Return) and r.value is not None]
    acc = {t.id for a in ast.walk(cli.node) if isinstance(a, (ast.Assign, ast.AnnAssign)) and isinstance(getattr(a, "value", None), ast.List) and not a.value.elts for t in (a.targets if isinstance(a, ast.Assign) else [a.target]) if isinstance(t, ast.Name)}
    rebound = [a for a in ast.walk(cli.node) if isinstance(a, ast.Assign) and any(isinstance(t, ast.Name) and t.id in acc for t in a.targets) and not (isinstance(a.value, ast.List) and not a.value.elts)]
    post = [r for r in rets if not (isinstance(r.value, ast.Name) and r.value.id in acc)] + rebound
    if post:
        run.finding(A2, "execute_linting_on_paths", f"post-processed:{norm(post[0])[:60]}", f"execute_linting_on_paths returns `{norm(post[0])[:70]}`: the CLI rewrites the violation list after the orchestrator produced it (the library entry point returns it as it is), so one and the same target yields different violations through the two entry points whenever the rewrite drops or merges something", f"{cli.module.rel}:{post[0].lineno}")
    else:
        run.ok(A2, "execute_linting_on_paths result", "the accumulated orchestrator results, returned unchanged")

    A3 = run.rule("A3", "both entry points discover configuration the same way and filter by rule id", floor=3)
    li = repo.func("src.api.Linter.__init__")
    so = repo.func("src.cli.utils.setup_base_orchestrator")
    lib_cfg = any(is_call_named(n, "load") for n in ast.walk(li.node)) and any(isinstance(n, ast.Call) and call_name(n) == "Orchestrator" and any(k.arg == "config" for k in n.keywords) for n in ast.walk(li.node))
    cli_cfg = any(isinstance(n, ast.Call) and call_name(n) == "Orchestrator" for n in ast.walk(so.node)) and any(is_call_named(n, "load_config_file") for n in ast.walk(so.node))
    (run.ok(A3, "library config", "LinterConfigLoader.load(resolved path) -> Orchestrator(config=...)") if lib_cfg else run.finding(A3, "Linter.__init__", "config", "the library no longer loads configuration through LinterConfigLoader", li.loc))
    (run.ok(A3, "CLI config", "Orchestrator(project_root) auto-discovery, --config through load_config_file") if cli_cfg else run.finding(A3, "setup_base_orchestrator", "config", "the CLI no longer loads configuration through the orchestrator's loader", so.loc))
    lcf = repo.func("src.cli.utils.load_config_file")
    same_loader = any(isinstance(n, ast.Call) and ast.unparse(n.func).endswith("config_loader.load") for n in ast.walk(lcf.node))
    (run.ok(A3, "--config loader", "orchestrator.config_loader.load") if same_loader else run.finding(A3, "load_config_file", "loader", "--config is not parsed by the shared LinterConfigLoader", lcf.loc))
    # --config replaces the auto-discovered configuration (as config_file= does in the library, which loads only that file)
    repl = [n for n in inline.flat_nodes(repo, lcf) if isinstance(n, ast.Assign) and any(isinstance(t, ast.Attribute) and t.attr == "config" for t in n.targets) and any(is_call_named(c, "load") for c in ast.walk(n.value))]
    merged = [n for n in inline.flat_nodes(repo, lcf) if isinstance(n, ast.Call) and isinstance(n.func, ast.Attribute) and n.func.attr in ("update", "setdefault") and isinstance(n.func.value, ast.Attribute) and n.func.value.attr == "config"]
    merged += [n for n in inline.flat_nodes(repo, lcf) if isinstance(n, ast.Assign) and any(isinstance(t, ast.Attribute) and t.attr == "config" for t in n.targets) and isinstance(n.value, (ast.BinOp, ast.Dict)) and any(isinstance(x, ast.Attribute) and x.attr == "config" for x in ast.walk(n.value))]
    if repl and not merged:
        run.ok(A3, "--config replaces", f"{norm(repl[0])[:80]}")
    else:
        w_ = merged[0] if merged else lcf.node
        run.finding(A3, "load_config_file", f"merged:{norm(w_)[:60] if merged else 'no-assignment'}", f"load_config_file no longer replaces the orchestrator's configuration by the --config file ({norm(w_)[:80] if merged else 'no assignment of the loaded mapping'}): sections of the auto-discovered project file that the --config file does not mention stay in force in the CLI, while Linter(config_file=...) loads the named file only", f"{lcf.module.rel}:{getattr(w_, 'lineno', lcf.node.lineno)}")
    fv = repo.func_by_role("src.api.Linter._filter_violations", "keeps the violations whose rule_id is in the requested rule list",
                           lambda g: any(isinstance(n, ast.Compare) and isinstance(n.ops[0], ast.In) and ast.unparse(n.left).endswith("rule_id") for n in ast.walk(g.node)))
    ok = any(isinstance(n, ast.Compare) and isinstance(n.ops[0], ast.In) and ast.unparse(n.left).endswith("rule_id") for n in ast.walk(fv.node))
    (run.ok(A3, "library filter", "v.rule_id in rules") if ok else run.finding(A3, f"Linter.{fv.name}", "filter", "the library rule filter no longer selects by rule id", fv.loc))
    oi = repo.func("src.orchestrator.core.Orchestrator.__init__")
    tests = [n.test for n in ast.walk(oi.node) if isinstance(n, ast.If) and any(isinstance(x, ast.Name) and x.id == "config" for x in ast.walk(n.test))]
    run.require(bool(tests), "Orchestrator.__init__: no test on the config parameter")
    t = tests[0]
    explicit = isinstance(t, ast.Compare) and len(t.ops) == 1 and isinstance(t.ops[0], (ast.IsNot, ast.Is)) and isinstance(t.comparators[0], ast.Constant) and t.comparators[0].value is None
    (run.ok(A3, "Orchestrator config provided?", norm(t)) if explicit else run.finding(A3, "Orchestrator.__init__", f"truthiness:{norm(t)}", f"`if {norm(t)}` treats an explicitly passed empty configuration as absent and auto-discovers <project_root>/.thailint.yaml instead: the library (which passes config=...) and the CLI (which assigns orchestrator.config afterwards) then lint with different settings, and so do --parallel workers", oi.loc))
    # every Orchestrator(config=E): E is the loaded mapping itself, passed through unchanged (no `E or None`, no conditional)
    n_pass = 0
    for f in sorted(repo.funcs.values(), key=lambda x: x.qual):
        if not f.module.name.startswith("src."):
            continue
        for n in ast.walk(f.node):
            if isinstance(n, ast.Call) and call_name(n) == "Orchestrator":
                for k in n.keywords:
                    if k.arg == "config":
                        n_pass += 1
                        v_ = k.value
                        if isinstance(v_, ast.Call) and ((call_name(v_) in ("dict", "deepcopy") and len(v_.args) == 1 and not v_.keywords) or (call_name(v_) == "copy" and isinstance(v_.func, ast.Attribute) and not v_.args)):
                            v_ = v_.args[0] if v_.args else v_.func.value  # a copy of the mapping is still the mapping
                        if isinstance(v_, (ast.Name, ast.Attribute)):
                            run.ok(A3, f"{f.qual.replace('src.', '', 1)} Orchestrator(config=...)", f"config={norm(k.value)} passed through unchanged")
                        else:
                            run.finding(A3, f"{f.qual.replace('src.', '', 1)}", f"config-arg:{norm(k.value)}", f"Orchestrator(config={norm(k.value)}): the loaded configuration is transformed on the way in, so an explicitly given empty configuration (empty --config/config_file) becomes 'absent' and the project root's own file is auto-discovered instead - the CLI, which assigns orchestrator.config, keeps the empty one", f"{f.module.rel}:{n.lineno}")
    run.require(n_pass >= 2, "Orchestrator(config=...) call sites not found (library entry point and parallel worker)")
    # the library lints the target under the spelling it was given, like the CLI (which lints Path(arg)): no resolve()/absolute()
    ll = repo.func("src.api.Linter.lint")
    from ..util import expand_locals as _xl
    handed = next((c_ for c_ in ast.walk(ll.node) if is_call_named(c_, lib.name) and c_.args), None)
    run.require(handed is not None, f"Linter.lint no longer hands the target to {lib.name}")
    target_e = _xl(ll.node, handed.args[0])
    rewr = [call_name(x) for x in ast.walk(target_e) if isinstance(x, ast.Call) and call_name(x) in ("resolve", "absolute", "realpath", "abspath", "expanduser", "normpath", "relative_to")]
    if rewr:
        run.finding(A3, "Linter.lint", f"target-rewritten:{rewr[0]}", f"Linter.lint hands `{norm(target_e)[:70]}` to the orchestrator: the target is re-spelled ({rewr[0]}) before linting, so ignore patterns relative to a project_root given in another spelling, and the reported file_path, differ from what the CLI does with the same argument", ll.loc)
    else:
        run.ok(A3, "Linter.lint target", f"linted as given: {norm(target_e)[:60]}")
    cmds = clifacts.commands(repo)
    nofilter = sorted({c.name for c in cmds if not c.preds})
    (run.ok(A3, "CLI filters", f"{len(cmds)} commands filter by rule id") if not nofilter else run.finding(A3, "cli", f"unfiltered:{nofilter}", f"commands {nofilter} do not filter by rule id", "src/cli/linters"))
    from ..linters import Linters
    from . import shared

    A4 = run.rule("A4", "per-file rules compute their configuration per file: no rule memoises the parsed config across the files of a run", floor=15,
                  decides="a directory run equals the union of per-file runs, and a file list does not depend on argument order")
    for rec in shared.config_memoisation(ctx, Linters(ctx)):
        sym = f"{rec['rule']}.{rec['name']}"
        if rec["bad"]:
            run.finding(A4, sym, f"memoised:{rec['store']}", f"{rec['func'].qual} keeps the parsed configuration of the first file ({rec['store']}): with per-language overrides a mixed-language directory run no longer equals the union of the per-file runs and depends on traversal order", rec["func"].loc)
        else:
            run.ok(A4, sym, "configuration is recomputed for every file")
    return __doc__
