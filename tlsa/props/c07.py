"""C07 - --parallel reports exactly what the sequential run reports (narrow structural claim).

Decides (structure only):
 P1 for every rule whose finalize() is overridden, the orchestrator instance on which the parallel path runs
    check() is the one whose rules get finalize() - otherwise cross-file findings cannot appear under --parallel;
 P2 Violation's dataclass fields = keys written by to_dict = keys read by from_dict (the process-boundary codec);
 P3 every submitted future is consumed (futures list <-> as_completed(futures) loop without early exit); the small-
    input fallback is lint_files; the worker reaches rules only through lint_file (so the C14 gates apply);
 P4 the worker does not swallow the configuration ValueError that the sequential path turns into exit 2.
Not decided: completion order, partitioning, or the multiset for arbitrary inputs.
"""

from __future__ import annotations

import ast

from ..facts import call_name, norm
from ..linters import Linters
from ..util import is_call_named, is_caught

ORCH = "src.orchestrator.core"


def check(run, ctx):
    repo, cg = ctx.repo, ctx.cg
    L = Linters(ctx)
    P1 = run.rule("P1", "rules with cross-file state are finalized on the orchestrator instance that ran their check() in the parallel path", floor=2,
                  decides="duplicate-code and repeated-string-set findings are the same with and without --parallel")
    stateful = [r for r in L.rules if r.finalize is not None]
    run.require(len(stateful) >= 2, "expected at least two rules overriding finalize()")
    w = repo.func(f"{ORCH}._lint_file_worker")
    builds_own = any(isinstance(n, ast.Call) and call_name(n) == "Orchestrator" for n in ast.walk(w.node))
    calls_fin = any(is_call_named(n, "finalize", "_finalize_rules", "lint_files", "lint_directory") for n in ast.walk(w.node))
    returns_state = any(isinstance(n, ast.Return) and ("storage" in ast.unparse(n) or "state" in ast.unparse(n)) for n in ast.walk(w.node))
    lfp = repo.func(f"{ORCH}.Orchestrator.lint_files_parallel")
    parent_fin = any(is_call_named(n, "_finalize_rules") for n in ast.walk(lfp.node))
    for r in stateful:
        if builds_own and not calls_fin and not returns_state:
            run.finding(P1, r.short, "check-and-finalize-on-different-instances", f"under --parallel {r.short}.check() runs on a private Orchestrator inside _lint_file_worker (its collected state dies with the worker) while finalize() runs on the parent's rule instance, which saw no file: the rule reports nothing", w.loc,
                        path=[f"{ORCH}.Orchestrator.lint_files_parallel -> _execute_parallel_linting -> executor.submit(_lint_file_worker)", f"_lint_file_worker: Orchestrator(...).lint_file(file) -> {r.short}.check()", f"parent: _finalize_rules() -> {r.short}.finalize() on a different instance"])
        else:
            run.ok(P1, r.short, "check() and finalize() share an instance (or state is shipped back)")
    (run.ok(P1, "parent finalize", "lint_files_parallel calls _finalize_rules()") if parent_fin else run.finding(P1, "lint_files_parallel", "no-finalize", "the parallel path never finalizes rules", lfp.loc))

    P2 = run.rule("P2", "Violation fields = to_dict keys = from_dict keys; severity round-trips through Severity(value)", floor=3)
    vc = repo.cls("src.core.types.Violation")
    fields = list(vc.annots)
    td = vc.methods["to_dict"]
    d = next((n.value for n in ast.walk(td.node) if isinstance(n, ast.Return) and isinstance(n.value, ast.Dict)), None)
    run.require(d is not None, "Violation.to_dict: dict literal not found")
    wkeys = {k.value: ast.unparse(v) for k, v in zip(d.keys, d.values) if isinstance(k, ast.Constant)}
    fd = vc.methods["from_dict"]
    call = next((n for n in ast.walk(fd.node) if isinstance(n, ast.Call) and isinstance(n.func, ast.Name) and n.func.id in ("cls", "Violation")), None)
    run.require(call is not None, "Violation.from_dict: constructor call not found")
    rkeys = {}
    for k in call.keywords:
        consts = [x.value for x in ast.walk(k.value) if isinstance(x, ast.Constant) and isinstance(x.value, str)]
        rkeys[k.arg] = consts[0] if consts else None
    if set(wkeys) == set(fields):
        run.ok(P2, "to_dict", f"writes {sorted(wkeys)}")
    else:
        run.finding(P2, "Violation.to_dict", f"keys:{sorted(set(wkeys) ^ set(fields))}", f"to_dict and the dataclass differ in {sorted(set(wkeys) ^ set(fields))}: the field is lost across the process boundary", td.loc)
    bad = [f for f in fields if rkeys.get(f) != f]
    if not bad:
        run.ok(P2, "from_dict", "every field is read back from the key of the same name")
    else:
        run.finding(P2, "Violation.from_dict", f"keys:{bad}", f"from_dict does not restore {bad} from the same-named key", fd.loc)
    wrong_val = [f for f, v in wkeys.items() if f != "severity" and v != f"self.{f}"]
    sev_ok = wkeys.get("severity") == "self.severity.value" and any(isinstance(n, ast.Call) and call_name(n) == "Severity" for k in call.keywords if k.arg == "severity" for n in ast.walk(k.value))
    (run.ok(P2, "values", "each key carries its own field; severity via .value / Severity(...)") if not wrong_val and sev_ok else run.finding(P2, "Violation codec", f"values:{wrong_val or 'severity'}", "a key does not carry its own field's value", td.loc))
    wk = [n for n in ast.walk(w.node) if is_call_named(n, "to_dict")]
    ef = repo.func_by_role(f"{ORCH}.Orchestrator._extract_violations_from_future", "turns one worker future into violations (future.result() -> Violation.from_dict)",
                           lambda g: any(is_call_named(n, "result") for n in ast.walk(g.node)) and any(is_call_named(n, "from_dict") for n in ast.walk(g.node)))
    rk = [n for n in ast.walk(ef.node) if is_call_named(n, "from_dict")]
    (run.ok(P2, "codec use", "worker encodes with to_dict, parent decodes with from_dict") if wk and rk else run.finding(P2, "parallel codec", "unused", "the worker/parent no longer use the to_dict/from_dict pair", w.loc))

    P3 = run.rule("P3", "all futures are consumed; small inputs fall back to lint_files; the worker reaches rules only through lint_file", floor=4)
    ex = repo.func_by_role(f"{ORCH}.Orchestrator._execute_parallel_linting", "submits one worker call per file to the process pool",
                           lambda g: any(is_call_named(n, "submit") for n in ast.walk(g.node)))
    sub = [n for n in ast.walk(ex.node) if is_call_named(n, "submit")]
    ok = len(sub) == 1 and sub[0].args and ast.unparse(sub[0].args[0]) == "_lint_file_worker"
    comp = next((n for n in ast.walk(ex.node) if isinstance(n, ast.ListComp) and any(x is sub[0] for x in ast.walk(n))), None) if sub else None
    # roles, not names: the submit comprehension iterates a local list that is itself built, unfiltered, from the first parameter
    ok = ok and comp is not None and not comp.generators[0].ifs and isinstance(comp.generators[0].iter, (ast.Name, ast.ListComp))
    items_name = comp.generators[0].iter.id if comp is not None and isinstance(comp.generators[0].iter, ast.Name) else None
    wi = next((n.value for n in ast.walk(ex.node) if isinstance(n, ast.Assign) and ast.unparse(n.targets[0]) == items_name), None) if items_name else (comp.generators[0].iter if comp is not None else None)
    fpar = ex.node.args.args[1].arg
    ok = ok and isinstance(wi, ast.ListComp) and not wi.generators[0].ifs and ast.unparse(wi.generators[0].iter) == fpar
    (run.ok(P3, "_execute_parallel_linting", "one future per file, none filtered") if ok else run.finding(P3, "_execute_parallel_linting", "submission", "not every file is submitted exactly once to _lint_file_worker", ex.loc))
    cr = repo.func_by_role(f"{ORCH}.Orchestrator._collect_parallel_results", "consumes the futures with as_completed",
                           lambda g: any(is_call_named(n, "as_completed") for n in ast.walk(g.node)))
    loop = next((n for n in ast.walk(cr.node) if isinstance(n, ast.For) and is_call_named(n.iter, "as_completed")), None)
    ok = loop is not None and ast.unparse(loop.iter.args[0]) == cr.node.args.args[1].arg and not any(isinstance(n, (ast.Break, ast.Return)) for n in ast.walk(loop)) and any(is_call_named(n, "extend") for n in ast.walk(loop))
    (run.ok(P3, "_collect_parallel_results", "as_completed(futures) consumed to the end, results extended") if ok else run.finding(P3, "_collect_parallel_results", "consumption", "a completed future's violations can be dropped (early exit / not extended)", cr.loc))
    fb = [n for n in ast.walk(lfp.node) if isinstance(n, ast.If) and any(isinstance(s, ast.Return) and is_call_named(s.value, "lint_files") for s in n.body)]
    (run.ok(P3, "fallback", f"if {norm(fb[0].test)}: return self.lint_files(file_paths)") if fb else run.finding(P3, "lint_files_parallel", "fallback", "the small-input fallback is not the sequential lint_files", lfp.loc))
    direct = [n for n in ast.walk(w.node) if is_call_named(n, "check", "_execute_rules", "_safe_check_rule")]
    lf = [n for n in ast.walk(w.node) if is_call_named(n, "lint_file")]
    (run.ok(P3, "worker route", "rules reached only through Orchestrator.lint_file") if lf and not direct else run.finding(P3, "_lint_file_worker", "route", "the worker runs rules without going through lint_file's exclusion gates", w.loc))
    arg_ok = any(isinstance(n, ast.Call) and call_name(n) == "Orchestrator" and {k.arg for k in n.keywords} >= {"project_root", "config"} for n in ast.walk(w.node))
    (run.ok(P3, "worker orchestrator", "built from the parent's project_root and config") if arg_ok else run.finding(P3, "_lint_file_worker", "config", "the worker does not reuse the parent's project_root and config", w.loc))

    P5 = run.rule("P5", "the work item forwards (path as iterated, self.project_root, self.config) unchanged and the worker lints exactly that path", floor=2,
                  decides="a worker judges the same path spelling, project root and configuration as the sequential loop (exclusions, ignore patterns and reported file_path all read the path)")
    # the work item as slot -> expression: a 3-tuple (slots 0,1,2) or a record built with keyword arguments (slots = field names)
    elt = wi.elt if isinstance(wi, ast.ListComp) else None
    tgt = wi.generators[0].target if isinstance(wi, ast.ListComp) else None
    prod = None
    if isinstance(elt, ast.Tuple):
        prod = {i_: ast.unparse(e) for i_, e in enumerate(elt.elts)}
    elif isinstance(elt, ast.Call) and not elt.args and elt.keywords and all(k.arg for k in elt.keywords):
        prod = {k.arg: ast.unparse(k.value) for k in elt.keywords}
    if prod is not None and isinstance(elt, ast.Call) and isinstance(elt.func, ast.Name):
        # a NamedTuple / dataclass record is also addressable by position: add the positional view from its field order
        rc = next((c_ for q_, c_ in repo.classes.items() if c_.name == elt.func.id and c_.module is ex.module), None)
        if rc is not None:
            order = [st.target.id for st in rc.node.body if isinstance(st, ast.AnnAssign) and isinstance(st.target, ast.Name)]
            for i_, fld in enumerate(order):
                if fld in prod:
                    prod[i_] = prod[fld]
    n_slots = len([k_ for k_ in (prod or {}) if isinstance(k_, str)]) or len(prod or {})
    if prod is not None and not any(v_.endswith(".project_root") or v_ == "project_root" for v_ in prod.values()):
        # fewer slots than today and the parent's project root is not among them: decidable without knowing the new shape
        run.finding(P5, "_execute_parallel_linting", "project-root-not-forwarded", f"the work item `{norm(elt)[:60]}` no longer carries self.project_root: the worker cannot build its orchestrator on the parent's root (the configuration mapping never holds `_project_root` - only the per-file metadata copy does), falls back to the working directory and loses the repository-level ignore patterns whenever the run is started from elsewhere", ex.loc)
        return __doc__
    run.require(prod is not None and isinstance(tgt, ast.Name) and n_slots == 3, "_execute_parallel_linting: work items are neither 3-tuples nor 3-field records built by one comprehension over file_paths - P5 cannot decide the new shape")
    # the worker side: which slot reaches lint_file(...), Orchestrator(project_root=..., config=...)
    wpar = w.node.args.args[0].arg
    unpack = next((n for n in w.node.body if isinstance(n, ast.Assign) and isinstance(n.targets[0], ast.Tuple) and isinstance(n.value, ast.Name) and n.value.id == wpar), None)
    names = {e.id: i_ for i_, e in enumerate(unpack.targets[0].elts) if isinstance(e, ast.Name)} if unpack is not None else {}
    def slot_of(e):
        if isinstance(e, ast.Name) and e.id in names:
            return names[e.id]
        if isinstance(e, ast.Attribute) and isinstance(e.value, ast.Name) and e.value.id == wpar:
            return e.attr
        if isinstance(e, ast.Subscript) and isinstance(e.value, ast.Name) and e.value.id == wpar and isinstance(e.slice, ast.Constant):
            return e.slice.value
        return None
    lfc = next((n for n in ast.walk(w.node) if is_call_named(n, "lint_file")), None)
    oc = next((n for n in ast.walk(w.node) if isinstance(n, ast.Call) and call_name(n) == "Orchestrator"), None)
    run.require(lfc is not None and oc is not None and len(lfc.args) == 1, "_lint_file_worker: Orchestrator(...) / lint_file(<one argument>) not found - P5 cannot decide the new shape")
    rebinds = [n for n in ast.walk(w.node) if isinstance(n, (ast.Assign, ast.AugAssign, ast.AnnAssign)) and n is not unpack and any(isinstance(x, ast.Name) and isinstance(x.ctx, ast.Store) and (x.id in names or x.id == wpar) for x in ast.walk(n))]
    okw = {k.arg: slot_of(k.value) for k in oc.keywords}
    s_path, s_root, s_cfg = slot_of(lfc.args[0]), okw.get("project_root"), okw.get("config")
    run.require(None not in (s_path, s_root, s_cfg) and all(x in prod for x in (s_path, s_root, s_cfg)), "_lint_file_worker: the arguments of lint_file / Orchestrator are not plain slots of the work item - P5 cannot decide the new shape")
    want = {s_path: tgt.id, s_root: "self.project_root", s_cfg: "self.config"}
    wrong = [(k_, prod[k_], v_) for k_, v_ in want.items() if prod[k_] != v_]
    if len({s_path, s_root, s_cfg}) == 3 and not wrong and not rebinds:
        run.ok(P5, "work item", f"{prod} for {tgt.id} in file_paths")
        run.ok(P5, "worker", f"Orchestrator(project_root=<{s_root}>, config=<{s_cfg}>).lint_file(<{s_path}>)")
    elif wrong:
        bad = wrong[0][1]
        run.finding(P5, "_execute_parallel_linting", f"work-item:{bad}", f"the work item carries `{bad}` instead of the value the sequential path uses ({wrong[0][2]}): workers see a different path spelling / root / configuration than lint_files does, so exclusion by path component, ignore patterns and the reported file_path differ under --parallel", ex.loc)
    else:
        run.finding(P5, "_lint_file_worker", "worker-args", "the worker does not lint exactly the forwarded path with exactly the forwarded project root and configuration", w.loc)

    ldp = repo.func(f"{ORCH}.Orchestrator.lint_directory_parallel")
    ld = repo.func(f"{ORCH}.Orchestrator.lint_directory")
    def coll_args(f):
        c = next((n for n in ast.walk(f.node) if is_call_named(n, "_collect_files_fast")), None)
        return [ast.unparse(a) for a in c.args] + [f"{k.arg}={ast.unparse(k.value)}" for k in c.keywords] if c is not None else None
    a1, a2 = coll_args(ld), coll_args(ldp)
    (run.ok(P3, "directory collection", f"sequential and parallel both collect with ({', '.join(a1 or [])})") if a1 and a1 == a2 else run.finding(P3, "lint_directory_parallel", f"collector-args:{a2}", f"the parallel directory path collects files with {a2} but the sequential one with {a1}: --no-recursive (or any other collection option) yields a different file set under --parallel", ldp.loc))
    fw = next((n for n in ast.walk(ldp.node) if is_call_named(n, "lint_files_parallel")), None)
    (run.ok(P3, "lint_directory_parallel", "hands the collected list to lint_files_parallel") if fw is not None and fw.args and isinstance(fw.args[0], ast.Name) else run.finding(P3, "lint_directory_parallel", "forward", "the collected files are not handed to lint_files_parallel unchanged", ldp.loc))

    P4 = run.rule("P4", "neither the worker nor the parent's future collector stops a ValueError (or a subclass) that the sequential path lets through", floor=2, decides="the exit code is the same with and without --parallel")
    # the sequential path (_safe_check_rule) lets every ValueError - subclasses such as UnicodeError included - end the run;
    # the worker and the parent's future collector must do the same
    VE_FAMILY = ("ValueError", "UnicodeError", "UnicodeDecodeError", "UnicodeEncodeError")
    sites = [("_lint_file_worker", w, lf[0] if lf else None)]
    res_calls = [n for n in ast.walk(ef.node) if is_call_named(n, "result")]
    sites.append((ef.name, ef, res_calls[0] if res_calls else None))
    for nm_, fn_, target in sites:
        if target is None:
            run.undecided(P4, nm_, "the call whose ValueError must propagate was not found")
            continue
        swallowed = [e_ for e_ in VE_FAMILY if is_caught(fn_.node, target, e_)]
        if swallowed:
            run.finding(P4, nm_, f"swallows:{swallowed[0]}", f"{nm_} stops {swallowed[0]} (a ValueError) raised while linting / collecting a file: the sequential path lets it end the run with exit 2, the parallel path logs it and carries on with exit 0/1", fn_.loc)
        else:
            run.ok(P4, nm_, "ValueError and its subclasses propagate to the caller")
    return __doc__
