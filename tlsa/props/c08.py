"""C08 - results depend only on current file contents and config, not order or history.

Decides (structure only):
 S1 typestate of stateful rules: every instance attribute (or helper-object attribute) written on a path from check()
    is re-initialised on every path of finalize() that returns past its early `return []`;
 S2 finalize pairing: every caller of Orchestrator.lint_file also gets finalize() called on that orchestrator's rules;
    inside the orchestrator finalize runs after (not inside) the per-file loop, over registry.list_all(), and its
    result is added to the violations;
 S3 results of builtin hash() (seed-dependent) never reach a message, a Violation field, a sort key or an ORDER BY;
 S4 who may write: no filesystem-mutating API is reachable from a lint entry point or a rule, except the allowlist;
    the same matcher must find the config-tooling writers (positive control);
 S5 every constant non-section key a rule reads from context.metadata is one the orchestrator writes;
 S6 helper objects that live as long as a rule re-bind their accumulating attributes on every entry.
Not decided: staleness of path-keyed caches across edits (listed in evidence only).
"""

from __future__ import annotations

import ast

from .. import cfg, inline
from .. import configfacts as CF
from ..facts import UNKNOWN, call_name, dotted, norm
from ..linters import Linters
from ..util import body_without_doc, func_paths, is_call_named

ORCH = "src.orchestrator.core"
MUTATORS = {"append", "extend", "add", "update", "setdefault", "insert", "remove", "discard", "pop", "popitem", "appendleft"}
MUTATOR_PREFIXES = ("add_", "parse_file", "store", "save", "insert", "register", "record")
RESETTERS = {"clear", "close", "reset"}
# filesystem-mutating APIs (resolved callee names from the call graph) -> what they do
WRITE_APIS = {
    "pathlib.Path.write_text", "pathlib.Path.write_bytes", "pathlib.Path.unlink", "pathlib.Path.mkdir", "pathlib.Path.rmdir",
    "pathlib.Path.rename", "pathlib.Path.replace", "pathlib.Path.touch", "pathlib.Path.symlink_to", "pathlib.Path.hardlink_to", "pathlib.Path.chmod",
    "os.remove", "os.unlink", "os.mkdir", "os.makedirs", "os.rmdir", "os.rename", "os.replace", "os.removedirs", "os.truncate", "os.symlink", "os.link",
    "shutil.rmtree", "shutil.copy", "shutil.copy2", "shutil.copyfile", "shutil.move", "shutil.copytree",
    "tempfile.NamedTemporaryFile", "tempfile.mkstemp", "tempfile.mkdtemp", "tempfile.TemporaryDirectory", "tempfile.TemporaryFile",
}
WRITE_ALLOW = {
    "src.linters.dry.cache.DRYCache.__init__": "storage_mode=tempfile: NamedTemporaryFile(delete=True) in the system temp dir, outside the project",
    "src.linters.stringly_typed.storage.StringlyTypedStorage.__init__": "storage_mode=tempfile: NamedTemporaryFile(delete=True) in the system temp dir, outside the project",
}
# attributes that may survive finalize: pure caches of input- and config-independent data (one reason each)
STATE_EXEMPT: dict[tuple[str, str], str] = {
    ("StringlyTypedRule", "_helpers.python_analyzer.config"): "re-assigned from the current file's config immediately before each use (read at stringly_typed/linter.py _analyze_python_file)",
    ("StringlyTypedRule", "_helpers.typescript_analyzer.config"): "re-assigned from the current file's config immediately before each use (_analyze_typescript_file)",
}
# callers of lint_file that need no finalize: a fresh orchestrator per call whose result is filtered to one per-file rule
PER_FILE_CONVENIENCE = {
    "src.linters.nesting._execute_nesting_lint": "nesting",
    "src.linters.srp._execute_srp_lint": "srp",
    "src.linters.performance._execute_performance_lint": "performance",
    "src.linters.collection_pipeline._execute_pipeline_lint": "collection-pipeline",
}


def check(run, ctx):
    repo, cg = ctx.repo, ctx.cg
    L = Linters(ctx)
    S1 = run.rule("S1", "typestate: attributes written under check() are reset on every non-early path of finalize()", floor=6,
                  decides="a used Linter/Orchestrator returns on its next call exactly what a fresh object would")
    stateful = [r for r in L.rules if r.finalize is not None]
    run.require(len(stateful) >= 2, "expected at least two rules overriding finalize()")
    for r in stateful:
        W = _written_attrs(repo, r, [r.check] + list(r.lang_entries.values()))
        Z, early_ok = _reset_attrs(repo, r)
        run.require(bool(W), f"{r.short}: no state written under check() - extraction broke")
        for a, where in sorted(W.items()):
            covered = a in Z or a.split(".")[0] in Z or ".".join(a.split(".")[:2]) in Z
            if covered:
                run.ok(S1, f"{r.short}.{a}", f"written at {where}; reset in finalize()")
            elif (r.short, a) in STATE_EXEMPT:
                run.ok(S1, f"{r.short}.{a}", f"exempt: {STATE_EXEMPT[(r.short, a)]}", nontrivial=False)
            else:
                run.finding(S1, f"{r.short}.{a}", "not-reset", f"{r.short}.{a} is written while files are checked ({where}) but finalize() does not reset it: a second lint call on the same object starts from the first call's state", r.finalize.loc)

    S2 = run.rule("S2", "every caller of Orchestrator.lint_file pairs it with finalize() on the same orchestrator; finalize runs after the file loop over registry.list_all() and its result is kept", floor=5,
                  decides="cross-file rules report the same for every entry point, and nothing seen earlier is reported again")
    lf = f"{ORCH}.Orchestrator.lint_file"
    callers = sorted({s["caller"] for s in cg.sites_calling(lf, ("call",))} | {s["caller"] for s in cg.sites if s["kind"] == "call" and s["name"] == "lint_file" and not s["resolved"]})
    run.require(len(callers) >= 3, f"only {len(callers)} callers of lint_file found")
    for cq in callers:
        f = repo.funcs.get(cq)
        if f is None:
            continue
        if cq.startswith(f"{ORCH}.Orchestrator."):
            v = _finalize_after_loop(f)
            if v is not True and f.name.startswith("_") and "no finalize()" in str(v):
                # a private helper that only runs the per-file loop: every method calling it must finalize after the call
                users = sorted({s_["caller"] for s_ in cg.sites_calling(cq, ("call",))})
                vs = {u: _finalize_after_loop(repo.funcs[u], loop_calls=(f.name,)) for u in users if u in repo.funcs}
                v = True if vs and all(x is True for x in vs.values()) else (f"{f.name} runs the per-file loop; " + "; ".join(f"{u.rsplit('.', 1)[-1]}: {x}" for u, x in vs.items() if x is not True) if vs else v)
            if v is True:
                run.ok(S2, cq.replace("src.", "", 1), "for f in files: lint_file(f); then for rule in registry.list_all(): violations.extend(rule.finalize())")
            else:
                run.finding(S2, cq.replace("src.", "", 1), "finalize-shape", f"{f.name}: {v}", f.loc)
        elif cq in PER_FILE_CONVENIENCE:
            m = f.module
            filt = any(isinstance(n, ast.Compare) and isinstance(n.left, ast.Constant) and isinstance(n.left.value, str) and PER_FILE_CONVENIENCE[cq] in n.left.value and "rule_id" in ast.unparse(n) for n in ast.walk(m.tree))
            fresh = any(isinstance(n, ast.Call) and call_name(n) == "Orchestrator" for n in ast.walk(m.tree))
            if filt and fresh:
                run.ok(S2, cq.replace("src.", "", 1), f"exempt: fresh Orchestrator per call, result filtered to the per-file rule {PER_FILE_CONVENIENCE[cq]!r}", nontrivial=False)
            else:
                run.finding(S2, cq.replace("src.", "", 1), "convenience-api-changed", f"{cq} no longer builds a fresh orchestrator and filters to its per-file rule", f.loc)
        else:
            pr = cg.reach([cq])
            fin = any(q.endswith(".finalize") and q.startswith("src.") for q in pr) or f"{ORCH}.Orchestrator._finalize_rules" in pr
            # reaching finalize only through lint_files/lint_directory of the *same* orchestrator counts
            direct_fin = any(s["kind"] == "call" and s["name"] in ("finalize", "_finalize_rules", "lint_files", "lint_directory") for s in cg.out.get(cq, ()))
            if direct_fin and not _has_unpaired_lint_file(f):
                run.ok(S2, cq.replace("src.", "", 1), "finalize reached on the same orchestrator")
            else:
                run.finding(S2, cq.replace("src.", "", 1), "lint_file-without-finalize", f"{cq} calls orchestrator.lint_file() and returns without finalize() on that orchestrator: cross-file rules (dry, stringly-typed) keep what they collected and report nothing for this call", f.loc)
    fr = repo.func(f"{ORCH}.Orchestrator._finalize_rules")
    v = _finalize_loop_only(fr)
    (run.ok(S2, "orchestrator.core.Orchestrator._finalize_rules", "finalize over registry.list_all(), results kept") if v is True else run.finding(S2, "Orchestrator._finalize_rules", "finalize-shape", str(v), fr.loc))

    S3 = run.rule("S3", "builtin hash() values are used for equality only: never interpolated, ordered by, sorted on or put in a Violation", floor=3,
                  decides="results do not depend on PYTHONHASHSEED")
    n_hash = 0
    for m in repo.modules_in("src.linters"):
        names = set()
        for n in ast.walk(m.tree):
            if isinstance(n, ast.Assign) and any(isinstance(x, ast.Call) and isinstance(x.func, ast.Name) and x.func.id == "hash" for x in ast.walk(n.value)):
                names |= {t.id for t in n.targets if isinstance(t, ast.Name)}
        if not names:
            continue
        names |= {"hash_value", "hash_val"}
        for fn in [f for f in repo.funcs.values() if f.module is m and f.parent is None]:
            has = any(isinstance(n, ast.Call) and isinstance(n.func, ast.Name) and n.func.id == "hash" for n in ast.walk(fn.node))
            if not has:
                continue
            n_hash += 1
            bad = None
            for n in ast.walk(fn.node):
                if isinstance(n, ast.JoinedStr) and any(isinstance(x, ast.Name) and x.id in names for x in ast.walk(n)):
                    bad = f"interpolated: {norm(n)}"
                if isinstance(n, ast.Compare) and any(isinstance(op, (ast.Lt, ast.Gt, ast.LtE, ast.GtE)) for op in n.ops) and any(isinstance(x, ast.Name) and x.id in names for x in ast.walk(n)):
                    bad = f"ordered comparison: {norm(n)}"
                if isinstance(n, ast.Call) and call_name(n) in ("sorted", "sort", "min", "max") and any(isinstance(x, ast.Name) and x.id in names for x in ast.walk(n)):
                    bad = f"sorted on: {norm(n)}"
                if isinstance(n, ast.BinOp) and isinstance(n.op, (ast.BitAnd, ast.Mod, ast.RShift, ast.FloorDiv, ast.BitXor)) and any((isinstance(x, ast.Call) and isinstance(x.func, ast.Name) and x.func.id == "hash") or (isinstance(x, ast.Name) and x.id in names) for x in (n.left, n.right)):
                    bad = f"narrowed: {norm(n)} (blocks are grouped by this value alone, never by comparing their text: with fewer bits distinct windows collide, and which ones depends on PYTHONHASHSEED)"
            if bad:
                run.finding(S3, fn.qual.replace("src.linters.", ""), "hash-observable", f"a seed-dependent hash() value is {bad}", fn.loc)
            else:
                run.ok(S3, fn.qual.replace("src.linters.", ""), "hash value only stored/compared for equality")
    run.require(n_hash >= 3, f"only {n_hash} hash() sites found")
    for m in repo.modules_in("src.linters"):
        for n in ast.walk(m.tree):
            if isinstance(n, ast.Constant) and isinstance(n.value, str) and "ORDER BY" in n.value.upper():
                ob = n.value.upper().split("ORDER BY", 1)[1]
                if "HASH" in ob:
                    run.finding(S3, m.name.replace("src.linters.", ""), f"order-by-hash:{' '.join(ob.split())[:40]}", "rows are ordered by a seed-dependent hash column", f"{m.rel}:{n.lineno}")
                else:
                    run.ok(S3, f"{m.name.replace('src.linters.', '')}:ORDER BY{' '.join(ob.split())[:30]}", "no hash column in ORDER BY", nontrivial=False)

    S4 = run.rule("S4", "no filesystem-mutating API is reachable from lint entry points or rules (allowlist with reasons); positive control: config tooling writers are detected by the same matcher", floor=3,
                  decides="a lint run creates, modifies and deletes nothing under the project")
    roots = [f"{ORCH}.Orchestrator.{m}" for m in ("lint_file", "lint_files", "lint_directory", "lint_files_parallel", "lint_directory_parallel", "_finalize_rules")] + ["src.api.Linter.lint", f"{ORCH}._lint_file_worker"]
    for r in L.rules:
        roots += L.rule_roots(r, with_init=True)
    pr = cg.reach(roots)
    writes_in = lambda fq: _write_sites(repo, cg, L, fq)
    n_reach_write = 0
    for fq in sorted(pr):
        if not fq.startswith("src."):
            continue
        for desc, loc in writes_in(fq):
            n_reach_write += 1
            if fq in WRITE_ALLOW:
                # the allowance holds only for a self-deleting temporary file
                f_ = repo.funcs[fq]
                tmp_calls = [n for n in ast.walk(f_.node) if isinstance(n, ast.Call) and call_name(n) == "NamedTemporaryFile"]
                self_deleting = all(any(k.arg == "delete" and isinstance(k.value, ast.Constant) and k.value.value is True for k in n.keywords) or not any(k.arg == "delete" for k in n.keywords) for n in tmp_calls)
                if "NamedTemporaryFile" in desc and not self_deleting:
                    run.finding(S4, fq.replace("src.", "", 1), "tempfile-not-self-deleting", f"{fq} creates its temporary database with delete=False: nothing on the lint path removes it (the rule's storage is never closed), so every run leaves a temp file behind", loc)
                else:
                    run.ok(S4, f"{fq.replace('src.', '', 1)}:{desc}", f"allowed: {WRITE_ALLOW[fq]}", nontrivial=False)
            else:
                run.finding(S4, fq.replace("src.", "", 1), f"writes:{desc}", f"{fq} ({desc}) is reachable from a lint entry point: a lint run may create/modify/delete files", loc, path=cg.path_to(pr, fq))
    ctrl = 0
    for fq in repo.funcs:
        if fq.startswith("src.config.") or fq.startswith("src.cli.config"):
            ctrl += len(writes_in(fq))
    (run.ok(S4, "positive control", f"{ctrl} write sites recognised in the config tooling") if ctrl >= 2 else run.finding(S4, "positive-control", "matcher-blind", "the write-API matcher no longer recognises the config tooling's file writes (rule unarmed)", "src/config.py"))
    clear = _write_sites(repo, cg, L, "src.cli.linters.code_smells._clear_dry_cache")
    (run.ok(S4, "cli _clear_dry_cache", "unlink only behind the explicit --clear-cache request", nontrivial=False) if clear else run.ok(S4, "cli _clear_dry_cache", "no write site", nontrivial=False))
    run.ok(S4, "reachability", f"{len([q for q in pr if q.startswith('src.')])} functions reachable from {len(roots)} lint roots inspected; {n_reach_write} write sites")

    S11 = run.rule("S11", "the iteration order of a set of strings never becomes observable: no list(set(x)) / tuple(set(x)) / join(set(x)) / slicing or indexing of such a list without sorted()", floor=1,
                   decides="messages and their ordering do not depend on PYTHONHASHSEED")
    n_s11 = 0
    for f_ in sorted(repo.funcs.values(), key=lambda x: x.qual):
        if not f_.module.name.startswith("src.") or f_.parent is not None:
            continue
        for n in ast.walk(f_.node):
            if isinstance(n, ast.Call) and (call_name(n) in ("list", "tuple", "join", "enumerate", "iter", "next")) and n.args:
                a0 = n.args[0]
                is_set = (isinstance(a0, ast.Call) and call_name(a0) in ("set", "frozenset") and isinstance(a0.func, ast.Name)) or isinstance(a0, (ast.Set, ast.SetComp))
                if not is_set:
                    continue
                # harmless when the order is discarded again at once: sorted(list(set(x))), len(...), set(...), min/max/sum/any/all
                par_ = next((p_ for p_ in ast.walk(f_.node) if isinstance(p_, ast.Call) and any(a_ is n for a_ in p_.args)), None)
                if par_ is not None and call_name(par_) in ("sorted", "len", "set", "frozenset", "min", "max", "sum", "any", "all", "Counter"):
                    continue
                n_s11 += 1
                run.finding(S11, f_.qual.replace("src.", "", 1), f"set-order:{norm(n)[:60]}", f"{f_.qual}: `{norm(n)[:80]}` fixes the arbitrary iteration order of a set (for strings it follows PYTHONHASHSEED): which elements are kept or how they are ordered in the output changes from run to run - wrap it in sorted()", f"{f_.module.rel}:{n.lineno}")
    run.ok(S11, "src", f"{n_s11} unordered set materialisations found")

    S9 = run.rule("S9", "no SQL statement of the two stores creates a file beside the self-deleting temporary database (journal_mode WAL/PERSIST, ATTACH, VACUUM INTO)", floor=2,
                  decides="storage_mode=tempfile leaves nothing in the temp directory: NamedTemporaryFile(delete=True) removes the database file only")
    import re as _re
    SIDE_FILE_SQL = [(r"PRAGMA\s+(\w+\.)?journal_mode\s*=\s*['\"]?(WAL|PERSIST)", "journal_mode=WAL/PERSIST keeps <db>-wal/-shm or <db>-journal next to the database"),
                     (r"\bATTACH\b", "ATTACH opens another database file"), (r"VACUUM\s+INTO", "VACUUM INTO writes a new database file")]
    for fq in sorted(WRITE_ALLOW):
        f_ = repo.func(fq)
        mod = f_.module
        sqls = []
        for g in repo.funcs.values():
            if g.module is not mod:
                continue
            for n in ast.walk(g.node):
                if isinstance(n, ast.Call) and call_name(n) in ("execute", "executescript", "executemany") and n.args:
                    v = repo.fold(mod, n.args[0])
                    if isinstance(v, str):
                        sqls.append((v, g, n))
                    else:
                        for c in ast.walk(n.args[0]):
                            if isinstance(c, ast.Constant) and isinstance(c.value, str):
                                sqls.append((c.value, g, n))
        run.require(len(sqls) >= 5, f"{mod.name}: only {len(sqls)} SQL statements found")
        bad = [(v, g, n, why) for v, g, n in sqls for pat, why in SIDE_FILE_SQL if _re.search(pat, v, _re.I)]
        if bad:
            v, g, n, why = bad[0]
            run.finding(S9, g.qual.replace("src.", "", 1), f"side-file-sql:{' '.join(v.split())[:60]}", f"{g.qual} executes `{' '.join(v.split())[:80]}`: {why}; the connection is never closed on the lint path and the temporary file object deletes the main file only, so every tempfile-mode run leaves files behind", f"{mod.rel}:{n.lineno}")
        else:
            run.ok(S9, mod.name.replace("src.", "", 1), f"{len(sqls)} SQL statements, none creates a side file")

    S6 = run.rule("S6", "long-lived helper objects (built in a rule's constructor) re-bind every attribute they accumulate into at the start of each externally called entry method", floor=40,
                  decides="what one file (or one lint call) left in an analyzer/cache cannot leak into the verdict for the next file or call")
    ll_classes = _s6(run, ctx, L, S6)

    S10 = run.rule("S10", "a memo on a long-lived object (`if <test on self.X>: self.X = v`) whose value is derived from file content is validated against the content, not only a path/identity key", floor=3,
                   decides="a file edited between two calls on one Linter is judged by its new text (directive lines, line lists and parse results are not served from the previous version)")
    CONTENT = ("file_content", "read_text", "file_lines", "splitlines")
    def mentions_content(e, tainted):
        return any((isinstance(x, ast.Attribute) and x.attr in CONTENT) or (isinstance(x, ast.Name) and (x.id in tainted or x.id in ("content", "source", "source_code", "file_content"))) for x in ast.walk(e))
    for cq in sorted(ll_classes):
        for bq in repo.mro(cq):
            bc = repo.classes.get(bq)
            if bc is None or not bq.startswith("src."):
                continue
            for m in sorted(bc.methods.values(), key=lambda x: x.qual):
                if m.name == "__init__":
                    continue
                tainted = set()
                for n in sorted((x for x in ast.walk(m.node) if isinstance(x, ast.Assign)), key=lambda x: x.lineno):
                    if mentions_content(n.value, tainted):
                        tainted |= {t.id for t in n.targets if isinstance(t, ast.Name)}
                for n in ast.walk(m.node):
                    if not isinstance(n, ast.If):
                        continue
                    tested = {x.attr for x in ast.walk(n.test) if isinstance(x, ast.Attribute) and isinstance(x.value, ast.Name) and x.value.id == "self"}
                    for st in ast.walk(n):
                        if not isinstance(st, (ast.Assign, ast.AnnAssign)) or st.value is None:
                            continue
                        for t in (st.targets if isinstance(st, ast.Assign) else [st.target]):
                            b = t
                            while isinstance(b, ast.Subscript):
                                b = b.value
                            if not (isinstance(b, ast.Attribute) and isinstance(b.value, ast.Name) and b.value.id == "self" and b.attr in tested):
                                continue
                            sym = f"{cq.replace('src.', '', 1)}.{m.name}:{b.attr}"
                            if any(i["symbol"] == sym and i["rule"] == "S10" for i in run.instances):
                                continue
                            if mentions_content(st.value, tainted) and not mentions_content(n.test, tainted):
                                run.finding(S10, sym, f"content-memo:{norm(n.test)}", f"{m.qual}: `{norm(st)[:90]}` is kept on an object that outlives the file and reused while `not ({norm(n.test)[:90]})`: that test looks at a key, never at the content, so after the file is edited the previous text is still served", f"{m.module.rel}:{st.lineno}")
                            else:
                                run.ok(S10, sym, f"guarded store `{norm(st)[:60]}`: value is not derived from file content" if not mentions_content(st.value, tainted) else "validated against the content")

    from . import shared

    S7 = run.rule("S7", "no process-lifetime memoisation (functools.lru_cache/cache) on functions whose result depends on file content", floor=1,
                  decides="files edited between two lint calls are judged by their new state")
    recs = shared.cached_content_readers(ctx)
    for r_ in recs:
        if r_["reads"]:
            run.finding(S7, r_["func"], f"cached-reader:{r_['decorator']}", f"{r_['func']} is memoised with @{r_['decorator']} although a file read ({', '.join(r_['reads'][:2])}) is reachable from it: later calls see the content of the first", r_["loc"])
        else:
            run.ok(S7, r_["func"], f"@{r_['decorator']} on a function that reads no file")
    if not recs:
        run.ok(S7, "src", "no functools cache decorators in the package", nontrivial=False)

    S8 = run.rule("S8", "no function stores argument-derived data in module-level state (global re-binding, container mutation, item assignment) except the allowlisted ignore-parser singleton", floor=3,
                  decides="nothing outlives a lint call in module globals: a second call, another project or another file order sees no residue of the first")
    S8_ALLOWED = {
        ("src.linter_config.ignore", "_CACHED_PARSER"): "the documented process-wide parser singleton, re-created when the project root changes (its own accumulating attributes are decided by S6)",
        ("src.linter_config.ignore", "_CACHED_PROJECT_ROOT"): "key of the singleton above",
    }
    n_glob, muts = shared.module_state_mutations(ctx)
    run.require(n_glob >= 100, f"only {n_glob} module-level names found in src (expected >= 100): the module scan is broken")
    seen_allowed = set()
    for mu in muts:
        key = (mu["module"].name, mu["name"])
        if key in S8_ALLOWED:
            if key not in seen_allowed:
                seen_allowed.add(key)
                run.ok(S8, f"{key[0].replace('src.', '', 1)}.{key[1]}", "allowlisted: " + S8_ALLOWED[key])
            continue
        if not mu.get("data"):
            run.ok(S8, f"{key[0].replace('src.', '', 1)}.{mu['func']}:{key[1]}", f"{mu['how']}: the stored value does not depend on any argument (a lazily built constant), so it cannot carry one call's data into the next")
            continue
        run.finding(S8, f"{key[0].replace('src.', '', 1)}.{mu['func']}:{key[1]}", f"module-state:{mu['how']}", f"{key[0]}.{mu['func']} changes the module-level name {key[1]} ({mu['how']}): it lives as long as the process, so what one file, project or lint call leaves there decides the verdict for the next", f"{mu['module'].rel}:{mu['line']}")
    run.ok(S8, "src modules", f"{n_glob} module-level names examined, {len(muts)} run-time mutations, {len(muts) - sum(1 for mu in muts if (mu['module'].name, mu['name']) in S8_ALLOWED)} outside the allowlist")

    S12 = run.rule("S12", "configuration builders (from_dict) and rule-level config loaders do not write into the configuration mapping they are given: the orchestrator hands the same section object to every file of every call", floor=14,
                   decides="what one file's language (or one lint call) makes of the configuration is not left behind in the shared mapping for the next file")
    for f in sorted(repo.funcs.values(), key=lambda x: x.qual):
        if f.parent is not None or not f.module.name.startswith("src.linters.") or f.name != "from_dict":
            continue
        ps = [a.arg for a in f.node.args.args if a.arg not in ("self", "cls")]
        if not ps:
            continue
        mut = shared.param_mutations(f, ps[0])
        sym = f.qual.replace("src.linters.", "")
        if mut:
            run.finding(S12, sym, f"config-mutated:{norm(mut[0])[:50]}", f"{f.qual} changes the mapping it is given (`{norm(mut[0])[:80]}`): that mapping is the section of the orchestrator's configuration, shared by every file and every later lint call on the object, so the result for a file depends on which files were linted before it", f"{f.module.rel}:{mut[0].lineno}")
        else:
            run.ok(S12, sym, f"reads `{ps[0]}` only")

    S5 = run.rule("S5", "constant non-section metadata keys read by rules are written by Orchestrator.lint_file", floor=2)
    lf_f = repo.func(lf)
    written = set()
    for n in inline.flat_nodes(repo, lf_f):   # the metadata dict may be built by a private helper
        if isinstance(n, ast.Dict):
            written |= {k.value for k in n.keys if isinstance(k, ast.Constant) and isinstance(k.value, str)}
    if "_project_root" in written:
        run.ok(S5, "Orchestrator.lint_file", "writes metadata['_project_root']")
    else:
        run.finding(S5, "Orchestrator.lint_file", "root-key-not-written", f"lint_file writes {sorted(written)} but not '_project_root', the key rules read the project root from", lf_f.loc)
    sections = set()
    for r in L.rules:
        for k in CF.section_key_reads(L, r):
            sections.add(k.key)
    seen = set()
    for r in L.rules:
        for k in CF.section_key_reads(L, r):
            if k.source != "metadata" or "root" not in k.key:
                continue
            if (r.short, k.key) in seen:
                continue
            seen.add((r.short, k.key))
            same_func = {k2.key for k2 in CF.section_key_reads(L, r) if k2.func == k.func and "root" in k2.key}
            if k.key in written:
                run.ok(S5, f"{r.short}[{k.key}]", "written by the orchestrator")
            elif same_func & written:
                run.ok(S5, f"{r.short}[{k.key}]", f"legacy fallback next to {sorted(same_func & written)} in the same lookup", nontrivial=False)
            else:
                run.finding(S5, f"{r.short}[{k.key}]", "key-never-written", f"{k.func} reads metadata[{k.key!r}] but the orchestrator writes {sorted(written)}: the value is never there and the rule falls back to guessing from the file path", k.loc)
    run.extra["call_resolution"] = f"{cg.n_resolved}/{cg.n_calls}"
    return __doc__


# --------------------------------------------------------------------------- S6
S6_ACC_MUT = {"append", "extend", "add", "update", "setdefault", "insert", "remove", "discard", "pop", "popitem", "appendleft"}
S6_EXEMPT = {
    ("src.linter_config.ignore.IgnoreDirectiveParser", "_ignore_cache"): "memo of is_ignored(path) against patterns that are fixed for the parser's lifetime (staleness across edits of .thailintignore is listed, not decided)",
    ("src.core.registry.RuleRegistry", "_rules"): "registration API: rule id -> rule object, filled by the one-time discovery; holds no per-file data",
    ("src.linters.dry.block_filter.BlockFilterRegistry", "_filters"): "registration API, filled once when the registry is built",
    ("src.linters.dry.block_filter.BlockFilterRegistry", "_enabled_filters"): "configuration API (enable/disable), not per-file state",
}


S6_PURE = {"re.compile"}


def _pure_memo_cg(cg, module: str, target: ast.Subscript, value: ast.expr) -> bool:
    """self.memo[k] = f(k, <constants>) where nothing reachable from f reads a file: a function of the key alone."""
    if _pure_memo(target, value):
        return True
    if not (isinstance(value, ast.Call) and isinstance(target.slice, ast.Name)):
        return False
    names = {x.id for a in list(value.args) + [k.value for k in value.keywords] for x in ast.walk(a) if isinstance(x, ast.Name)}
    if not names or not names <= {target.slice.id}:
        return False
    if isinstance(value.func, ast.Attribute) and isinstance(value.func.value, ast.Name) and value.func.value.id == "self":
        return False  # a method of the object itself may read its other state
    st = cg.site_of(module, value)
    if st is None or not st.get("resolved") or not st["callees"]:
        return False
    READS = {"pathlib.Path.read_text", "pathlib.Path.read_bytes", "builtins.open", "pathlib.Path.open", "pathlib.Path.stat", "pathlib.Path.exists", "io.open", "os.stat", "os.listdir", "os.walk"}
    reach = cg.reach(list(st["callees"]))
    return not any((q[4:] if q.startswith("new:") else q) in READS for q in reach)


def _pure_memo_via_local(cg, m, target: ast.Subscript, value: ast.expr) -> bool:
    """self.memo[k] = v where every assignment of the local v in the method is either a read of the same memo
    (v = self.memo.get(k) / self.memo[k]) or a pure function of the key (v = re.compile(k, ...))."""
    if not isinstance(value, ast.Name):
        return False
    memo_attr = target.value.attr if isinstance(target.value, ast.Attribute) else None
    defs = [a.value for a in ast.walk(m.node) if isinstance(a, ast.Assign) and any(isinstance(t_, ast.Name) and t_.id == value.id for t_ in a.targets)]
    if not defs:
        return False
    pure = 0
    for d in defs:
        reads_memo = any(isinstance(x, ast.Attribute) and x.attr == memo_attr and isinstance(x.value, ast.Name) and x.value.id == "self" for x in ast.walk(d))
        if reads_memo:
            continue
        if _pure_memo_cg(cg, m.module.name, target, d):
            pure += 1
            continue
        return False
    return pure >= 1


def _pure_memo(target: ast.Subscript, value: ast.expr) -> bool:
    """self.memo[k] = re.compile(k, <constants>): the stored value is a function of its key alone, so it can never be stale."""
    if not (isinstance(value, ast.Call) and dotted(value.func) in S6_PURE and isinstance(target.slice, ast.Name) and value.args):
        return False
    if not (isinstance(value.args[0], ast.Name) and value.args[0].id == target.slice.id):
        return False
    rest = list(value.args[1:]) + [k.value for k in value.keywords]
    return not any(isinstance(x, ast.Name) for r in rest for x in ast.walk(r) if not (isinstance(x, ast.Name) and x.id in ("re",)))


def _finalize_reach(cg, L):
    cache = getattr(cg, "_fin_reach", None)
    if cache is None:
        roots = [r.finalize.qual for r in L.rules if r.finalize is not None]
        cache = cg._fin_reach = set(cg.reach(roots))
    return cache


def _s6(run, ctx, L, S6):
    repo, cg = ctx.repo, ctx.cg
    rule_quals = {r.qual for r in L.rules}
    longlived = set()
    for r in L.rules:
        init = repo.find_method(r.qual, "__init__")
        if init is None:
            continue
        for q in cg.reach([init.qual]):
            if q.startswith("new:src."):
                longlived.add(q[4:])
    longlived.add("src.linter_config.ignore.IgnoreDirectiveParser")
    # the objects a run is driven by, and everything any long-lived object stores on itself (also lazily, outside __init__)
    longlived |= {"src.orchestrator.core.Orchestrator", "src.api.Linter"}
    todo_ll = sorted(longlived | rule_quals)
    done_ll = set()
    while todo_ll:
        cq = todo_ll.pop()
        if cq in done_ll:
            continue
        done_ll.add(cq)
        for bq in repo.mro(cq):
            bc = repo.classes.get(bq)
            if bc is None or not bq.startswith("src."):
                continue
            for m in bc.methods.values():
                made: dict[str, set[str]] = {}
                for n in sorted((x for x in ast.walk(m.node) if isinstance(x, (ast.Assign, ast.AnnAssign)) and x.value is not None), key=lambda x: (x.lineno, x.col_offset)):
                    news = set()
                    for x in ast.walk(n.value):
                        if isinstance(x, ast.Call):
                            st = cg.site_of(m.module.name, x)
                            for c in (st or {}).get("callees", ()):
                                if c.startswith("new:src."):
                                    news.add(c[4:])
                        if isinstance(x, ast.Name) and x.id in made:
                            news |= made[x.id]
                    if not news:
                        continue
                    for t in (n.targets if isinstance(n, ast.Assign) else [n.target]):
                        if isinstance(t, ast.Name):
                            made.setdefault(t.id, set()).update(news)
                        base = t
                        while isinstance(base, ast.Subscript):
                            base = base.value
                        if isinstance(base, ast.Attribute) and isinstance(base.value, ast.Name) and base.value.id == "self":
                            for q in news:
                                if q not in longlived and q not in rule_quals:
                                    longlived.add(q)
                                    todo_ll.append(q)
    n_cls = 0
    for cq in sorted(longlived - rule_quals):
        cl = repo.classes.get(cq)
        if cl is None:
            continue
        entries = []
        for m in cl.methods.values():
            if m.name.startswith("__"):
                continue
            if any(s["kind"] in ("call", "prop") and not s["caller"].startswith(cq + ".") for s in cg.inn.get(m.qual, ())):
                entries.append(m)
        if not entries:
            continue
        n_cls += 1
        for e in entries:
            seen = {}
            todo = [e]
            while todo:
                m = todo.pop()
                if m.qual in seen:
                    continue
                seen[m.qual] = m
                for n in ast.walk(m.node):
                    if isinstance(n, ast.Call) and isinstance(n.func, ast.Attribute) and isinstance(n.func.value, ast.Name) and n.func.value.id == "self":
                        g = repo.find_method(cq, n.func.attr)
                        if g is not None and g.cls is not None and g.cls.qual == cq:
                            todo.append(g)
            acc, reb = {}, set()
            for m in seen.values():
                for n in ast.walk(m.node):
                    if isinstance(n, ast.Call) and isinstance(n.func, ast.Attribute) and n.func.attr in S6_ACC_MUT and isinstance(n.func.value, ast.Attribute) and isinstance(n.func.value.value, ast.Name) and n.func.value.value.id == "self":
                        acc.setdefault(n.func.value.attr, f"{m.name}:{n.lineno} .{n.func.attr}()")
                    if isinstance(n, ast.Assign):
                        for t in n.targets:
                            if isinstance(t, ast.Subscript) and isinstance(t.value, ast.Attribute) and isinstance(t.value.value, ast.Name) and t.value.value.id == "self":
                                if _pure_memo_cg(cg, m.module.name, t, n.value) or _pure_memo_via_local(cg, m, t, n.value):
                                    continue
                                acc.setdefault(t.value.attr, f"{m.name}:{n.lineno} [k]=")
                            for t2 in (t.elts if isinstance(t, (ast.Tuple, ast.List)) else [t]):
                                if isinstance(t2, ast.Attribute) and isinstance(t2.value, ast.Name) and t2.value.id == "self":
                                    if not any(isinstance(x, ast.Attribute) and x.attr == t2.attr and isinstance(x.value, ast.Name) and x.value.id == "self" for x in ast.walk(n.value)):
                                        reb.add(t2.attr)
                                    else:
                                        # self.a = f(self.a, ...): the new value depends on the old one - state carried from call to call
                                        acc.setdefault(t2.attr, f"{m.name}:{n.lineno} self-dependent update")
                    if isinstance(n, ast.AugAssign) and isinstance(n.target, ast.Attribute) and isinstance(n.target.value, ast.Name) and n.target.value.id == "self":
                        acc.setdefault(n.target.attr, f"{m.name}:{n.lineno} augmented assignment")
            sym = f"{cq.replace('src.', '', 1)}.{e.name}"
            # an attribute that accumulates over the files of one run by design is fine when the class offers a method that
            # empties it and a rule's finalize() reaches that method (whatever attribute and method are called)
            fin_reach = _finalize_reach(cg, L)
            def emptied_by_finalize(attr):
                for mm in cl.methods.values():
                    resets = any((isinstance(n_, ast.Assign) and any(isinstance(t_, ast.Attribute) and t_.attr == attr and isinstance(t_.value, ast.Name) and t_.value.id == "self" for t_ in n_.targets))
                                 or (isinstance(n_, ast.Call) and isinstance(n_.func, ast.Attribute) and n_.func.attr == "clear" and isinstance(n_.func.value, ast.Attribute) and n_.func.value.attr == attr)
                                 for n_ in ast.walk(mm.node))
                    if resets and mm.name != "__init__" and mm.qual in fin_reach:
                        return mm.name
                return None
            by_fin = {a: emptied_by_finalize(a) for a in acc if a not in reb}
            def _exempt(a, w):
                # by name, or by role: the verdict memo of IgnoreDirectiveParser.is_ignored (an item assignment inside
                # is_ignored itself), whatever the attribute is called
                return (cq, a) in S6_EXEMPT or (cq == "src.linter_config.ignore.IgnoreDirectiveParser" and w.split(":")[0] == "is_ignored" and w.endswith("[k]="))
            bad = {a: w for a, w in acc.items() if a not in reb and not _exempt(a, w) and not by_fin.get(a)}
            exempt = [a for a, w in acc.items() if _exempt(a, w) and a not in reb]
            if bad:
                for a, w in sorted(bad.items()):
                    run.finding(S6, f"{sym}:{a}", "accumulates-without-reset", f"{cq}.{a} is accumulated into ({w}) when {e.name}() is called but never re-bound on that entry: the helper object lives as long as the rule, so data from an earlier file or an earlier lint call leaks into later verdicts", e.loc)
            elif acc:
                run.ok(S6, sym, f"accumulated attributes {sorted(acc)} are re-bound on entry" + (f" (exempt: {exempt})" if exempt else ""))
            else:
                run.ok(S6, sym, "no accumulating instance state", nontrivial=False)
    run.extra["long_lived_helper_classes"] = n_cls
    return longlived | rule_quals


# --------------------------------------------------------------------------- S1 helpers
def _class_methods_reachable(repo, r, starts):
    seen = {}
    todo = list(starts)
    while todo:
        f = todo.pop()
        if f is None or f.qual in seen:
            continue
        seen[f.qual] = f
        for n in ast.walk(f.node):
            if isinstance(n, ast.Call) and isinstance(n.func, ast.Attribute) and isinstance(n.func.value, ast.Name) and n.func.value.id == "self":
                g = repo.find_method(r.qual, n.func.attr)
                if g is not None and g.cls is not None and g.cls.qual == r.qual:
                    todo.append(g)
    return list(seen.values())


def _prop_alias(repo, r, name):
    """self.<property> whose body returns self.<attr> -> attr"""
    m = repo.find_method(r.qual, name)
    if m is not None and m.is_property:
        for n in ast.walk(m.node):
            if isinstance(n, ast.Return) and isinstance(n.value, ast.Attribute) and isinstance(n.value.value, ast.Name) and n.value.value.id == "self":
                return n.value.attr
    return name


def _self_path(repo, r, e):
    """'a' or 'a.b' for self.a / self.a.b (property aliases resolved)"""
    parts = []
    while isinstance(e, ast.Attribute):
        parts.append(e.attr)
        e = e.value
    if isinstance(e, ast.Name) and e.id == "self" and parts:
        parts = list(reversed(parts))
        parts[0] = _prop_alias(repo, r, parts[0])
        return ".".join(parts[:3])
    return None


def _written_attrs(repo, r, starts):
    W = {}
    for f in _class_methods_reachable(repo, r, starts):
        if f.name in ("__init__", "finalize"):
            continue
        for n in ast.walk(f.node):
            tgts = []
            if isinstance(n, ast.Assign):
                tgts = n.targets
            elif isinstance(n, (ast.AugAssign, ast.AnnAssign)):
                tgts = [n.target]
            for t in tgts:
                base = t
                while isinstance(base, ast.Subscript):
                    base = base.value
                p = _self_path(repo, r, base)
                if p:
                    W.setdefault(p, f"{f.name}:{n.lineno}")
            if isinstance(n, ast.Call) and isinstance(n.func, ast.Attribute):
                nm = n.func.attr
                if nm in MUTATORS or nm.startswith(MUTATOR_PREFIXES):
                    p = _self_path(repo, r, n.func.value)
                    if p:
                        W.setdefault(p, f"{f.name}:{n.lineno} .{nm}()")
    return W


def _reset_attrs(repo, r):
    return _must_resets(repo, r, r.finalize, 3, (r.finalize.qual,), top=True)


def _must_resets(repo, r, f, depth, stack, top=False):
    """Attributes re-bound / cleared on every (non-early-empty-return) path of f, following calls to the rule's own
    methods (`self._reset_state()`): what such a helper resets on all of its paths counts for the calling path."""
    paths = func_paths(f)
    if paths is None:
        return set(), False
    common = None
    for p in paths:
        t = p[-1]
        if top and t[0] == "return" and isinstance(t[1].value, (ast.List, ast.Tuple)) and not t[1].value.elts:
            continue  # early empty return
        Z = set()
        for ev in p:
            for root in cfg.event_nodes(ev):
                for n in ast.walk(root):
                    if isinstance(n, ast.Assign):
                        for tg in n.targets:
                            q = _self_path(repo, r, tg)
                            if q:
                                Z.add(q)
                    if isinstance(n, ast.Call) and isinstance(n.func, ast.Attribute) and n.func.attr in RESETTERS:
                        q = _self_path(repo, r, n.func.value)
                        if q:
                            Z.add(q)
                    if depth > 0 and isinstance(n, ast.Call) and isinstance(n.func, ast.Attribute) and isinstance(n.func.value, ast.Name) and n.func.value.id == "self":
                        g = repo.find_method(r.qual, n.func.attr)
                        if g is not None and g.qual not in stack:
                            sub, _ok = _must_resets(repo, r, g, depth - 1, stack + (g.qual,))
                            Z |= sub
        common = Z if common is None else (common & Z)
    return common or set(), True


# --------------------------------------------------------------------------- S2 helpers
def _finalize_after_loop(f, loop_calls=()):
    body = body_without_doc(f)
    loop_i = fin_i = None
    for i, st in enumerate(body):
        if loop_calls and not isinstance(st, (ast.For, ast.While)) and any(is_call_named(n, *loop_calls) for n in ast.walk(st)) and loop_i is None:
            loop_i = i   # the per-file loop lives in a private helper called here
            continue
        if isinstance(st, ast.For) and any(is_call_named(n, "lint_file") for n in ast.walk(st)):
            loop_i = i
            if any(is_call_named(n, "finalize") for n in ast.walk(st)):
                return "finalize() is called inside the per-file loop"
        if isinstance(st, ast.For) and any(is_call_named(n, "finalize") for n in ast.walk(st)) and loop_i is not None and i > loop_i:
            fin_i = i
            if not ast.unparse(st.iter).endswith("registry.list_all()"):
                return f"finalize loop iterates {ast.unparse(st.iter)}, not registry.list_all()"
            if not any(is_call_named(n, "extend") and any(is_call_named(a, "finalize") for a in n.args) for n in ast.walk(st)):
                return "finalize() results are not added to the violations"
        if isinstance(st, (ast.Return, ast.Expr, ast.Assign)) and any(is_call_named(n, "_finalize_rules") for n in ast.walk(st)) and loop_i is not None:
            fin_i = i
    if loop_i is None:
        return "no per-file loop calling lint_file"
    if fin_i is None:
        return "no finalize() over the registry after the per-file loop"
    return True


def _finalize_loop_only(f):
    for st in body_without_doc(f):
        if isinstance(st, ast.For) and any(is_call_named(n, "finalize") for n in ast.walk(st)):
            if not ast.unparse(st.iter).endswith("registry.list_all()"):
                return f"iterates {ast.unparse(st.iter)}"
            if not any(is_call_named(n, "extend") and any(is_call_named(a, "finalize") for a in n.args) for n in ast.walk(st)):
                return "finalize() results dropped"
            return True
    return "no loop calling finalize()"


def _has_unpaired_lint_file(f):
    """a path that calls lint_file and returns without any finalize-bearing call"""
    paths = func_paths(f)
    if paths is None:
        return False
    for p in paths:
        i = cfg.first_index(p, lambda n: is_call_named(n, "lint_file"))
        if i is None:
            continue
        j = cfg.first_index(p, lambda n: is_call_named(n, "finalize", "_finalize_rules", "lint_files", "lint_directory"))
        if j is None:
            return True
    return False


# --------------------------------------------------------------------------- S4 helpers
def _write_sites(repo, cg, L, fq):
    out = []
    f = repo.funcs.get(fq)
    for s in cg.out.get(fq, ()):
        if s["kind"] != "call":
            continue
        for c in s["callees"]:
            c0 = c[4:] if c.startswith("new:") else c
            if c0 in WRITE_APIS:
                out.append((c0, f"{s['module'].replace('.', '/')}.py:{s['span'][0]}"))
                break
            if c0 in ("builtins.open", "pathlib.Path.open", "io.open", "sqlite3.connect", "sqlite3.dbapi2.connect"):
                call = L.idx.call_at(s["module"], s["span"]) if f is not None else None
                if call is None:
                    break
                if c0.endswith("connect"):
                    a = call.args[0] if call.args else None
                    if not (isinstance(a, ast.Constant) and a.value == ":memory:"):
                        out.append((f"sqlite3.connect({norm(a) if a is not None else ''})", f"{s['module'].replace('.', '/')}.py:{s['span'][0]}"))
                else:
                    mode = None
                    pos = 0 if c0 == "pathlib.Path.open" else 1
                    if len(call.args) > pos:
                        mode = call.args[pos]
                    for k in call.keywords:
                        if k.arg == "mode":
                            mode = k.value
                    mv = mode.value if isinstance(mode, ast.Constant) else ("r" if mode is None else "?")
                    if any(ch in str(mv) for ch in "wax+?"):
                        out.append((f"open(mode={mv!r})", f"{s['module'].replace('.', '/')}.py:{s['span'][0]}"))
                break
    return out
