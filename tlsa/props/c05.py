"""C05 - configuration honoured identically in every format and for every linter.

Decides (structure only):
 K1/K2 every documented section name, normalised the way the loader normalises top-level keys ('-' -> '_'),
       is a key the rule reads from context.metadata (the dict the orchestrator fills);
 K3    a test of <config>.enabled dominates every non-empty return of check();
 K4    each documented option is read by the config class's from_dict and its field is read by the linter;
 K6    ValueError from config validation reaches exit 2: _safe_check_rule re-raises it ahead of its generic
       handler, nothing between from_dict and _safe_check_rule swallows it, the parallel worker does not swallow it;
 K7    each CLI threshold option is written at every level from_dict reads it;
 K8    config discovery order agrees between CLI and library; every reader of a user config file normalises keys;
       the top-level ignore list is read from the same carriers as the rest;
 K9    threshold fields are only compared in the direction their name states (max_*: strict exceed; min_*: >=);
 K10   parse failures of a config file (and non-mapping documents) are not turned into defaults;
 K11   rules do not memoise the parsed configuration across files (it depends on the file's language);
 K12   from_dict never uses `get(key) or fallback` (falsy configured values must take effect).
Not decided: the verdict a threshold produces once it reaches the comparison (C01/C16/...).
"""

from __future__ import annotations

import ast

from .. import cfg, docs
from .. import configfacts as CF
from .. import inline
from ..facts import UNKNOWN, call_name, dotted, norm
from ..linters import ABSTRACT_BASES, Linters
from ..util import exc_ancestors, func_paths, handler_names, handlers_covering, is_call_named, is_caught

# rule -> (doc pages, normalised candidate section names).  Names are re-discovered from the docs/template on every
# run; this table only says which names belong to which rule class.
RULE_DOCS = {
    "BlockingAsyncRule": (["docs/blocking-async-linter.md"], {"blocking_async"}),
    "CloneAbuseRule": (["docs/clone-abuse-linter.md"], {"clone_abuse"}),
    "CollectionPipelineRule": (["docs/collection-pipeline-linter.md", "docs/configuration.md"], {"collection_pipeline", "pipeline"}),
    "CQSRule": (["docs/cqs-linter.md"], {"cqs"}),
    "DRYRule": (["docs/dry-linter.md", "docs/configuration.md"], {"dry"}),
    "FileHeaderRule": (["docs/file-header-linter.md"], {"file_header"}),
    "FilePlacementRule": (["docs/configuration.md"], {"file_placement"}),
    "LazyIgnoresRule": (["docs/lazy-ignores-linter.md"], {"lazy_ignores"}),
    "LBYLRule": (["docs/lbyl-linter.md"], {"lbyl"}),
    "MagicNumberRule": (["docs/magic-numbers-linter.md", "docs/configuration.md"], {"magic_numbers"}),
    "MethodPropertyRule": (["docs/method-property-linter.md", "docs/configuration.md"], {"method_property"}),
    "NestingDepthRule": (["docs/nesting-linter.md", "docs/configuration.md"], {"nesting"}),
    "StringConcatLoopRule": (["docs/performance-linter.md"], {"performance"}),
    "RegexInLoopRule": (["docs/performance-linter.md"], {"performance"}),
    "ConditionalVerboseRule": (["docs/improper-logging-linter.md", "docs/print-statements-linter.md"], {"improper_logging", "print_statements"}),
    "PrintStatementRule": (["docs/improper-logging-linter.md", "docs/print-statements-linter.md"], {"improper_logging", "print_statements"}),
    "SRPRule": (["docs/srp-linter.md", "docs/configuration.md"], {"srp"}),
    "StatelessClassRule": (["docs/stateless-class-linter.md", "docs/configuration.md"], {"stateless_class"}),
    "StringlyTypedRule": (["docs/stringly-typed-linter.md"], {"stringly_typed"}),
    "UnwrapAbuseRule": (["docs/unwrap-abuse-linter.md"], {"unwrap_abuse"}),
}
K4_EXEMPT = {"FilePlacementRule": "its section is a raw rule table (directories/global_patterns/global_deny) consumed by FilePlacementLinter, not a dataclass; pattern-list wiring is decided under C18-V3"}
# (config class, field) pairs whose invalid values are rejected today (confirmed by reading every __post_init__)
VALIDATED = {
    "CollectionPipelineConfig": ["min_continues"],
    "DRYConfig": ["min_duplicate_lines", "min_duplicate_tokens", "min_occurrences", "min_constant_occurrences", "storage_mode"],
    "MagicNumberConfig": ["max_small_integer"],
    "NestingConfig": ["max_nesting_depth"],
    "SRPConfig": ["max_methods", "max_loc"],
    "StringlyTypedConfig": ["min_occurrences", "min_values_for_enum", "max_values_for_enum"],
}
NO_ENABLED_OPTION = {"FilePlacementRule": "file-placement documents no `enabled` switch: its section holds only the placement rules"}
ORCH = "src.orchestrator.core"


def nk(s: str) -> str:
    return s.replace("-", "_")


def documented_sections(ctx, rule_short: str) -> dict[str, dict]:
    """{section name as written: merged documented options} for one rule, from its doc pages and the template."""
    pages, names = RULE_DOCS[rule_short]
    out: dict[str, dict] = {}
    for pg in pages:
        for k, v in docs.doc_sections(ctx.root, pg).items():
            if nk(k) in names:
                out.setdefault(k, {}).update(v)
    for k, v in docs.template(ctx.root).items():
        if isinstance(k, str) and nk(k) in names and isinstance(v, dict):
            out.setdefault(k, {}).update(v)
    return out


def check(run, ctx):
    repo, cg = ctx.repo, ctx.cg
    L = Linters(ctx)
    run.require(len(L.rules) >= 20, "rule classes missing")
    for r in L.rules:
        run.require(r.short in RULE_DOCS, f"rule class {r.short} is not in the frozen rule->documentation table")

    K1 = run.rule("K1", "every documented section name, normalised ('-'->'_') as the loader does, is a key the rule looks up in context.metadata", floor=20,
                  decides="`enabled: false` and every other setting of a documented section reach the linter from any config file, in either spelling")
    reads = {}
    for r in L.rules:
        ks = CF.section_key_reads(L, r)
        reads[r.short] = ks
        meta_keys = {k.key for k in ks if k.source == "metadata"}
        cfg_keys = {k.key for k in ks if k.source == "config"}
        secs = documented_sections(ctx, r.short)
        if not secs:
            run.undecided(K1, r.short, "no documented section found in docs/template")
            continue
        for s in sorted(secs):
            sym = f"{r.short}[{s}]"
            if nk(s) in meta_keys:
                run.ok(K1, sym, f"metadata[{nk(s)!r}] is read")
            elif nk(s) in cfg_keys or s in cfg_keys:
                run.finding(K1, sym, "reads-context.config-only", f"{r.short} looks its section up only on context.config, an attribute the orchestrator's FileLintContext does not have: the documented section {s!r} is never honoured", r.cls.loc)
            elif meta_keys:
                run.finding(K1, sym, f"key-not-read:{nk(s)}", f"documented section {s!r} reaches rules as metadata[{nk(s)!r}] (top-level keys are normalised) but {r.short} only reads {sorted(meta_keys)}", r.cls.loc)
            else:
                run.finding(K1, sym, "no-section-read", f"{r.short} reads no configuration section at all; the documented section {s!r} has no effect", r.cls.loc)

    K3 = run.rule("K3", "on every path of check() that can return a non-empty list, a test of <config>.enabled was established true", floor=12,
                  decides="`enabled: false` yields no violation from that linter")
    seen = {}
    for r in L.rules:
        if r.short in NO_ENABLED_OPTION:
            run.ok(K3, r.short, f"exempt: {NO_ENABLED_OPTION[r.short]}", nontrivial=False)
            continue
        f = r.check
        if f.qual in seen:
            run.ok(K3, r.short, f"inherits the gate of {f.qual.rsplit('.', 2)[-2]}.check", nontrivial=False)
            continue
        v = _enabled_gate(repo, r, f)
        seen[f.qual] = v
        if v is True:
            run.ok(K3, r.short, "config.enabled tested before any non-empty return")
        elif v is None:
            run.undecided(K3, r.short, "too many paths")
        else:
            run.finding(K3, r.short, "no-enabled-gate", f"{f.qual}: `{v}` is reachable without any test of config.enabled", f.loc)

    # ----------------------------------------------------------------- K4 / K5
    K4 = run.rule("K4", "each documented option of a linter's section is read by from_dict (or is a language key handled by the override idiom) and its field is read outside the config class", floor=60,
                  decides="documented thresholds and switches take effect instead of silently falling back to defaults")
    done = set()
    for r in L.rules:
        c = CF.config_class_of(L, r)
        secs = documented_sections(ctx, r.short)
        opts = set()
        for v in secs.values():
            opts |= {k for k in v if isinstance(k, str)}
        if r.short in K4_EXEMPT:
            run.ok(K4, r.short, f"exempt: {K4_EXEMPT[r.short]}", nontrivial=False)
            continue
        if c is None:
            if opts:
                run.finding(K4, r.short, "no-config-object", f"{r.short} builds no configuration object: none of its {len(opts)} documented options ({', '.join(sorted(opts)[:6])}, ...) can take effect", r.cls.loc)
            continue
        if c.qual in done:
            continue
        done.add(c.qual)
        cc = CF.analyse_config_class(repo, c)
        pkg_attr_reads = _attr_reads(repo, r.pkg, c)
        for o in sorted(opts):
            sym = f"{c.name}.{o}"
            if o in cc.keys or nk(o) in cc.keys:
                fld = cc.key_to_field.get(o) or cc.key_to_field.get(nk(o))
                if fld is None:
                    run.ok(K4, sym, "read by from_dict (value consumed in from_dict itself)")
                elif fld in pkg_attr_reads:
                    run.ok(K4, sym, f"from_dict[{o!r}] -> field {fld} -> read at {pkg_attr_reads[fld]}")
                else:
                    run.finding(K4, sym, f"dead-field:{fld}", f"option {o!r} is stored in {c.name}.{fld} but that field is never read by the linter", c.loc)
            elif o in CF.LANG_KEYS and (cc.lang_override or any(k in cc.keys for k in CF.LANG_KEYS)):
                run.ok(K4, sym, "language override key (handled by the language idiom)")
            else:
                run.finding(K4, sym, "not-read", f"documented option {o!r} is not read by {c.name}.from_dict: setting it has no effect", c.loc)

    # ----------------------------------------------------------------- K6
    K6 = run.rule("K6", "config ValueError reaches exit 2: re-raised by _safe_check_rule before its generic handler; not swallowed between from_dict and _safe_check_rule; not swallowed by the parallel worker", floor=15,
                  decides="a documented-invalid value ends the run with exit code 2")
    scr = repo.func_by_role(f"{ORCH}.Orchestrator._safe_check_rule", "the Orchestrator method that calls rule.check(context) under its try/except",
                            lambda g: any(isinstance(n, ast.Try) for n in ast.walk(g.node)) and any(is_call_named(n, "check") for n in ast.walk(g.node)))
    tr = next((n for n in ast.walk(scr.node) if isinstance(n, ast.Try)), None)
    run.require(tr is not None, "_safe_check_rule has no try")
    first = tr.handlers[0] if tr.handlers else None
    if first is not None and handler_names(first) == {"ValueError"} and any(isinstance(s, ast.Raise) and s.exc is None for s in first.body):
        run.ok(K6, "_safe_check_rule", "first handler re-raises ValueError")
    else:
        run.finding(K6, "_safe_check_rule", "no-reraise", "ValueError is not re-raised ahead of the generic handler: invalid configuration would be logged and ignored", scr.loc)
    for r in L.rules:
        c = CF.config_class_of(L, r)
        if c is None:
            continue
        targets = {f"{c.qual}.from_dict", f"new:{c.qual}", f"{c.qual}.__post_init__"}
        fwd = L.reach(r)
        # functions from which a config construction is reachable
        rev = set()
        todo = [t for t in targets]
        while todo:
            t = todo.pop()
            for s in cg.inn.get(t, ()):
                if s["kind"] == "call" and s["caller"] in fwd and s["caller"] not in rev:
                    rev.add(s["caller"])
                    todo.append(s["caller"])
        bad = None
        n_sites = 0
        for fq in sorted(rev):
            f = repo.funcs.get(fq)
            if f is None:
                continue
            for s in cg.out.get(fq, ()):
                if s["kind"] != "call" or not any(x in rev or x in targets for x in s["callees"]):
                    continue
                call = L.idx.call_at(s["module"], s["span"])
                if call is None:
                    continue
                n_sites += 1
                if is_caught(f.node, call, "ValueError"):
                    bad = (f, call)
        if bad:
            run.finding(K6, r.short, f"swallowed-in:{bad[0].qual.replace('src.linters.', '')}", f"{bad[0].qual}: {norm(bad[1])} (which leads to {c.name} validation) runs under a handler that catches ValueError", bad[0].loc)
        else:
            run.ok(K6, r.short, f"{n_sites} call sites between check() and {c.name} construction, none under a ValueError/Exception handler")
    # config classes handed over as a value (load_linter_config(context, key, ConfigClass)): the call is `<param>.from_dict(...)`,
    # which the call graph cannot resolve - every from_dict call site of src is looked at directly
    n_fd = 0
    for f in sorted(repo.funcs.values(), key=lambda x: x.qual):
        for n in ast.walk(f.node):
            if isinstance(n, ast.Call) and call_name(n) == "from_dict" and isinstance(n.func, ast.Attribute):
                n_fd += 1
                if is_caught(f.node, n, "ValueError"):
                    run.finding(K6, f.qual.replace("src.", ""), f"from_dict-under-handler:{norm(n.func.value)}", f"{f.qual}: {norm(n)} runs under a handler that catches ValueError: the validation error of the configuration (for instance of a per-language value) is handled locally instead of ending the run with exit 2", f"{f.module.rel}:{n.lineno}")
                else:
                    run.ok(K6, f"{f.qual.replace('src.', '')}:{norm(n.func.value)}.from_dict", "not under a ValueError/Exception handler")
    run.require(n_fd >= 10, f"K6: only {n_fd} from_dict call sites found")
    w = repo.func(f"{ORCH}._lint_file_worker")
    lf = [n for n in ast.walk(w.node) if isinstance(n, ast.Call) and call_name(n) == "lint_file"]
    run.require(bool(lf), "_lint_file_worker no longer calls lint_file")
    if is_caught(w.node, lf[0], "ValueError"):
        run.finding(K6, "_lint_file_worker", "swallows-ValueError", "the parallel worker catches Exception around lint_file: the ValueError that _safe_check_rule re-raises for invalid configuration is logged and dropped, so --parallel exits 0/1 instead of 2", w.loc)
    else:
        run.ok(K6, "_lint_file_worker", "does not swallow ValueError")
    for cname, flds in sorted(VALIDATED.items()):
        cands = [c for q, c in repo.classes.items() if q.startswith("src.linters.") and c.name == cname]
        run.require(len(cands) == 1, f"config class {cname} not found")
        c = cands[0]
        validated = _validated_fields(repo, c)
        for fld in flds:
            if fld in validated:
                run.ok(K6, f"{cname}.{fld}", f"__post_init__ raises ValueError when {validated[fld]}")
            else:
                run.finding(K6, f"{cname}.{fld}", "validation-removed", f"{cname}.__post_init__ no longer rejects invalid {fld} with ValueError (documented-invalid values would be accepted silently)", c.loc)

    # ----------------------------------------------------------------- K7
    K7 = run.rule("K7", "a CLI threshold override is written at every level from_dict reads it (section level and each language key of the rule's dispatch set), under a section name and key the rule reads", floor=5,
                  decides="command-line threshold options take precedence over every config value including per-language overrides")
    _k7(run, ctx, L, K7)

    # ----------------------------------------------------------------- K8
    K8 = run.rule("K8", "config discovery: yaml -> json -> pyproject in both entry points; every reader of a user config file returns through _normalize_config_keys; the ignore list is read from the same carriers", floor=8)
    _k8(run, ctx, K8)

    # ----------------------------------------------------------------- K9
    K9 = run.rule("K9", "threshold fields (max_*/min_*) are read only as comparison operands in the direction of their name (max: value > T / value <= T; min: value >= T / value < T), in messages, or forwarded - never ==, arithmetic or index", floor=15,
                  decides="making a threshold more permissive never adds a violation, stricter never removes one")
    _k9(run, ctx, L, K9)

    # ----------------------------------------------------------------- K10
    K10 = run.rule("K10", "no handler turns a config-file parse/read failure into a default value", floor=4,
                   decides="an unparsable configuration file ends the run with exit code 2")
    _k10(run, ctx, K10)
    K11 = run.rule("K11", "a rule's configuration is a function of (loaded config, file language) for every file: _load_config/_get_config do not memoise the parsed config on the rule instance", floor=15,
                   decides="per-language thresholds apply to each file of a mixed-language run, whatever the file order")
    from . import shared

    for rec in shared.config_memoisation(ctx, L):
        sym = f"{rec['rule']}.{rec['name']}"
        if rec["bad"]:
            run.finding(K11, sym, f"memoised:{rec['store']}", f"{rec['func'].qual} caches the parsed configuration on the rule instance ({rec['store']}) without keying it by the file's language: the first file's language decides the per-language thresholds of every later file", rec["func"].loc)
        else:
            run.ok(K11, sym, "no instance-level memoisation")

    K14 = run.rule("K14", "every key from_dict reads from the per-language mapping falls back to the value of the same key at section level", floor=4,
                   decides="adding a `<language>:` sub-section changes only the keys it names: the section's other settings (ignore lists, switches) stay in effect for that language")
    for cq, c in sorted(repo.classes.items()):
        if not (cq.startswith("src.linters.") and c.name.endswith("Config") and "from_dict" in c.methods):
            continue
        fd_ = c.methods["from_dict"]
        cpar_ = fd_.node.args.args[1].arg if len(fd_.node.args.args) > 1 else "config"
        flat_ = list(inline.flat_nodes(repo, fd_))
        lang_maps = {t.id for n in flat_ if isinstance(n, ast.Assign) for t in n.targets if isinstance(t, ast.Name)
                     and any(isinstance(x, ast.Name) and x.id in ("language", "lang") for x in ast.walk(n.value)) and any(isinstance(x, ast.Name) and x.id == cpar_ for x in ast.walk(n.value))}
        if not lang_maps:
            continue
        sect_defs: dict[str, list] = {}
        for n in flat_:
            if isinstance(n, ast.Assign):
                for t in n.targets:
                    if isinstance(t, ast.Name):
                        sect_defs.setdefault(t.id, []).append(n.value)
        def reads_section(e, key, depth=2):
            for x in ast.walk(e):
                if isinstance(x, ast.Call) and call_name(x) == "get" and isinstance(x.func.value, ast.Name) and x.func.value.id == cpar_ and x.args and repo.fold(fd_.module, x.args[0], c) == key:
                    return True
                if isinstance(x, ast.Subscript) and isinstance(x.value, ast.Name) and x.value.id == cpar_ and repo.fold(fd_.module, x.slice, c) == key:
                    return True
                if depth > 0 and isinstance(x, ast.Name) and x.id in sect_defs and x.id not in lang_maps and any(reads_section(d_, key, depth - 1) for d_ in sect_defs[x.id] if d_ is not e):
                    return True
            return False
        for n in flat_:
            if isinstance(n, ast.Call) and call_name(n) == "get" and isinstance(n.func, ast.Attribute) and isinstance(n.func.value, ast.Name) and n.func.value.id in lang_maps and n.args:
                key = repo.fold(fd_.module, n.args[0], c)
                if not isinstance(key, str):
                    continue
                dflt = n.args[1] if len(n.args) > 1 else None
                sym = f"{c.name}[{key}]"
                if dflt is not None and reads_section(dflt, key):
                    run.ok(K14, sym, "language level first, section level as fallback")
                else:
                    run.finding(K14, sym, f"no-section-fallback:{norm(n)[:60]}", f"{c.name}.from_dict reads {key!r} from the per-language mapping with `{norm(n)[:70]}` and no fallback to the section's own {key!r}: as soon as a `<language>:` sub-section exists, the section-level value of {key!r} is ignored for that language", f"{fd_.module.rel}:{n.lineno}")

    K12 = run.rule("K12", "from_dict does not use `mapping.get(key) or fallback`: a configured falsy value (false, 0, []) must not fall through to the fallback", floor=14,
                   decides="`enabled: false`, `allow_in_scripts: false`, empty lists and zero thresholds set by the user take effect, also inside language overrides")
    for cq, c in sorted(repo.classes.items()):
        if not (cq.startswith("src.linters.") and c.name.endswith("Config") and "from_dict" in c.methods):
            continue
        funcs = [c.methods["from_dict"]] + [g for g in repo.funcs.values() if g.module is c.module and g.cls is None and g.parent is None]
        bad = None
        for g in funcs:
            for n in ast.walk(g.node):
                if isinstance(n, ast.BoolOp) and isinstance(n.op, ast.Or) and any(isinstance(v, ast.Call) and call_name(v) == "get" and len(v.args) == 1 and isinstance(v.args[0], ast.Constant) for v in n.values[:-1]):
                    bad = (g, n)
        if bad:
            run.finding(K12, c.name, f"get-or-fallback:{norm(bad[1])}", f"{bad[0].qual}: `{norm(bad[1])}` treats a configured false/0/[] as 'not set' and silently uses the fallback", f"{bad[0].module.rel}:{bad[1].lineno}")
        else:
            run.ok(K12, c.name, "missing keys are defaulted with get(key, default)")

    run.extra["call_resolution"] = f"{cg.n_resolved}/{cg.n_calls}"
    return __doc__


# --------------------------------------------------------------------------- helpers
def _same(a, b) -> bool:
    try:
        if isinstance(a, (list, tuple, set, frozenset)) and isinstance(b, (list, tuple, set, frozenset)):
            return sorted(map(repr, a)) == sorted(map(repr, b))
        return a == b and type(a) is type(b) or (a == b and not isinstance(a, bool) and not isinstance(b, bool))
    except Exception:  # noqa: BLE001
        return False


def _factory_value(repo, c, fac):
    if fac is None:
        return UNKNOWN
    if isinstance(fac, ast.Lambda):
        return repo.fold(c.module, fac.body, c)
    if isinstance(fac, ast.Name) and fac.id in ("list", "dict", "set", "tuple"):
        return {"list": [], "dict": {}, "set": set(), "tuple": ()}[fac.id]
    return repo.fold(c.module, fac, c)


def _validated_fields(repo, c) -> dict[str, str]:
    """field -> text of the rejecting test, for `if <test on self.field>: raise ValueError` in __post_init__ (+ same-class helpers)."""
    out: dict[str, str] = {}
    pi = c.methods.get("__post_init__")
    if pi is None:
        return out
    funcs = [pi] + [c.methods[n.func.attr] for n in ast.walk(pi.node) if isinstance(n, ast.Call) and isinstance(n.func, ast.Attribute) and isinstance(n.func.value, ast.Name) and n.func.value.id == "self" and n.func.attr in c.methods]
    for f in funcs:
        lists = {}
        for n in ast.walk(f.node):
            if isinstance(n, ast.Assign) and isinstance(n.targets[0], ast.Name) and isinstance(n.value, (ast.List, ast.Tuple)):
                lists[n.targets[0].id] = n.value
        for n in ast.walk(f.node):
            if isinstance(n, ast.If) and any(isinstance(x, ast.Raise) and "ValueError" in ast.unparse(x) for b in n.body for x in ast.walk(b)):
                for a in ast.walk(n.test):
                    if isinstance(a, ast.Attribute) and isinstance(a.value, ast.Name) and a.value.id == "self":
                        if _rejects_zero(n.test, a.attr) is not False:
                            out.setdefault(a.attr, norm(n.test))
            if isinstance(n, ast.For) and isinstance(n.iter, ast.Name) and n.iter.id in lists:
                inner = [x for x in ast.walk(n) if isinstance(x, ast.If) and any(isinstance(y, ast.Raise) and "ValueError" in ast.unparse(y) for b in x.body for y in ast.walk(b))]
                if inner and _rejects_zero(inner[0].test, None) is not False:
                    for a in ast.walk(lists[n.iter.id]):
                        if isinstance(a, ast.Attribute) and isinstance(a.value, ast.Name) and a.value.id == "self":
                            out.setdefault(a.attr, f"{norm(inner[0].test)} for each listed field")
    return out


def _rejects_zero(test: ast.expr, fld):
    """For a simple `X <op> const` test: does the value 0 satisfy it (i.e. is a non-positive limit rejected)?  None if not that shape."""
    if isinstance(test, ast.Compare) and len(test.ops) == 1 and isinstance(test.comparators[0], ast.Constant) and isinstance(test.comparators[0].value, (int, float)):
        k = test.comparators[0].value
        op = test.ops[0]
        return {ast.Lt: 0 < k, ast.LtE: 0 <= k, ast.Gt: 0 > k, ast.GtE: 0 >= k, ast.Eq: 0 == k, ast.NotEq: 0 != k}.get(type(op))
    return None


def _attr_reads(repo, pkg: str, c) -> dict[str, str]:
    """field name -> first location where `.field` is loaded in the linter package or src.core (outside from_dict/__post_init__ of c)."""
    out: dict[str, str] = {}
    skip = {id(c.methods[m].node) for m in ("from_dict", "__post_init__") if m in c.methods}
    mods = repo.modules_in(pkg) + repo.modules_in("src.core") + repo.modules_in("src.cli")
    for m in mods:
        skipped: set[int] = set()
        for n in ast.walk(m.tree):
            if id(n) in skip:
                skipped |= {id(x) for x in ast.walk(n)}
        for n in ast.walk(m.tree):
            if id(n) in skipped:
                continue
            if isinstance(n, ast.Attribute) and isinstance(n.ctx, ast.Load) and n.attr in c.annots and n.attr not in out:
                out[n.attr] = f"{m.rel}:{n.lineno}"
            if isinstance(n, ast.Call) and call_name(n) == "getattr" and len(n.args) >= 2 and isinstance(n.args[1], ast.Constant) and n.args[1].value in c.annots:
                out.setdefault(n.args[1].value, f"{m.rel}:{n.lineno}")
        # getattr(config, <table lookup>): every field name that occurs as a string constant in that module is a possible read
        dyn = [n for n in ast.walk(m.tree) if isinstance(n, ast.Call) and call_name(n) == "getattr" and len(n.args) >= 2 and not isinstance(n.args[1], ast.Constant)]
        if dyn and m.name.startswith(pkg):
            for n in ast.walk(m.tree):
                if isinstance(n, ast.Constant) and isinstance(n.value, str) and n.value in c.annots:
                    out.setdefault(n.value, f"{m.rel}:{n.lineno} (via getattr table)")
    return out


def _enabled_gate(repo, r, f):
    paths = func_paths(f)
    if paths is None:
        return None

    def implies(e: ast.AST, val: bool, depth: int = 3) -> bool:
        """Does `e evaluating to val` imply that config.enabled is true?"""
        if isinstance(e, ast.Attribute) and e.attr == "enabled":
            return val is True
        if isinstance(e, ast.Call) and call_name(e) == "getattr" and len(e.args) >= 2 and isinstance(e.args[1], ast.Constant) and e.args[1].value == "enabled":
            return val is True
        if isinstance(e, ast.UnaryOp) and isinstance(e.op, ast.Not):
            return implies(e.operand, not val, depth)
        if isinstance(e, ast.BoolOp):
            if isinstance(e.op, ast.And) and val:
                return any(implies(v, True, depth) for v in e.values)
            if isinstance(e.op, ast.Or) and not val:
                return any(implies(v, False, depth) for v in e.values)
            return False
        if isinstance(e, ast.Call) and isinstance(e.func, ast.Attribute) and isinstance(e.func.value, ast.Name) and e.func.value.id == "self" and depth > 0:
            g = repo.find_method(r.qual, e.func.attr)
            if g is None:
                return False
            gp = func_paths(g, 500)
            if gp is None:
                return False
            relevant = False
            for p in gp:
                t = p[-1]
                if t[0] != "return" or t[1].value is None:
                    continue
                rv = t[1].value
                if isinstance(rv, ast.Constant) and bool(rv.value) != val:
                    continue
                relevant = True
                established = any(ev[0] == "test" and implies(ev[1], ev[2], depth - 1) for ev in p[:-1])
                if not established and not implies(rv, val, depth - 1):
                    return False
            return relevant
        return False

    for p in paths:
        t = p[-1]
        if not cfg.path_returns_nonempty(p):
            continue
        if not any(ev[0] == "test" and implies(ev[1], ev[2]) for ev in p[:-1]):
            return norm(t[1])
    return True


def _k7(run, ctx, L, K7):
    repo = ctx.repo
    helpers = [f for f in repo.funcs_in("src.cli.linters.") if f.name.startswith("_apply_") and f.name.endswith("_config_override")]
    run.require(len(helpers) >= 4, f"only {len(helpers)} CLI override helpers found")
    section_rule = {}
    for r in L.rules:
        for k in CF.section_key_reads(L, r):
            if k.source == "metadata":
                section_rule.setdefault(k.key, r)
    for h in helpers:
        sec = None
        for n in ast.walk(h.node):
            if isinstance(n, ast.Call) and call_name(n) == "ensure_config_section" and len(n.args) >= 2:
                sec = repo.fold(h.module, n.args[1])
        if not isinstance(sec, str):
            run.undecided(K7, h.name, "section name not constant")
            continue
        r = section_rule.get(sec)
        if r is None:
            run.finding(K7, h.name, f"section:{sec}", f"{h.name} writes orchestrator.config[{sec!r}] but no rule reads that metadata key", h.loc)
            continue
        c = CF.config_class_of(L, r)
        cc = CF.analyse_config_class(repo, c)
        # keys written at section level (in h and the same-module helpers it calls)
        funcs = [h] + [repo.funcs[f"{h.module.name}.{call_name(n)}"] for n in ast.walk(h.node) if isinstance(n, ast.Call) and f"{h.module.name}.{call_name(n)}" in repo.funcs]
        top_keys, lang_keys, langs = set(), set(), set()
        for f in funcs:
            for n in ast.walk(f.node):
                if isinstance(n, ast.Call) and call_name(n) == "set_config_value" and len(n.args) >= 2:
                    v = repo.fold(f.module, n.args[1])
                    if isinstance(v, str):
                        if isinstance(n.args[0], ast.Subscript):
                            lang_keys.add(v)
                        else:
                            top_keys.add(v)
                if isinstance(n, ast.Assign) and isinstance(n.targets[0], ast.Subscript):
                    t = n.targets[0]
                    k = repo.fold(f.module, t.slice)
                    if isinstance(k, str):
                        if isinstance(t.value, ast.Subscript):
                            lang_keys.add(k)
                        else:
                            top_keys.add(k)
                if isinstance(n, ast.For):
                    v = repo.fold(f.module, n.iter)
                    if isinstance(v, (list, tuple)) and all(isinstance(x, str) for x in v) and set(v) & set(CF.LANG_KEYS):
                        langs |= set(v)
        # each language level is written independently: a missing <language> section must not end the loop
        for f in funcs:
            for loop in [n for n in ast.walk(f.node) if isinstance(n, ast.For)]:
                v = repo.fold(f.module, loop.iter)
                if not (isinstance(v, (list, tuple)) and set(v) & set(CF.LANG_KEYS)):
                    continue
                outer = [n for n in ast.walk(f.node) if isinstance(n, (ast.With, ast.Try)) and any(x is loop for x in ast.walk(n))]
                leaves = [n for n in ast.walk(loop) if isinstance(n, (ast.Break, ast.Return, ast.Raise))]
                if outer or leaves:
                    what = norm(outer[0]).split(":")[0] if outer else norm(leaves[0])
                    run.finding(K7, f"{f.name} language loop", f"loop-cut:{what}", f"{f.name}: the loop over {list(v)} is left at the first language that has no section ({what} around/inside the loop): the languages after it keep the config-file value although the command-line option was given", f"{f.module.rel}:{loop.lineno}")
                else:
                    run.ok(K7, f"{f.name} language loop", f"each of {list(v)} is attempted on its own (exception handling is per iteration)")
        for k in sorted(top_keys):
            if k not in cc.keys:
                run.finding(K7, f"{h.name}[{k}]", "unread-key", f"{h.name} writes {sec}.{k} but {c.name}.from_dict never reads that key: the command-line option has no effect", h.loc)
                continue
            if not cc.lang_override:
                run.ok(K7, f"{h.name}[{k}]", f"written at section level; {c.name} has no language overrides")
                continue
            need = set(r.lang_entries) | ({"javascript"} if "typescript" in r.lang_entries else set())
            have = langs if k in lang_keys else set()
            missing = sorted(need - have)
            if missing:
                run.finding(K7, f"{h.name}[{k}]", f"missing-language-levels:{missing}", f"{c.name}.from_dict prefers {sec}.<language>.{k} over {sec}.{k}, but {h.name} does not write the {missing} level(s): a per-language value in the config file beats the command-line option", h.loc)
            else:
                run.ok(K7, f"{h.name}[{k}]", f"written at section level and for {sorted(have)}")
    # precedence in time: nothing that (re)loads a configuration file runs after the override was written
    cg = ctx.cg
    PARSERS = ("src.core.config_parser.parse_config_file", "src.core.config_parser.parse_yaml", "src.core.config_parser.parse_json", "src.core.config_parser.parse_pyproject_toml")
    n_ord = 0

    def _replaces_config(f):
        """f writes `<param>.config = ...`, `<param>.config.update(...)` or `<param>.config[...] = ...` for a parameter other than self"""
        ps = {a.arg for a in f.node.args.posonlyargs + f.node.args.args + f.node.args.kwonlyargs} - {"self", "cls"}
        for n in ast.walk(f.node):
            tg = None
            if isinstance(n, (ast.Assign, ast.AugAssign, ast.AnnAssign)):
                tg = n.targets[0] if isinstance(n, ast.Assign) else n.target
                if isinstance(tg, ast.Subscript):
                    tg = tg.value
            elif isinstance(n, ast.Call) and isinstance(n.func, ast.Attribute) and n.func.attr in ("update", "setdefault", "clear"):
                tg = n.func.value
            if isinstance(tg, ast.Attribute) and tg.attr == "config" and isinstance(tg.value, ast.Name) and tg.value.id in ps:
                return True
        return False

    replacers = {f.qual for f in repo.funcs.values() if f.parent is None and f.module.name.startswith("src.cli") and not (f.name.startswith("_apply_") or f.name in ("set_config_value", "ensure_config_section")) and _replaces_config(f)}
    run.require(len(replacers) >= 2, f"K7: only {len(replacers)} CLI functions that load a configuration file into an orchestrator found (load_config_file and _load_dry_config_file confirmed)")
    for h in helpers:
        for site in cg.sites_calling(h.qual):
            g = repo.funcs.get(site["caller"])
            if g is None:
                continue
            calls = sorted([n for n in ast.walk(g.node) if isinstance(n, ast.Call)], key=lambda n: (n.lineno, n.col_offset))
            hcall = next((n for n in calls if call_name(n) == h.name), None)
            if hcall is None:
                continue
            n_ord += 1
            late = None
            for n in calls:
                if (n.lineno, n.col_offset) <= (hcall.lineno, hcall.col_offset) or n is hcall:
                    continue
                st = cg.site_of(g.module.name, n)
                tgts = set(st["callees"]) if st is not None else set()
                if not tgts:
                    continue
                rch = cg.reach(tgts, resolved_only=True)
                hit = next((p_ for p_ in sorted(replacers) if p_ in rch), None)
                if hit is not None:
                    late = (n, hit)
                    break
            if late is None:
                run.ok(K7, f"{g.name} order", f"{h.name}(...) runs after every configuration file has been loaded")
            else:
                run.finding(K7, f"{g.name} order", f"file-after-override:{call_name(late[0])}", f"{g.name} calls {call_name(late[0])}(...) (which loads a configuration file into the orchestrator through {late[1].rsplit('.', 1)[1]}) after {h.name}(...): the section read from the file replaces the value the command-line option has just written, so the file beats the option", f"{g.module.rel}:{late[0].lineno}")
    run.require(n_ord >= 4, f"K7: only {n_ord} call sites of the override helpers found")


def _k8(run, ctx, K8):
    repo = ctx.repo
    oi = repo.func(f"{ORCH}.Orchestrator.__init__")
    # file names in evaluation order, in __init__ itself or in a private helper it calls (flattened view keeps source order per body)
    names_o = [n.value for n in inline.flat_nodes(repo, oi) if isinstance(n, ast.Constant) and isinstance(n.value, str) and n.value.startswith(".thailint.")]
    rp = repo.func("src.api.Linter._resolve_config_path")
    names_a = [n.value for n in inline.flat_nodes(repo, rp) if isinstance(n, ast.Constant) and isinstance(n.value, str) and n.value.startswith(".thailint.")]
    want = [".thailint.yaml", ".thailint.json"]
    (run.ok(K8, "Orchestrator.__init__ order", "yaml then json") if names_o == want else run.finding(K8, "Orchestrator.__init__", f"order:{names_o}", f"config discovery order is {names_o}, documented precedence is yaml then json then pyproject", oi.loc))
    (run.ok(K8, "Linter._resolve_config_path order", "yaml then json") if names_a == want else run.finding(K8, "Linter._resolve_config_path", f"order:{names_a}", f"library discovery order is {names_a}", rp.loc))
    lc = repo.func("src.linter_config.loader.load_config")
    ok = any(isinstance(n, ast.Call) and call_name(n) == "parse_pyproject_toml" for n in ast.walk(lc.node)) and any(isinstance(n, ast.Constant) and n.value == "pyproject.toml" for n in ast.walk(lc.node))
    (run.ok(K8, "load_config pyproject fallback", "parse_pyproject_toml(<dir>/pyproject.toml) when the file is absent") if ok else run.finding(K8, "load_config", "no-pyproject", "no pyproject.toml [tool.thailint] fallback", lc.loc))
    nz = repo.func_by_role("src.core.config_parser._normalize_config_keys", "replaces '-' by '_' in the top-level keys",
                           lambda g: any(isinstance(n, ast.Call) and call_name(n) == "replace" and [repo.fold(g.module, a) for a in n.args] == ["-", "_"] for n in ast.walk(g.node)))
    for fn in ("parse_config_file", "parse_pyproject_toml"):
        f = repo.func(f"src.core.config_parser.{fn}")
        rets = [n for n in ast.walk(f.node) if isinstance(n, ast.Return) and n.value is not None]
        bad = [r for r in rets if not (isinstance(r.value, ast.Call) and call_name(r.value) == nz.name)]
        (run.ok(K8, fn, f"every return goes through {nz.name}") if rets and not bad else run.finding(K8, fn, "unnormalised-return", f"{fn} can return a config dict that was not key-normalised: {norm(bad[0]) if bad else 'no return'}", f.loc))
    ok = any(isinstance(n, ast.Call) and call_name(n) == "replace" and [repo.fold(nz.module, a) for a in n.args] == ["-", "_"] for n in ast.walk(nz.node))
    (run.ok(K8, "_normalize_config_keys", "key.replace('-', '_')") if ok else run.finding(K8, "_normalize_config_keys", "replace", "top-level keys are no longer normalised '-' -> '_'", nz.loc))
    # every other reader of a user config file
    ALLOWED = {
        "src.core.config_parser.parse_yaml": "called by parse_config_file (normalised there)",
        "src.core.config_parser.parse_json": "called by parse_config_file (normalised there)",
        "src.core.config_parser.parse_pyproject_toml": "normalises itself",
        "src.linters.file_placement.config_loader": "layout file of the file-placement linter, not the thailint config (C18)",
        "src.config": "config tooling (C20)",
        "src.cli.config": "config tooling (C20)",
        "src.cli.config_merge": "config tooling (C20)",
        "src.core.cli_utils": "legacy helper, not used by any linter command",
        "src.linter_config.ignore._parse_config_file": "reads only the top-level `ignore` key (no '-'/'_' in it); its carrier gap is reported at _load_repo_ignores",
    }
    for f in repo.funcs.values():
        if f.parent is not None:
            continue
        for n in ast.walk(f.node):
            if isinstance(n, ast.Call) and dotted(n.func) in ("yaml.safe_load", "yaml.load", "json.load", "tomllib.load", "tomllib.loads"):
                if any(f.qual == a or f.qual.startswith(a + ".") for a in ALLOWED):
                    run.ok(K8, f.qual.replace("src.", "", 1), f"allowed reader: {[v for a, v in ALLOWED.items() if f.qual == a or f.qual.startswith(a + '.')][0]}", nontrivial=False)
                elif f.module.name.startswith("src.linters.") and "config" not in f.name:
                    continue
                else:
                    run.finding(K8, f.qual.replace("src.", "", 1), f"raw-reader:{dotted(n.func)}", f"{f.qual} parses a user configuration file itself with {dotted(n.func)}: section keys are not normalised and only one carrier format is understood", f.loc)
    li = repo.func("src.linter_config.ignore._load_repo_ignores")
    files = [n.value for n in ast.walk(li.node) if isinstance(n, ast.Constant) and isinstance(n.value, str) and n.value.startswith(".")]
    carriers = {".thailint.yaml", ".thailint.json", "pyproject.toml"}
    uses_loader = any(isinstance(n, ast.Call) and call_name(n) in ("load_config", "load", "parse_config_file") for n in ast.walk(li.node))
    if uses_loader or carriers <= set(files):
        run.ok(K8, "_load_repo_ignores", "ignore list read through the common loader")
    else:
        run.finding(K8, "linter_config.ignore._load_repo_ignores", "carriers", f"the top-level ignore list is read only from {files}: an `ignore` list in .thailint.json, pyproject.toml or a --config file is not honoured", li.loc)


def _k9(run, ctx, L, K9):
    repo = ctx.repo
    fields = {}
    for cq, c in repo.classes.items():
        if cq.startswith("src.linters.") and c.is_dataclass and c.name.endswith("Config"):
            for n, a in c.annots.items():
                if ast.unparse(a) == "int" and (n.startswith("max_") or n.startswith("min_")):
                    fields.setdefault(n, []).append(c)
    run.require(len(fields) >= 8, f"only {len(fields)} threshold fields found")
    for m in repo.modules_in("src.linters"):
        if m.name.endswith(".config"):
            continue
        parents = {}
        for n in ast.walk(m.tree):
            for ch in ast.iter_child_nodes(n):
                parents[id(ch)] = n
        for n in ast.walk(m.tree):
            if not (isinstance(n, ast.Attribute) and isinstance(n.ctx, ast.Load) and n.attr in fields):
                continue
            # only reads on a config-like object
            base = ast.unparse(n.value)
            if "config" not in base.lower() and base not in ("self",):
                continue
            if not any(c.module.name.startswith(".".join(m.name.split(".")[:3])) for c in fields[n.attr]):
                continue
            p = parents.get(id(n))
            sym = f"{m.name.replace('src.linters.', '')}:{norm(p) if isinstance(p, ast.Compare) else n.attr}"
            loc = f"{m.rel}:{n.lineno}"
            is_max = n.attr.startswith("max_")
            if isinstance(p, ast.Compare):
                operands = [p.left] + list(p.comparators)
                i = next(j for j, o in enumerate(operands) if o is n)
                if i < len(p.ops):
                    op = type(p.ops[i]).__name__
                    left = True
                else:
                    op = type(p.ops[i - 1]).__name__
                    left = False
                # normalise to  value OP threshold
                flip = {"Gt": "Lt", "Lt": "Gt", "GtE": "LtE", "LtE": "GtE", "Eq": "Eq", "NotEq": "NotEq"}
                vop = flip.get(op, op) if left else op
                good = {"Gt", "LtE"} if is_max else {"GtE", "Lt"}
                if vop in good:
                    run.ok(K9, sym, f"value {vop} {n.attr}")
                elif vop in ("Eq", "NotEq"):
                    run.finding(K9, sym, f"equality:{norm(p)}", f"{norm(p)}: threshold {n.attr} is compared for (in)equality - not monotone in the threshold", loc)
                else:
                    run.finding(K9, sym, f"direction:{norm(p)}", f"{norm(p)}: {n.attr} is a {'maximum' if is_max else 'minimum'}; the documented boundary is {'value > max (a value sitting on the limit passes)' if is_max else 'value >= min'}", loc)
            elif isinstance(p, ast.BinOp):
                run.finding(K9, sym, f"arithmetic:{norm(p)}", f"{norm(p)}: arithmetic on threshold {n.attr} (off-by-k boundary)", loc)
            elif isinstance(p, (ast.FormattedValue, ast.JoinedStr)):
                run.ok(K9, f"{sym}@message", "interpolated into a message", nontrivial=False)
            elif isinstance(p, (ast.Call, ast.keyword, ast.Return, ast.Assign, ast.Tuple, ast.IfExp, ast.AnnAssign, ast.Dict, ast.List)):
                run.ok(K9, f"{sym}@{type(p).__name__}", "forwarded/stored", nontrivial=False)
            elif isinstance(p, ast.Subscript) or isinstance(p, ast.Slice):
                run.finding(K9, sym, f"index:{norm(p)}", f"{norm(p)}: threshold {n.attr} used as an index", loc)
            else:
                run.undecided(K9, sym, f"unrecognised use context {type(p).__name__}")


def _k10(run, ctx, K10):
    repo = ctx.repo
    # only an EMPTY document may become {}: a list/scalar at the top level is a malformed configuration
    py = repo.func("src.core.config_parser.parse_yaml")
    for n in ast.walk(py.node):
        if isinstance(n, ast.Return) and isinstance(n.value, ast.IfExp) and isinstance(n.value.orelse, ast.Dict) and not n.value.orelse.keys:
            t = n.value.test
            none_test = isinstance(t, ast.Compare) and len(t.ops) == 1 and isinstance(t.ops[0], ast.IsNot) and isinstance(t.comparators[0], ast.Constant) and t.comparators[0].value is None
            if none_test:
                run.ok(K10, "core.config_parser.parse_yaml empty-document default", f"{{}} only when {norm(t)} is false")
            else:
                run.finding(K10, "core.config_parser.parse_yaml", f"non-mapping-defaulted:{norm(t)}", f"parse_yaml returns {{}} whenever `{norm(t)}` is false: a top-level list or scalar (e.g. a stray leading '- ') is silently treated as an empty configuration instead of a configuration error", py.loc)
    readers = [
        "src.linter_config.loader.load_config",
        "src.cli.linters.code_smells._load_dry_config_file",
        "src.cli.utils.load_config_file",
        "src.core.config_parser.parse_config_file",
        "src.core.config_parser.parse_pyproject_toml",
        "src.core.config_parser.parse_yaml",
        "src.core.config_parser.parse_json",
    ]
    parse_excs = {"ConfigParseError", "YAMLError", "JSONDecodeError", "TOMLDecodeError", "Exception", "BaseException", "ValueError", "UnicodeDecodeError"}
    for fq in readers:
        f = repo.funcs.get(fq)
        if f is None:
            run.require(False, f"config reader {fq} vanished")
            continue
        hs = [n for n in ast.walk(f.node) if isinstance(n, ast.ExceptHandler)]
        bad = None
        for h in hs:
            if not (handler_names(h) & parse_excs):
                continue
            reraises = any(isinstance(s, ast.Raise) for s in ast.walk(h)) or any(isinstance(s, ast.Call) and dotted(s.func) == "sys.exit" for s in ast.walk(h))
            if not reraises:
                bad = h
        if bad is not None:
            run.finding(K10, fq.replace("src.", "", 1), f"swallows:{sorted(handler_names(bad))}", f"{fq}: `except {sorted(handler_names(bad))}` returns a default instead of failing: an unparsable file is silently ignored", f"{f.module.rel}:{bad.lineno}")
        else:
            run.ok(K10, fq.replace("src.", "", 1), f"{len(hs)} handlers, all re-raise or exit")
