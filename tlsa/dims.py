"""Line/column dimension analysis (C12-B1, C06-X4): a two-point unit system.

Abstract values: Line1 (1-based line), Row0 (0-based row), Col0, Col1, Const(n), Top (unknown).
Sources: .lineno/.end_lineno -> Line1; .col_offset -> Col0; X.start_point[0]/.end_point[0] -> Row0;
X.start_point[1] -> Col0; enumerate(xs, 1)/start=1 index -> Line1; enumerate(xs) index -> Row0.
Transfer: Row0 + 1 -> Line1; Line1 - 1 -> Row0; Line1 + k (k>0) -> Line1+k (off by k); Row0 + k (k>1) likewise;
`x or k` -> dim(x) with fallback constant k; IfExp -> join.
Carriers followed backwards from a sink expression: parameters (all resolved call sites), single local
assignments, tuple unpacking of literal tuples appended to a returned list, dataclass fields (joined over the
constructor keyword sites in the same linter package), constant-key dict entries (record literals in the same
package), returns of called repo functions.
"""

from __future__ import annotations

import ast
from dataclasses import dataclass

from .facts import Func, call_name, dotted, norm
from .linters import Linters

MAX_DEPTH = 10


@dataclass(frozen=True)
class Dim:
    kind: str  # line1 | row0 | col0 | col1 | const | top | off
    note: str = ""
    value: float | None = None

    def __str__(self):
        return self.kind + (f"({self.value})" if self.kind == "const" else "") + (f"[{self.note}]" if self.note and self.kind in ("off", "top") else "")


LINE1, ROW0, COL0, COL1 = Dim("line1"), Dim("row0"), Dim("col0"), Dim("col1")


def TOP(why):
    return Dim("top", why)


class DimAnalysis:
    def __init__(self, ctx, L: Linters):
        self.ctx = ctx
        self.L = L
        self.repo = ctx.repo
        self.cg = ctx.cg
        self._field_sites: dict[tuple[str, str], list] = {}
        self._dict_sites: dict[tuple[str, str], list] = {}

    # ------------------------------------------------------------------ public
    def dims_of(self, fq: str, e: ast.expr) -> list[tuple[Dim, str]]:
        """All dimensions that can flow into expression e (evaluated in function fq), with provenance text."""
        out: list[tuple[Dim, str]] = []
        self._trace(fq, e, 0, set(), out, "")
        # de-duplicate
        seen = set()
        res = []
        for d, p in out:
            k = (d.kind, d.value, d.note, p)
            if k not in seen:
                seen.add(k)
                res.append((d, p))
        return res

    # ------------------------------------------------------------------ core
    def _emit(self, out, d: Dim, fq: str, e: ast.AST):
        out.append((d, f"{fq.replace('src.linters.', '').replace('src.', '')}: {norm(e)}"))

    def _trace(self, fq: str, e: ast.expr, depth: int, seen: set, out: list, via: str) -> None:
        f = self.repo.funcs.get(fq)
        key = (fq, ast.dump(e))
        if key in seen:
            return
        seen.add(key)
        d = self._local_dim(e)
        if d is not None:
            self._emit(out, d, fq, e)
            return
        if f is None:
            self._emit(out, TOP("no-function"), fq, e)
            return
        if isinstance(e, ast.IfExp):
            self._trace(fq, e.body, depth, seen, out, via)
            # `node.lineno if hasattr(node, "lineno") else 0`: parsed ast nodes always carry positions, the else arm is dead
            t = e.test
            if not (isinstance(t, ast.Call) and call_name(t) == "hasattr" and len(t.args) == 2 and isinstance(t.args[1], ast.Constant) and t.args[1].value in ("lineno", "col_offset", "end_lineno")):
                self._trace(fq, e.orelse, depth, seen, out, via)
            return
        if isinstance(e, ast.BoolOp) and isinstance(e.op, ast.Or):
            for v in e.values:
                self._trace(fq, v, depth, seen, out, via)
            return
        if isinstance(e, ast.BinOp) and isinstance(e.op, (ast.Add, ast.Sub)) and isinstance(e.right, ast.Constant) and isinstance(e.right.value, int):
            sub: list = []
            self._trace(fq, e.left, depth, seen, sub, via)
            k = e.right.value if isinstance(e.op, ast.Add) else -e.right.value
            for dd, p in sub:
                out.append((self._shift(dd, k), p + f" {'+' if k >= 0 else '-'} {abs(k)}"))
            return
        if depth > MAX_DEPTH:
            self._emit(out, TOP("depth"), fq, e)
            return
        if isinstance(e, ast.BinOp) and isinstance(e.op, (ast.Add, ast.Sub)):
            # line + offset-within-block (e.g. start_line + i): both operands traced, result keeps the line operand's base
            l: list = []
            r: list = []
            self._trace(fq, e.left, depth, seen, l, via)
            self._trace(fq, e.right, depth, seen, r, via)
            kinds_l = {d.kind for d, _ in l}
            kinds_r = {d.kind for d, _ in r}
            if kinds_l <= {"line1"} and kinds_r <= {"row0", "const"} or kinds_l <= {"row0", "const"} and kinds_r <= {"line1"}:
                self._emit(out, LINE1, fq, e)
            elif kinds_l <= {"row0", "const"} and kinds_r <= {"row0", "const"}:
                self._emit(out, ROW0, fq, e)
            elif kinds_l <= {"line1"} and kinds_r <= {"line1"} and isinstance(e.op, ast.Sub):
                self._emit(out, ROW0, fq, e)
            else:
                self._emit(out, TOP("arithmetic"), fq, e)
            return
        if isinstance(e, ast.Call) and isinstance(e.func, ast.Name) and e.func.id in ("int", "max", "min", "abs") and e.args:
            for a in e.args:
                self._trace(fq, a, depth, seen, out, via)
            return
        if isinstance(e, ast.Call) and call_name(e) == "getattr" and len(e.args) >= 2 and isinstance(e.args[1], ast.Constant):
            fake = ast.Attribute(value=e.args[0], attr=e.args[1].value, ctx=ast.Load())
            ast.copy_location(fake, e)
            self._trace(fq, fake, depth, seen, out, via)
            if len(e.args) > 2:
                self._trace(fq, e.args[2], depth, seen, out, via)
            return
        if isinstance(e, ast.Name):
            self._trace_name(f, e, depth, seen, out, via)
            return
        if isinstance(e, ast.Attribute):
            self._trace_field(f, e, depth, seen, out, via)
            return
        if isinstance(e, ast.Subscript) and isinstance(e.slice, ast.Constant) and isinstance(e.slice.value, str):
            self._trace_dict_key(f, e, depth, seen, out, via)
            return
        if isinstance(e, ast.Subscript) and isinstance(e.slice, ast.Constant) and isinstance(e.slice.value, int):
            # tuple position of a call result / name
            self._trace_tuple_pos(f, e.value, e.slice.value, depth, seen, out, via)
            return
        if isinstance(e, ast.Call):
            site = self.cg.site_at(f.module.name, e.lineno, e.col_offset)
            done = False
            if site is not None:
                for cq in site["callees"]:
                    g = self.repo.funcs.get(cq)
                    if g is None:
                        continue
                    for n in ast.walk(g.node):
                        if isinstance(n, ast.Return) and n.value is not None and self._owner(g, n):
                            done = True
                            self._trace(cq, n.value, depth + 1, seen, out, via)
            if not done:
                self._emit(out, TOP("call"), fq, e)
            return
        self._emit(out, TOP(type(e).__name__), fq, e)

    def _owner(self, g: Func, n: ast.AST) -> bool:
        # return statements of nested defs do not belong to g
        for sub in ast.walk(g.node):
            if sub is not g.node and isinstance(sub, (ast.FunctionDef, ast.AsyncFunctionDef, ast.Lambda)):
                if any(x is n for x in ast.walk(sub)):
                    return False
        return True

    @staticmethod
    def _shift(d: Dim, k: int) -> Dim:
        if k == 0:
            return d
        if d.kind == "row0" and k == 1:
            return LINE1
        if d.kind == "line1" and k == -1:
            return ROW0
        if d.kind == "col0" and k == 1:
            return COL1
        if d.kind == "col1" and k == -1:
            return COL0
        if d.kind == "const" and d.value is not None:
            return Dim("const", "", d.value + k)
        if d.kind in ("line1", "row0", "col0", "col1"):
            return Dim("off", f"{d.kind}{'+' if k > 0 else ''}{k}")
        return d

    def _local_dim(self, e: ast.expr) -> Dim | None:
        if isinstance(e, ast.Constant) and isinstance(e.value, (int, float)) and not isinstance(e.value, bool):
            return Dim("const", "", e.value)
        if isinstance(e, ast.Constant) and e.value is None:
            return Dim("const", "none", None)
        if isinstance(e, ast.Attribute):
            if e.attr in ("lineno", "end_lineno"):
                return LINE1
            if e.attr in ("col_offset", "end_col_offset"):
                return COL0
            if e.attr == "offset" and "err" in ast.unparse(e.value).lower() or e.attr == "offset" and ast.unparse(e.value) in ("e", "exc", "error"):
                return COL1  # SyntaxError.offset is 1-based
        if isinstance(e, ast.Subscript) and isinstance(e.value, ast.Attribute) and e.value.attr in ("start_point", "end_point") and isinstance(e.slice, ast.Constant):
            return ROW0 if e.slice.value == 0 else COL0 if e.slice.value == 1 else None
        if isinstance(e, ast.Attribute) and e.attr in ("row",) and isinstance(e.value, ast.Attribute) and e.value.attr in ("start_point", "end_point"):
            return ROW0
        if isinstance(e, ast.Attribute) and e.attr in ("column",) and isinstance(e.value, ast.Attribute) and e.value.attr in ("start_point", "end_point"):
            return COL0
        return None

    # ------------------------------------------------------------------ carriers
    def _trace_name(self, f: Func, e: ast.Name, depth, seen, out, via):
        fq = f.qual
        a = f.node.args
        pnames = [x.arg for x in a.posonlyargs + a.args + a.kwonlyargs]
        binds = []
        for n in ast.walk(f.node):
            if isinstance(n, ast.Assign):
                for t in n.targets:
                    binds += self._bindings(t, n.value, e.id)
            elif isinstance(n, ast.AnnAssign) and n.value is not None:
                binds += self._bindings(n.target, n.value, e.id)
            elif isinstance(n, (ast.For, ast.AsyncFor, ast.comprehension)):
                binds += self._loop_bindings(n.target, n.iter, e.id)
            elif isinstance(n, ast.NamedExpr) and isinstance(n.target, ast.Name) and n.target.id == e.id:
                binds.append(("expr", n.value, None))
            elif isinstance(n, ast.AugAssign) and isinstance(n.target, ast.Name) and n.target.id == e.id:
                binds.append(("aug", n, None))
        if not binds and e.id in pnames:
            sites = self.L.arg_exprs(fq, e.id)
            if not sites:
                sites = self._dynamic_sites(f, e.id)
            if not sites:
                self._emit(out, TOP("param-no-callers"), fq, e)
                return
            for s, call, ae in sites:
                if ae is None:
                    dflt = self.L.param_default(f, e.id)
                    if dflt is not None:
                        self._trace(fq, dflt, depth + 1, seen, out, via)
                else:
                    self._trace(s["caller"], ae, depth + 1, seen, out, via)
            return
        if not binds:
            self._emit(out, TOP("unbound"), fq, e)
            return
        for kind, val, pos in binds:
            if kind == "expr":
                self._trace(fq, val, depth + 1, seen, out, via)
            elif kind == "tuple":
                self._trace_tuple_pos(f, val, pos, depth + 1, seen, out, via)
            elif kind == "elem":
                self._trace_elements(f, val, pos, depth + 1, seen, out, via)
            elif kind == "enum1":
                self._emit(out, LINE1, fq, val)
            elif kind == "enum0":
                self._emit(out, ROW0, fq, val)
            elif kind == "aug":
                n = val
                if isinstance(n.op, (ast.Add, ast.Sub)) and isinstance(n.value, ast.Constant):
                    continue  # counters: the initial binding carries the dimension
                self._emit(out, TOP("augassign"), fq, n)

    def _dynamic_sites(self, f: Func, pname: str):
        """f is only referenced as a value (builder table): calls through a local callable with the same arity in the
        referencing modules are taken as its call sites."""
        out = []
        idx = self.L.param_index(f, pname)
        nparams = len(f.node.args.args) - (1 if f.cls is not None else 0)
        mods = {s["module"] for s in self.cg.inn.get(f.qual, ()) if s["kind"] == "ref"}
        for mn in mods:
            m = self.repo.modules[mn]
            for g in [x for x in self.repo.funcs.values() if x.module is m]:
                for n in ast.walk(g.node):
                    if not (isinstance(n, ast.Call) and isinstance(n.func, ast.Name)):
                        continue
                    if len(n.args) + len(n.keywords) != nparams or any(k.arg is None for k in n.keywords):
                        continue
                    if any(isinstance(x, ast.Starred) for x in n.args):
                        continue
                    site = self.cg.site_at(mn, n.lineno, n.col_offset)
                    if site is None or site["resolved"] or idx is None:
                        continue
                    if idx < len(n.args):
                        out.append((dict(caller=g.qual), n, n.args[idx]))
                    else:
                        kw = [k.value for k in n.keywords if k.arg == pname]
                        if kw:
                            out.append((dict(caller=g.qual), n, kw[0]))
        return out

    def _bindings(self, target, value, name):
        if isinstance(target, ast.Name) and target.id == name:
            return [("expr", value, None)]
        if isinstance(target, (ast.Tuple, ast.List)):
            for i, t in enumerate(target.elts):
                if isinstance(t, ast.Name) and t.id == name:
                    if isinstance(value, (ast.Tuple, ast.List)) and len(value.elts) == len(target.elts):
                        return [("expr", value.elts[i], None)]
                    return [("tuple", value, i)]
        return []

    def _loop_bindings(self, target, it, name):
        # for i, x in enumerate(xs, 1)
        if isinstance(it, ast.Call) and call_name(it) == "enumerate" and isinstance(target, (ast.Tuple, ast.List)) and target.elts:
            t0 = target.elts[0]
            if isinstance(t0, ast.Name) and t0.id == name:
                start = it.args[1] if len(it.args) > 1 else next((k.value for k in it.keywords if k.arg == "start"), None)
                if start is None or (isinstance(start, ast.Constant) and start.value == 0):
                    return [("enum0", it, None)]
                if isinstance(start, ast.Constant) and start.value == 1:
                    return [("enum1", it, None)]
                return [("expr", start, None)]
            rest = target.elts[1] if len(target.elts) > 1 else None
            if isinstance(rest, ast.Name) and rest.id == name:
                return [("elem", it.args[0], None)] if it.args else []
            if isinstance(rest, (ast.Tuple, ast.List)):
                for i, t in enumerate(rest.elts):
                    if isinstance(t, ast.Name) and t.id == name and it.args:
                        return [("elem", it.args[0], i)]
            return []
        if isinstance(target, ast.Name) and target.id == name:
            return [("elem", it, None)]
        if isinstance(target, (ast.Tuple, ast.List)):
            for i, t in enumerate(target.elts):
                if isinstance(t, ast.Name) and t.id == name:
                    return [("elem", it, i)]
        return []

    def _trace_tuple_pos(self, f: Func, value: ast.expr, pos: int, depth, seen, out, via):
        """position `pos` of a tuple-valued expression"""
        fq = f.qual
        if isinstance(value, (ast.Tuple, ast.List)) and pos < len(value.elts):
            self._trace(fq, value.elts[pos], depth, seen, out, via)
            return
        if isinstance(value, ast.Name):
            # parameter holding a tuple / local bound to a tuple
            a = f.node.args
            pn = [x.arg for x in a.posonlyargs + a.args + a.kwonlyargs]
            stores = [n.value for n in ast.walk(f.node) if isinstance(n, ast.Assign) and any(isinstance(t, ast.Name) and t.id == value.id for t in n.targets)]
            if stores:
                for sv in stores:
                    self._trace_tuple_pos(f, sv, pos, depth + 1, seen, out, via)
                return
            loops = []
            for n in ast.walk(f.node):
                if isinstance(n, (ast.For, ast.comprehension)) and isinstance(n.target, ast.Name) and n.target.id == value.id:
                    loops.append(n.iter)
            if loops:
                for it in loops:
                    self._trace_elements(f, it, pos, depth + 1, seen, out, via)
                return
            if value.id in pn:
                for s, call, ae in self.L.arg_exprs(fq, value.id):
                    if ae is not None:
                        g = self.repo.funcs.get(s["caller"])
                        if g is not None:
                            self._trace_tuple_pos(g, ae, pos, depth + 1, seen, out, via)
                return
        if isinstance(value, ast.Call):
            site = self.cg.site_at(f.module.name, value.lineno, value.col_offset)
            hit = False
            if site is not None:
                for cq in site["callees"]:
                    g = self.repo.funcs.get(cq)
                    if g is None:
                        continue
                    for n in ast.walk(g.node):
                        if isinstance(n, ast.Return) and n.value is not None and self._owner(g, n):
                            hit = True
                            self._trace_tuple_pos(g, n.value, pos, depth + 1, seen, out, via)
            if hit:
                return
        self._emit(out, TOP("tuple-source"), fq, value)

    def _trace_elements(self, f: Func, it: ast.expr, pos: int | None, depth, seen, out, via):
        """elements (or tuple position pos of the elements) of an iterable expression"""
        fq = f.qual
        if depth > MAX_DEPTH:
            self._emit(out, TOP("depth"), fq, it)
            return
        if isinstance(it, (ast.List, ast.Tuple, ast.Set)):
            for x in it.elts:
                if pos is None:
                    self._trace(fq, x, depth, seen, out, via)
                else:
                    self._trace_tuple_pos(f, x, pos, depth, seen, out, via)
            return
        if isinstance(it, (ast.ListComp, ast.GeneratorExp, ast.SetComp)):
            if pos is None:
                self._trace(fq, it.elt, depth, seen, out, via)
            else:
                self._trace_tuple_pos(f, it.elt, pos, depth, seen, out, via)
            return
        if isinstance(it, ast.Call) and isinstance(it.func, ast.Name) and it.func.id in ("sorted", "list", "reversed", "tuple", "set") and it.args:
            self._trace_elements(f, it.args[0], pos, depth, seen, out, via)
            return
        if isinstance(it, ast.Name) or (isinstance(it, ast.Attribute) and isinstance(it.value, ast.Name) and it.value.id == "self"):
            key = it.id if isinstance(it, ast.Name) else it.attr
            # appended elements inside this function / class
            funcs = [f]
            if isinstance(it, ast.Attribute) and f.cls is not None:
                funcs = list(f.cls.methods.values())
            found = False
            for g in funcs:
                for n in ast.walk(g.node):
                    if isinstance(n, ast.Call) and isinstance(n.func, ast.Attribute) and n.func.attr in ("append", "add") and n.args:
                        tgt = n.func.value
                        tk = tgt.id if isinstance(tgt, ast.Name) else tgt.attr if isinstance(tgt, ast.Attribute) else None
                        if tk == key:
                            found = True
                            if pos is None:
                                self._trace(g.qual, n.args[0], depth + 1, seen, out, via)
                            else:
                                self._trace_tuple_pos(g, n.args[0], pos, depth + 1, seen, out, via)
                    if isinstance(n, ast.Assign) and any((isinstance(t, ast.Name) and t.id == key) or (isinstance(t, ast.Attribute) and t.attr == key) for t in n.targets):
                        if not (isinstance(n.value, (ast.List, ast.Tuple)) and not n.value.elts):
                            found = True
                            self._trace_elements(g, n.value, pos, depth + 1, seen, out, via)
            if isinstance(it, ast.Name):
                # passed as an out-parameter: callee appends to its parameter
                for n in ast.walk(f.node):
                    if isinstance(n, ast.Call) and any(isinstance(a_, ast.Name) and a_.id == it.id for a_ in n.args) and call_name(n) not in ("append", "extend", "len", "sorted", "list"):
                        site = self.cg.site_at(f.module.name, n.lineno, n.col_offset)
                        if site is None:
                            continue
                        i = next(j for j, a_ in enumerate(n.args) if isinstance(a_, ast.Name) and a_.id == it.id)
                        for cq in site["callees"]:
                            g = self.repo.funcs.get(cq)
                            if g is None:
                                continue
                            ps = [x.arg for x in g.node.args.args]
                            off = 1 if g.cls is not None and ps and ps[0] in ("self", "cls") else 0
                            if i + off < len(ps) and (g.qual, ps[i + off], pos) not in seen:
                                seen.add((g.qual, ps[i + off], pos))
                                pname = ps[i + off]
                                for m_ in ast.walk(g.node):
                                    if isinstance(m_, ast.Call) and isinstance(m_.func, ast.Attribute) and m_.func.attr in ("append", "add") and isinstance(m_.func.value, ast.Name) and m_.func.value.id == pname and m_.args:
                                        found = True
                                        if pos is None:
                                            self._trace(g.qual, m_.args[0], depth + 1, seen, out, via)
                                        else:
                                            self._trace_tuple_pos(g, m_.args[0], pos, depth + 1, seen, out, via)
                a = f.node.args
                if it.id in [x.arg for x in a.posonlyargs + a.args + a.kwonlyargs]:
                    for s, call, ae in self.L.arg_exprs(fq, it.id):
                        if ae is not None:
                            g = self.repo.funcs.get(s["caller"])
                            if g is not None:
                                found = True
                                self._trace_elements(g, ae, pos, depth + 1, seen, out, via)
            if found:
                return
        if isinstance(it, ast.Call):
            site = self.cg.site_at(f.module.name, it.lineno, it.col_offset)
            hit = False
            if site is not None:
                for cq in site["callees"]:
                    g = self.repo.funcs.get(cq)
                    if g is None:
                        continue
                    for n in ast.walk(g.node):
                        if isinstance(n, ast.Return) and n.value is not None and self._owner(g, n):
                            hit = True
                            self._trace_elements(g, n.value, pos, depth + 1, seen, out, via)
            if hit:
                return
        self._emit(out, TOP("iterable"), fq, it)

    def _pkg(self, f: Func) -> str:
        parts = f.module.name.split(".")
        return ".".join(parts[:3]) if parts[:2] == ["src", "linters"] else ".".join(parts[:2])

    def _trace_field(self, f: Func, e: ast.Attribute, depth, seen, out, via):
        """X.field: join over the constructor keyword sites of dataclasses with that field in the same package."""
        fq = f.qual
        pkg = self._pkg(f)
        key = (pkg, e.attr)
        if key not in self._field_sites:
            sites = []
            classes = [c for q, c in self.repo.classes.items() if q.startswith(pkg) and any(e.attr in self.repo.classes[b].annots for b in self.repo.mro(q) if b in self.repo.classes)]
            for c in classes:
                for s in self.cg.inn.get(f"new:{c.qual}", ()):
                    if s["kind"] != "call":
                        continue
                    call = self.L.idx.call_at(s["module"], s["span"])
                    if call is None:
                        continue
                    val = None
                    for k in call.keywords:
                        if k.arg == e.attr:
                            val = k.value
                    if val is None and e.attr in c.annots:
                        order = list(c.annots)
                        i = order.index(e.attr)
                        if i < len(call.args):
                            val = call.args[i]
                    if val is not None:
                        sites.append((s["caller"], val))
            # plain classes: self.field = <expr> in __init__
            for q, c in self.repo.classes.items():
                if q.startswith(pkg) and not any(e.attr in self.repo.classes[b].annots for b in self.repo.mro(q) if b in self.repo.classes):
                    for m in c.methods.values():
                        for n in ast.walk(m.node):
                            if isinstance(n, ast.Assign) and any(isinstance(t, ast.Attribute) and t.attr == e.attr and isinstance(t.value, ast.Name) and t.value.id == "self" for t in n.targets):
                                sites.append((m.qual, n.value))
            self._field_sites[key] = sites
        sites = self._field_sites[key]
        if not sites:
            self._emit(out, TOP(f"field:{e.attr}"), fq, e)
            return
        for cq, val in sites:
            self._trace(cq, val, depth + 1, seen, out, via)

    def _trace_dict_key(self, f: Func, e: ast.Subscript, depth, seen, out, via):
        fq = f.qual
        pkg = self._pkg(f)
        k = e.slice.value
        key = (pkg, k)
        if key not in self._dict_sites:
            sites = []
            for g in self.repo.funcs.values():
                if not g.module.name.startswith(pkg):
                    continue
                for n in ast.walk(g.node):
                    if isinstance(n, ast.Dict):
                        for kk, vv in zip(n.keys, n.values):
                            if isinstance(kk, ast.Constant) and kk.value == k:
                                sites.append((g.qual, vv))
            self._dict_sites[key] = sites
        sites = self._dict_sites[key]
        if not sites:
            self._emit(out, TOP(f"key:{k}"), fq, e)
            return
        for cq, val in sites:
            self._trace(cq, val, depth + 1, seen, out, via)
