"""Facts about the click linter commands in src/cli/linters/*.py."""

from __future__ import annotations

import ast
from dataclasses import dataclass, field

from .facts import UNKNOWN, Func, Repo, call_name, dotted, norm
from .report import AnalysisError

CLI_PKG = "src.cli.linters"


@dataclass
class Command:
    name: str
    module: str
    execute: Func
    entry: Func | None  # the click-decorated function (None for create_linter_command)
    run_fn: Func | None
    preds: list[tuple[str, str]] = field(default_factory=list)  # mandatory rule-id predicates
    opt_preds: list[tuple[str, str]] = field(default_factory=list)
    tail_var: str | None = None
    tail_ok: bool = False
    tail_note: str = ""
    options: list[str] = field(default_factory=list)


def _pred_of(test: ast.expr, repo: Repo, f: Func) -> list[tuple[str, str]]:
    out = []
    for n in ast.walk(test):
        if isinstance(n, ast.Compare) and len(n.ops) == 1:
            l, r = n.left, n.comparators[0]
            if isinstance(n.ops[0], ast.In) and isinstance(r, ast.Attribute) and r.attr == "rule_id":
                v = repo.fold(f.module, l, f.cls)
                out.append(("contains", v if isinstance(v, str) else f"?{norm(l)}"))
            elif isinstance(n.ops[0], ast.Eq) and ((isinstance(l, ast.Attribute) and l.attr == "rule_id") or (isinstance(r, ast.Attribute) and r.attr == "rule_id")):
                other = r if isinstance(l, ast.Attribute) and l.attr == "rule_id" else l
                v = repo.fold(f.module, other, f.cls)
                out.append(("eq", v if isinstance(v, str) else f"?{norm(other)}"))
        elif isinstance(n, ast.Call) and isinstance(n.func, ast.Attribute) and n.func.attr == "startswith" and isinstance(n.func.value, ast.Attribute) and n.func.value.attr == "rule_id" and n.args:
            v = repo.fold(f.module, n.args[0], f.cls)
            out.append(("startswith", v if isinstance(v, str) else f"?{norm(n.args[0])}"))
    return out


def _filters_in(repo: Repo, f: Func) -> list[tuple[str, str]]:
    out = []
    for n in ast.walk(f.node):
        if isinstance(n, (ast.ListComp, ast.GeneratorExp)):
            for g in n.generators:
                for cond in g.ifs:
                    out.extend(_pred_of(cond, repo, f))
        elif isinstance(n, ast.Call) and call_name(n) in ("filter_violations_by_prefix", "filter_violations_by_startswith") and len(n.args) >= 2:
            v = repo.fold(f.module, n.args[1], f.cls)
            out.append(("contains" if call_name(n).endswith("prefix") else "startswith", v if isinstance(v, str) else f"?{norm(n.args[1])}"))
    return out


def matches(pred: tuple[str, str], rid: str) -> bool:
    op, c = pred
    if op == "contains":
        return c in rid
    if op == "startswith":
        return rid.startswith(c)
    if op == "eq":
        return rid == c
    return False


def commands(repo: Repo) -> list[Command]:
    cmds: list[Command] = []
    mods = [m for m in repo.modules_in(CLI_PKG) if m.name not in (CLI_PKG, f"{CLI_PKG}.shared")]
    for m in mods:
        execs = {f.name: f for f in repo.funcs.values() if f.module is m and f.name.startswith("_execute_") and f.parent is None}
        # create_linter_command("name", _execute_x, ...)
        for st in m.tree.body:
            call = st.value if isinstance(st, (ast.Assign, ast.Expr)) and isinstance(st.value, ast.Call) else None
            if call is not None and call_name(call) == "create_linter_command" and len(call.args) >= 2:
                nm = repo.fold(m, call.args[0])
                ex = call.args[1]
                if isinstance(nm, str) and isinstance(ex, ast.Name) and ex.id in execs:
                    cmds.append(Command(name=nm, module=m.name, execute=execs[ex.id], entry=None, run_fn=None))
        # @cli.command("name") def fn(...): ... _execute_x(...)
        for f in repo.funcs.values():
            if f.module is not m or f.parent is not None:
                continue
            nm = None
            opts = []
            for d in f.node.decorator_list:
                if isinstance(d, ast.Call) and dotted(d.func) in ("cli.command", "click.command") and d.args:
                    v = repo.fold(m, d.args[0])
                    nm = v if isinstance(v, str) else None
                if isinstance(d, ast.Call) and dotted(d.func) == "click.option" and d.args:
                    v = repo.fold(m, d.args[0])
                    if isinstance(v, str):
                        opts.append(v)
            if nm is None:
                continue
            called = [n.func.id for n in ast.walk(f.node) if isinstance(n, ast.Call) and isinstance(n.func, ast.Name) and n.func.id in execs]
            for ex in dict.fromkeys(called):
                cmds.append(Command(name=nm, module=m.name, execute=execs[ex], entry=f, run_fn=None, options=opts))
    for c in cmds:
        _analyse_tail(repo, c)
    return cmds


def _analyse_tail(repo: Repo, c: Command) -> None:
    f = c.execute
    body = f.node.body
    # tail: format_violations(V, fmt) immediately followed by sys.exit(1 if V else 0)
    for i, st in enumerate(body):
        if isinstance(st, ast.Expr) and isinstance(st.value, ast.Call) and call_name(st.value) == "format_violations":
            v = st.value.args[0] if st.value.args else None
            c.tail_var = v.id if isinstance(v, ast.Name) else None
            nxt = body[i + 1] if i + 1 < len(body) else None
            ok = False
            note = "format_violations is not followed by sys.exit"
            if isinstance(nxt, ast.Expr) and isinstance(nxt.value, ast.Call) and dotted(nxt.value.func) == "sys.exit" and nxt.value.args:
                a = nxt.value.args[0]
                if (isinstance(a, ast.IfExp) and isinstance(a.test, ast.Name) and a.test.id == c.tail_var and isinstance(a.body, ast.Constant) and a.body.value == 1
                        and isinstance(a.orelse, ast.Constant) and a.orelse.value == 0):
                    ok = True
                    note = f"sys.exit(1 if {c.tail_var} else 0)"
                else:
                    note = f"exit expression is {norm(a)}"
            if i + 2 != len(body) and ok:
                ok = False
                note = "statements follow the exit tail"
            c.tail_ok = ok and c.tail_var is not None
            c.tail_note = note
    # where does the tail variable come from
    run_fn = None
    if c.tail_var:
        for n in ast.walk(f.node):
            if isinstance(n, ast.Assign) and any(isinstance(t, ast.Name) and t.id == c.tail_var for t in n.targets):
                if isinstance(n.value, ast.Call) and isinstance(n.value.func, ast.Name):
                    g = repo.funcs.get(f"{f.module.name}.{n.value.func.id}")
                    if g is not None:
                        run_fn = g
                elif isinstance(n.value, (ast.ListComp,)):
                    pass
    c.run_fn = run_fn
    c.preds = _filters_in(repo, f)
    if run_fn is not None:
        c.preds += _filters_in(repo, run_fn)
        for n in ast.walk(run_fn.node):
            if isinstance(n, ast.Call) and isinstance(n.func, ast.Name):
                g = repo.funcs.get(f"{f.module.name}.{n.func.id}")
                if g is not None and g is not run_fn:
                    c.opt_preds += _filters_in(repo, g)
