"""Replay: re-evaluate the rule instance recorded in a replay file on the current tree."""

from __future__ import annotations

import io
import json
import contextlib

from .main import run_property


def replay(prop: str, path: str, root: str) -> int:
    with open(path) as fh:
        rec = json.load(fh)
    key = rec["key"]
    print(f"replay property={prop} rule={key['rule']} symbol={key['symbol']}")
    print(f"  construct: {key['construct']}")
    print(f"  recorded : {rec['what']} [{rec.get('loc','')}]")
    for p in rec.get("path", []):
        print(f"    via {p}")
    import tempfile, shutil, os

    tmp = tempfile.mkdtemp(prefix="tlsa-replay-")
    try:
        buf = io.StringIO()
        with contextlib.redirect_stdout(buf):
            run_property(prop, "quick", root, evidence_dir=tmp)
        ev = json.load(open(os.path.join(tmp, f"{prop}.json")))
    finally:
        shutil.rmtree(tmp, ignore_errors=True)
    still = [s for s in ev["coverage"].get("samples", []) if s.get("verdict") == "finding" and s.get("rule") == key["rule"] and s.get("symbol") == key["symbol"] and s.get("construct") == key["construct"]]
    out = buf.getvalue()
    hit = f"{key['rule']} {key['symbol']}" in out and key["construct"] in out
    if still or hit:
        print("  current tree: STILL VIOLATED")
        print(f"VIOLATION property={prop} replay={path}")
        return 1
    print("  current tree: instance passes (or construct no longer exists)")
    return 0
