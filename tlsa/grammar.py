"""Node-kind vocabularies of the tree-sitter grammars thai-lint links against (read as data:
only the generated symbol tables are consulted, no source text is parsed)."""

from __future__ import annotations

from dataclasses import dataclass


@dataclass
class Vocab:
    named: set[str]
    anonymous: set[str]
    fields: set[str]


def _vocab(lang) -> Vocab:
    named, anon = set(), set()
    for i in range(lang.node_kind_count):
        k = lang.node_kind_for_id(i)
        if k is None:
            continue
        if lang.node_kind_is_named(i):
            named.add(k)
        else:
            anon.add(k)
    fields = set()
    for i in range(1, lang.field_count + 1):
        n = lang.field_name_for_id(i)
        if n:
            fields.add(n)
    return Vocab(named, anon, fields)


def load() -> dict[str, Vocab]:
    import tree_sitter
    import tree_sitter_rust
    import tree_sitter_typescript

    ts = _vocab(tree_sitter.Language(tree_sitter_typescript.language_typescript()))
    tsx = _vocab(tree_sitter.Language(tree_sitter_typescript.language_tsx()))
    rs = _vocab(tree_sitter.Language(tree_sitter_rust.language()))
    tsall = Vocab(ts.named | tsx.named, ts.anonymous | tsx.anonymous, ts.fields | tsx.fields)
    return {"typescript": tsall, "rust": rs}
