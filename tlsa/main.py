"""Entry point: python -m tlsa.main <PROP> [--tier quick|thorough] [--root DIR] [--replay FILE]"""

from __future__ import annotations

import argparse
import importlib
import json
import os
import sys
import traceback

from . import REPO, VERIF
from .facts import AnchorVanished, Repo
from .report import AnalysisError, Run


class Ctx:
    def __init__(self, root: str, tier: str):
        self.root = root
        self.tier = tier
        self.repo = Repo(root)
        from . import inline as _inl

        _inl.set_repo(self.repo)
        self._cg = None
        self._gram = None

    @property
    def cg(self):
        if self._cg is None:
            from . import cg

            self._cg = cg.load(self.repo)
        return self._cg

    @property
    def grammar(self):
        if self._gram is None:
            from . import grammar

            self._gram = grammar.load()
        return self._gram

    def text(self, rel: str) -> str:
        from .facts import read_text

        return read_text(rel, self.root)


def run_property(prop: str, tier: str, root: str, evidence_dir: str | None = None, known_path: str | None = None) -> int:
    seed = int(os.environ.get("VERIF_SEED", "0") or 0)
    run = Run(prop, tier, root, seed)
    scratch = None
    try:
        mod = importlib.import_module(f"tlsa.props.{prop.lower()}")
        from . import canon

        aroot, renames, scratch = canon.canonical_root(root)
        for new_name, old_name in sorted(renames.items()):
            print(f"[{prop}] note: private anchor `{old_name}` was renamed to `{new_name}` (same module, same parameters, matching body, no other use of either name): analysed under its reference name")
        ctx = Ctx(aroot, tier)
        explanation = mod.check(run, ctx)
        if renames:
            explanation = (explanation or mod.__doc__ or prop) + " [analysed after undoing the rename of " + ", ".join(f"{o}->{n}" for n, o in sorted(renames.items())) + "]"
        baseline = getattr(mod, "BASELINE", None)
        return run.finish(explanation or mod.__doc__ or prop, known_path=known_path, evidence_dir=evidence_dir, baseline=baseline)
    except (AnchorVanished, AnalysisError) as e:
        print(f"ANALYSIS-ERROR property={prop} anchor-vanished: {e}")
        _write_error_evidence(run, str(e), evidence_dir)
        return 2
    except Exception as e:  # noqa: BLE001
        traceback.print_exc()
        print(f"ANALYSIS-ERROR property={prop} internal: {e!r}")
        _write_error_evidence(run, repr(e), evidence_dir)
        return 2
    finally:
        if scratch:
            import shutil

            shutil.rmtree(scratch, ignore_errors=True)


def _write_error_evidence(run: Run, msg: str, evidence_dir: str | None) -> None:
    import time

    evidence_dir = evidence_dir or os.path.join(VERIF, "evidence")
    os.makedirs(evidence_dir, exist_ok=True)
    ev = dict(
        property_id=run.prop,
        tier=run.tier,
        seed=run.seed,
        level="other",
        coverage=dict(explanation=f"ANALYSIS-ERROR: {msg} - nothing was decided by this run", evaluations=0, distinct_nontrivial=0),
        wall_s=round(time.time() - run.t0, 3),
        violations=0,
    )
    with open(os.path.join(evidence_dir, f"{run.prop}.json"), "w") as fh:
        json.dump(ev, fh, indent=1)


def main(argv: list[str] | None = None) -> int:
    ap = argparse.ArgumentParser()
    ap.add_argument("prop")
    ap.add_argument("--tier", default=os.environ.get("VERIF_TIER") or "quick", choices=["quick", "thorough"])
    ap.add_argument("--root", default=REPO)
    ap.add_argument("--replay", default=None)
    ap.add_argument("--evidence-dir", default=None)
    ap.add_argument("--known", default=None)
    a = ap.parse_args(argv)
    if a.replay:
        from .replay import replay

        return replay(a.prop, a.replay, a.root)
    rc = run_property(a.prop, a.tier, a.root, a.evidence_dir, a.known)
    if rc == 0 and a.tier == "thorough" and a.root == REPO:
        from .audit import runner

        rc = runner.audit_property(a.prop)
    return rc


if __name__ == "__main__":
    sys.exit(main())
