"""Static back-tracking analysis of the regular expressions in /repo (regex ASTs from re._parser, nothing is matched).

For every pattern we compute the *ambiguity degree*: the longest run, inside one concatenation, of unbounded
repeats of single-character classes that (a) are adjacent up to items that can match the empty string, (b) all
admit one common character c and (c) are followed by something that can fail.  On the input c^n such a run of k
repeats is tried in Theta(n^k) ways before the match fails (n^(k+1) when the search is not anchored).  A repeat
whose body itself contains an unbounded repeat over a shared character (`(a+)+`) is exponential (degree 99).
Degrees <= 2 are ordinary (a trailing-whitespace strip is quadratic only on pathological lines); degree >= 3 on
text of file size is a hang for a few thousand characters.
"""

from __future__ import annotations

import ast
import re
import re._constants as C
import re._parser as P

ALPHABET = [chr(i) for i in range(9, 14)] + [chr(i) for i in range(32, 127)] + ["é", " "]
RE_FUNCS = {"compile", "match", "search", "fullmatch", "sub", "subn", "split", "findall", "finditer"}
FLAG_NAMES = {"DOTALL": re.DOTALL, "S": re.DOTALL, "MULTILINE": re.MULTILINE, "M": re.MULTILINE, "IGNORECASE": re.IGNORECASE, "I": re.IGNORECASE,
              "VERBOSE": re.VERBOSE, "X": re.VERBOSE, "ASCII": re.ASCII, "A": re.ASCII, "UNICODE": re.UNICODE, "U": re.UNICODE}


def fold_flags(e: ast.expr | None) -> int | None:
    if e is None:
        return 0
    if isinstance(e, ast.Constant) and isinstance(e.value, int):
        return e.value
    if isinstance(e, ast.Attribute) and isinstance(e.value, ast.Name) and e.value.id == "re" and e.attr in FLAG_NAMES:
        return int(FLAG_NAMES[e.attr])
    if isinstance(e, ast.BinOp) and isinstance(e.op, ast.BitOr):
        a, b = fold_flags(e.left), fold_flags(e.right)
        return None if a is None or b is None else a | b
    return None


def _class_set(op, av, flags: int) -> frozenset[str] | None:
    """Characters of ALPHABET a single-character item can match (None: not a single-character item)."""
    name = str(op)
    if name == "ANY":
        return frozenset(ch for ch in ALPHABET if flags & re.DOTALL or ch != "\n")
    if name in ("LITERAL", "NOT_LITERAL"):
        s = frozenset(ch for ch in ALPHABET if (ord(ch) == av) or (flags & re.IGNORECASE and ch.lower() == chr(av).lower()))
        return s if name == "LITERAL" else frozenset(ALPHABET) - s
    if name == "IN":
        try:
            pat = re.compile("[" + "x" + "]")  # placeholder to keep linters quiet
        except re.error:  # pragma: no cover
            return None
        del pat
        out = set()
        negate = False
        for k, v in av:
            kn = str(k)
            if kn == "NEGATE":
                negate = True
            elif kn == "LITERAL":
                out |= {ch for ch in ALPHABET if ord(ch) == v}
            elif kn == "RANGE":
                out |= {ch for ch in ALPHABET if v[0] <= ord(ch) <= v[1]}
            elif kn == "CATEGORY":
                out |= _category(v)
        if flags & re.IGNORECASE:
            out |= {ch for ch in ALPHABET if ch.lower() in {o.lower() for o in out}}
        return frozenset(set(ALPHABET) - out) if negate else frozenset(out)
    if name == "CATEGORY":
        return frozenset(_category(av))
    return None


def _category(v) -> set[str]:
    n = str(v)
    table = {
        "CATEGORY_SPACE": lambda ch: ch.isspace(), "CATEGORY_NOT_SPACE": lambda ch: not ch.isspace(),
        "CATEGORY_DIGIT": lambda ch: ch.isdigit(), "CATEGORY_NOT_DIGIT": lambda ch: not ch.isdigit(),
        "CATEGORY_WORD": lambda ch: ch.isalnum() or ch == "_", "CATEGORY_NOT_WORD": lambda ch: not (ch.isalnum() or ch == "_"),
    }
    f = table.get(n)
    return {ch for ch in ALPHABET if f(ch)} if f else set(ALPHABET)


def _can_be_empty(items) -> bool:
    return all(_item_min(op, av) == 0 for op, av in items)


def _item_min(op, av) -> int:
    name = str(op)
    if name in ("AT", "ASSERT", "ASSERT_NOT", "GROUPREF_EXISTS"):
        return 0
    if name in ("MAX_REPEAT", "MIN_REPEAT", "POSSESSIVE_REPEAT"):
        lo, _hi, sub = av
        return 0 if lo == 0 else sum(_item_min(o, a) for o, a in sub)
    if name == "SUBPATTERN":
        return sum(_item_min(o, a) for o, a in av[3])
    if name == "ATOMIC_GROUP":
        return sum(_item_min(o, a) for o, a in av)
    if name == "BRANCH":
        return min(sum(_item_min(o, a) for o, a in alt) for alt in av[1])
    if name == "GROUPREF":
        return 0
    return 1


def _flatten(items):
    """Inline capture groups so that `\\s*(.*?)\\s*` is one concatenation of three repeats."""
    out = []
    for op, av in items:
        if str(op) == "SUBPATTERN":
            out.extend(_flatten(av[3]))
        else:
            out.append((op, av))
    return out


def _star_set(op, av, flags) -> frozenset[str] | None:
    """The character set of an unbounded repeat of one single-character item (else None)."""
    if str(op) not in ("MAX_REPEAT", "MIN_REPEAT"):
        return None
    lo, hi, sub = av
    if hi != C.MAXREPEAT:
        return None
    body = _flatten(list(sub))
    if len(body) != 1:
        return None
    return _class_set(body[0][0], body[0][1], flags)


def _all_chars(items, flags) -> frozenset[str]:
    out: set[str] = set()
    for op, av in _flatten(list(items)):
        s = _class_set(op, av, flags)
        if s is not None:
            out |= s
            continue
        name = str(op)
        if name in ("MAX_REPEAT", "MIN_REPEAT", "POSSESSIVE_REPEAT"):
            out |= _all_chars(av[2], flags)
        elif name == "BRANCH":
            for alt in av[1]:
                out |= _all_chars(alt, flags)
        elif name == "ATOMIC_GROUP":
            out |= _all_chars(av, flags)
    return frozenset(out)


def degree(items, flags: int) -> tuple[int, str]:
    """(ambiguity degree, witness description) of a parsed pattern / sub-pattern."""
    seq = _flatten(list(items))
    best, why = 0, ""
    # nested unbounded repeats sharing a character: exponential
    for op, av in seq:
        name = str(op)
        if name in ("MAX_REPEAT", "MIN_REPEAT"):
            lo, hi, sub = av
            inner = _flatten(list(sub))
            if hi == C.MAXREPEAT and len(inner) > 1 or (hi == C.MAXREPEAT and len(inner) == 1 and _class_set(inner[0][0], inner[0][1], flags) is None):
                for iop, iav in inner:
                    if str(iop) in ("MAX_REPEAT", "MIN_REPEAT") and iav[1] == C.MAXREPEAT:
                        shared = _all_chars(iav[2], flags)
                        rest = _all_chars([x for x in inner if x is not (iop, iav)], flags)
                        others_empty = _can_be_empty([x for x in inner if not (x[0] is iop and x[1] is iav)])
                        if shared and others_empty:
                            return 99, f"an unbounded repeat inside an unbounded repeat whose other items can be empty (shared characters {sorted(shared)[:3]})"
                        del rest
            d, w = degree(sub, flags)
            if d > best:
                best, why = d, w
        elif name == "BRANCH":
            for alt in av[1]:
                d, w = degree(alt, flags)
                if d > best:
                    best, why = d, w
        elif name in ("ASSERT", "ASSERT_NOT"):
            d, w = degree(av[1], flags)
            if d > best:
                best, why = d, w
        elif name == "ATOMIC_GROUP":
            d, w = degree(av, flags)
            if d > best:
                best, why = d, w
    # runs of adjacent unbounded single-class repeats with a common character, followed by something that can fail
    n = len(seq)
    for i in range(n):
        common = None
        k = 0
        j = i
        while j < n:
            op, av = seq[j]
            s = _star_set(op, av, flags)
            if s is not None:
                nc = s if common is None else common & s
                if not nc:
                    break
                common = nc
                k += 1
                j += 1
                continue
            if _item_min(op, av) == 0 and str(op) != "AT":
                j += 1  # optional item between the repeats
                continue
            break
        tail = seq[j:]
        can_fail = any(_item_min(op, av) > 0 for op, av in tail)
        if k >= 2 and can_fail and k > best:
            best = k
            why = f"{k} adjacent unbounded repeats that all match {sorted(common)[:3]!r} before a required item"
    return best, why


def analyse(pattern: str, flags: int) -> tuple[int, str] | None:
    try:
        parsed = P.parse(pattern, flags)
    except Exception:  # noqa: BLE001  (invalid pattern: not our concern here)
        return None
    return degree(list(parsed), flags | parsed.state.flags)


def patterns_in(repo) -> list[dict]:
    """Every regex literal of src: re.<func>(<constant pattern>, ..., [flags]) with the pattern folded to a constant."""
    out = []
    for m in sorted(repo.modules.values(), key=lambda x: x.name):
        if not m.name.startswith("src"):
            continue
        tree = ast.parse(m.src)
        for n in ast.walk(tree):
            if not (isinstance(n, ast.Call) and isinstance(n.func, ast.Attribute) and isinstance(n.func.value, ast.Name) and n.func.value.id == "re" and n.func.attr in RE_FUNCS and n.args):
                continue
            pat = repo.fold(m, n.args[0])
            fl = None
            for k in n.keywords:
                if k.arg == "flags":
                    fl = k.value
            npos = {"compile": 1, "match": 2, "search": 2, "fullmatch": 2, "findall": 2, "finditer": 2, "split": 3, "sub": 4, "subn": 4}[n.func.attr]
            if fl is None and len(n.args) > npos:
                fl = n.args[npos]
            out.append(dict(module=m, line=n.lineno, func=n.func.attr, pattern=pat if isinstance(pat, str) else None, flags=fold_flags(fl), expr=ast.unparse(n.args[0])[:60]))
    return out
