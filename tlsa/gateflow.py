"""Gate-flow analysis (C04-I1 T3): does every constructed Violation pass an ignore-gate idiom
before it reaches check()/finalize()'s return?

Abstract value of an expression: which violation-construction sites (labels) it may carry
*ungated*, which it carries *gated*, plus symbolic parameters ($name) so that function summaries
can be instantiated at call sites, and callable-parameter results ($cb:name) for the
with_parsed_python(..., lambda tree: ...) idiom.  Path-sensitive over the structured CFG
(tlsa.cfg); a test event whose outcome implies "gate(v) returned False" turns v's labels gated.
Anything the follower cannot interpret makes the instance UNDECIDED, never a finding.
"""

from __future__ import annotations

import ast
from dataclasses import dataclass

from . import cfg
from .facts import Func, call_name, norm
from .linters import SINKS, Linters, RuleInfo
from .props import shared
from .util import body_without_doc, truth_of

GATE = "src.linter_config.ignore.IgnoreDirectiveParser.should_ignore_violation"
PASS_THROUGH = {"list", "sorted", "tuple", "reversed", "iter", "set", "frozenset", "filter_none"}
MAX_DEPTH = 12


@dataclass(frozen=True)
class Val:
    ung: frozenset = frozenset()
    gat: frozenset = frozenset()
    und: bool = False

    def join(self, o: "Val") -> "Val":
        return Val(self.ung | o.ung, self.gat | o.gat, self.und or o.und)

    def gate(self) -> "Val":
        return Val(frozenset(), self.gat | self.ung, self.und)

    @property
    def empty(self) -> bool:
        return not self.ung and not self.gat and not self.und


NONE = Val()


def joinall(vals) -> Val:
    out = NONE
    for v in vals:
        out = out.join(v)
    return out


class GateFlow:
    def __init__(self, ctx, L: Linters, rule: RuleInfo):
        self.ctx = ctx
        self.L = L
        self.repo = ctx.repo
        self.cg = ctx.cg
        self.rule = rule
        self.anc = set(self.repo.mro(rule.qual)) - {rule.qual}
        self.other_rules = {r.qual for r in L.rules if r.qual != rule.qual}
        self.summ: dict[str, Val] = {}
        self.muts: dict[str, dict[str, Val]] = {}
        self.active: set[str] = set()
        self.gates = gate_wrappers(ctx, L)
        self.seen_labels: set[str] = set()
        self.sink_by_site = {id(s["site"]): s for s in L.sinks()}
        self.notes: list[str] = []

    # -------------------------------------------------------- callees
    def callees(self, f: Func, call: ast.Call) -> tuple[list[str], dict | None]:
        site = self.cg.site_at(f.module.name, call.lineno, call.col_offset)
        if site is None:
            return [], None
        cs = site["callees"]
        if site["recv"] and any(rc in self.anc for rc in site["recv"]):
            fm = self.repo.find_method(self.rule.qual, site["name"])
            cs = [fm.qual] if fm is not None else []
        cs = [c for c in cs if c.rsplit(".", 1)[0] not in self.other_rules]
        return cs, site

    def is_gate_call_on(self, f: Func, n: ast.AST, var: str) -> bool:
        if not isinstance(n, ast.Call):
            return False
        cs, site = self.callees(f, n)
        if not any(c in self.gates for c in cs):
            # receivers typed Any (e.g. ignore_parser passed untyped): fall back on the method name
            if not (site is not None and not site["resolved"] and call_name(n) == "should_ignore_violation"):
                return False
        for a in list(n.args) + [k.value for k in n.keywords]:
            if isinstance(a, ast.Name) and a.id == var:
                return True
        return False

    # ------------------------------------------------------ summaries
    def summary(self, fq: str, depth: int) -> Val:
        if fq in self.summ:
            return self.summ[fq]
        f = self.repo.funcs.get(fq)
        if f is None:
            return NONE
        if fq in self.active or depth > MAX_DEPTH:
            return NONE
        if shared.is_syntax_error_builder(self.ctx, fq):
            self.summ[fq] = NONE
            return NONE
        self.active.add(fq)
        try:
            v = self._eval_func(f, depth)
        finally:
            self.active.discard(fq)
        self.summ[fq] = v
        return v

    def _eval_func(self, f: Func, depth: int) -> Val:
        paths = cfg.enumerate_paths(body_without_doc(f), limit=3000)
        if paths is None:
            self.notes.append(f"{f.qual}: too many paths")
            return Val(und=True)
        a = f.node.args
        params = [x.arg for x in a.posonlyargs + a.args + a.kwonlyargs]
        result = NONE
        for p in paths:
            env: dict[str, Val] = {pn: Val(ung=frozenset({f"${pn}"})) for pn in params if pn not in ("self", "cls")}
            nocontent = False
            for ev in p:
                if ev[0] == "test" and no_content_test(ev[1], ev[2]):
                    nocontent = True
                v = self._event(f, ev, env, depth)
                if nocontent and ev[0] == "return":
                    # nothing could hold a directive: vacuous gate (accepted idiom, see DESIGN C04-I1)
                    v = v.gate()
                result = result.join(v)
            # out-parameter idiom: values appended to a list parameter
            for pn in params:
                if pn in ("self", "cls") or pn not in env:
                    continue
                extra = Val(env[pn].ung - {f"${pn}"}, env[pn].gat, env[pn].und)
                if not extra.empty:
                    m = self.muts.setdefault(f.qual, {})
                    m[pn] = m.get(pn, NONE).join(extra)
        return result

    def _event(self, f: Func, ev, env: dict[str, Val], depth: int) -> Val:
        k = ev[0]
        out = NONE
        if k == "stmt":
            st = ev[1]
            if isinstance(st, ast.Assign):
                v = self.eval(f, st.value, env, depth)
                for t in st.targets:
                    self._bind(t, v, env)
            elif isinstance(st, ast.AnnAssign) and st.value is not None:
                self._bind(st.target, self.eval(f, st.value, env, depth), env)
            elif isinstance(st, ast.AugAssign):
                v = self.eval(f, st.value, env, depth)
                if isinstance(st.target, ast.Name):
                    env[st.target.id] = env.get(st.target.id, NONE).join(v)
            elif isinstance(st, ast.Expr):
                e = st.value
                if isinstance(e, (ast.Yield, ast.YieldFrom)) and e.value is not None:
                    out = self.eval(f, e.value, env, depth)
                elif isinstance(e, ast.Call) and isinstance(e.func, ast.Attribute) and e.func.attr in ("append", "extend", "insert", "add", "update", "appendleft"):
                    tgt = e.func.value
                    v = joinall(self.eval(f, a, env, depth) for a in e.args)
                    root = tgt
                    while True:
                        if isinstance(root, ast.Subscript):
                            root = root.value
                        elif isinstance(root, ast.Call) and isinstance(root.func, ast.Attribute) and root.func.attr in ("setdefault", "get"):
                            root = root.func.value
                        else:
                            break
                    if isinstance(root, ast.Name):
                        env[root.id] = env.get(root.id, NONE).join(v)
                    elif not v.empty:
                        key = ast.unparse(root)
                        env[key] = env.get(key, NONE).join(v)
                else:
                    self.eval(f, e, env, depth)
        elif k == "test":
            self._apply_test(f, ev[1], ev[2], env)
            self._walrus(f, ev[1], env, depth)
        elif k == "iter":
            n = ev[1]
            if ev[2] and isinstance(n, (ast.For, ast.AsyncFor)):
                self._bind(n.target, self.eval(f, n.iter, env, depth), env)
        elif k == "with":
            for it in ev[1].items:
                v = self.eval(f, it.context_expr, env, depth)
                if it.optional_vars is not None:
                    self._bind(it.optional_vars, v, env)
        elif k == "return":
            if ev[1].value is not None:
                out = self.eval(f, ev[1].value, env, depth)
        return out

    def _walrus(self, f, e, env, depth):
        for n in ast.walk(e):
            if isinstance(n, ast.NamedExpr) and isinstance(n.target, ast.Name):
                env[n.target.id] = self.eval(f, n.value, env, depth)

    def _bind(self, t: ast.AST, v: Val, env: dict[str, Val]) -> None:
        if isinstance(t, ast.Name):
            env[t.id] = v
        elif isinstance(t, (ast.Tuple, ast.List)):
            for e in t.elts:
                self._bind(e, v, env)
        elif isinstance(t, ast.Starred):
            self._bind(t.value, v, env)
        elif isinstance(t, (ast.Attribute, ast.Subscript)):
            if not v.empty:
                root = t
                while isinstance(root, ast.Subscript):
                    root = root.value
                key = root.id if isinstance(root, ast.Name) else ast.unparse(root)
                env[key] = env.get(key, NONE).join(v)

    def _apply_test(self, f: Func, test: ast.expr, taken: bool, env: dict[str, Val]) -> None:
        for var, val in list(env.items()):
            if not val.ung:
                continue
            r = truth_of(test, taken, lambda n, var=var: self.is_gate_call_on(f, n, var))
            if r is False:
                env[var] = val.gate()

    # ---------------------------------------------------------- exprs
    def eval(self, f: Func, e: ast.AST, env: dict[str, Val], depth: int) -> Val:
        if e is None:
            return NONE
        if isinstance(e, ast.Name):
            return env.get(e.id, NONE)
        if isinstance(e, ast.Constant):
            return NONE
        if isinstance(e, ast.Attribute):
            k = ast.unparse(e)
            if k in env:
                return env[k]
            return self.eval(f, e.value, env, depth)
        if isinstance(e, (ast.List, ast.Tuple, ast.Set)):
            return joinall(self.eval(f, x, env, depth) for x in e.elts)
        if isinstance(e, ast.Starred):
            return self.eval(f, e.value, env, depth)
        if isinstance(e, ast.BinOp):
            return self.eval(f, e.left, env, depth).join(self.eval(f, e.right, env, depth))
        if isinstance(e, ast.BoolOp):
            return joinall(self.eval(f, x, env, depth) for x in e.values)
        if isinstance(e, ast.IfExp):
            return self.eval(f, e.body, env, depth).join(self.eval(f, e.orelse, env, depth))
        if isinstance(e, ast.Subscript):
            return self.eval(f, e.value, env, depth)
        if isinstance(e, ast.Await):
            return self.eval(f, e.value, env, depth)
        if isinstance(e, ast.NamedExpr):
            v = self.eval(f, e.value, env, depth)
            if isinstance(e.target, ast.Name):
                env[e.target.id] = v
            return v
        if isinstance(e, (ast.ListComp, ast.GeneratorExp, ast.SetComp)):
            return self._comp(f, e, e.elt, env, depth)
        if isinstance(e, ast.DictComp):
            return self._comp(f, e, e.value, env, depth)
        if isinstance(e, ast.Dict):
            return joinall(self.eval(f, x, env, depth) for x in e.values if x is not None)
        if isinstance(e, ast.Lambda):
            return NONE
        if isinstance(e, ast.Call):
            return self._call(f, e, env, depth)
        return NONE

    def _comp(self, f, e, elt, env, depth) -> Val:
        env2 = dict(env)
        for g in e.generators:
            self._bind(g.target, self.eval(f, g.iter, env2, depth), env2)
            for cond in g.ifs:
                self._walrus(f, cond, env2, depth)
                self._apply_test(f, cond, True, env2)
        return self.eval(f, elt, env2, depth)

    def _call(self, f: Func, c: ast.Call, env: dict[str, Val], depth: int) -> Val:
        cs, site = self.callees(f, c)
        argvals = [self.eval(f, a, env, depth) for a in c.args]
        kwvals = {k.arg: self.eval(f, k.value, env, depth) for k in c.keywords}
        # direct construction
        if any(x in SINKS for x in cs):
            sk = self.sink_by_site.get(id(site)) if site is not None else None
            if sk is None:
                # construction inside the shared builder module: transparent (ViolationInfo -> Violation)
                return joinall(argvals).join(joinall(kwvals.values()))
            label = f"{sk['caller']}@{norm(sk['call'].func)}"
            if shared.is_syntax_error_builder(self.ctx, sk["caller"]):
                return NONE
            self.seen_labels.add(label)
            return Val(ung=frozenset({label}))
        name = call_name(c)
        # calling a callable parameter: on_success(tree)
        if isinstance(c.func, ast.Name) and c.func.id in env and any(s.startswith("$") for s in env[c.func.id].ung):
            syms = {s for s in env[c.func.id].ung if s.startswith("$")}
            return Val(ung=frozenset({f"$cb:{s[1:]}" for s in syms}))
        if isinstance(c.func, ast.Name) and c.func.id in PASS_THROUGH or (isinstance(c.func, ast.Attribute) and c.func.attr in ("copy", "values", "items", "get", "pop", "popleft") and not cs):
            base = self.eval(f, c.func.value, env, depth) if isinstance(c.func, ast.Attribute) else NONE
            return joinall(argvals).join(base)
        if isinstance(c.func, ast.Attribute) and c.func.attr in ("get", "values", "items", "copy", "pop") and all(not x.startswith("src.") for x in cs):
            return self.eval(f, c.func.value, env, depth)
        out = NONE
        repo_callees = [x for x in cs if x in self.repo.funcs]
        if not repo_callees:
            # chain(...), itertools etc.: pass arguments through
            if name in ("chain", "from_iterable", "filter", "map", "zip", "enumerate", "next", "max", "min"):
                return joinall(argvals).join(joinall(kwvals.values()))
            return NONE
        for cq in repo_callees:
            g = self.repo.funcs[cq]
            if g.name == "__init__" or cq in self.gates:
                continue
            s = self.summary(cq, depth + 1)
            out = out.join(self._instantiate(f, g, s, c, argvals, kwvals, env, depth))
            for pn, mv in self.muts.get(cq, {}).items():
                ae = self.L.call_arg(c, g, pn)
                if isinstance(ae, ast.Name):
                    inst = self._instantiate(f, g, mv, c, argvals, kwvals, env, depth)
                    env[ae.id] = env.get(ae.id, NONE).join(inst)
        return out

    def _instantiate(self, f: Func, g: Func, s: Val, c: ast.Call, argvals, kwvals, env, depth) -> Val:
        if not any(x.startswith("$") for x in s.ung | s.gat):
            return s
        a = g.node.args
        params = [x.arg for x in a.posonlyargs + a.args]
        if g.cls is not None and params and params[0] in ("self", "cls"):
            params = params[1:]
        bind: dict[str, Val] = {}
        bind_expr: dict[str, ast.AST] = {}
        for i, v in enumerate(argvals):
            if i < len(params):
                bind[params[i]] = v
                bind_expr[params[i]] = c.args[i]
        for k in c.keywords:
            if k.arg:
                bind[k.arg] = kwvals[k.arg]
                bind_expr[k.arg] = k.value
        ung, gat, und = set(), set(), s.und
        for lab in s.ung:
            if lab.startswith("$cb:"):
                pn = lab[4:]
                v = self._callable_result(f, bind_expr.get(pn), env, depth)
                ung |= v.ung
                gat |= v.gat
                und = und or v.und
            elif lab.startswith("$"):
                v = bind.get(lab[1:], NONE)
                ung |= v.ung
                gat |= v.gat
                und = und or v.und
            else:
                ung.add(lab)
        for lab in s.gat:
            if lab.startswith("$cb:"):
                v = self._callable_result(f, bind_expr.get(lab[4:]), env, depth)
                gat |= v.ung | v.gat
            elif lab.startswith("$"):
                v = bind.get(lab[1:], NONE)
                gat |= v.ung | v.gat
            else:
                gat.add(lab)
        return Val(frozenset(ung), frozenset(gat), und)

    def _callable_result(self, f: Func, e: ast.AST | None, env, depth) -> Val:
        if e is None:
            return NONE
        if isinstance(e, ast.Lambda):
            env2 = dict(env)
            for a in e.args.args:
                env2[a.arg] = NONE
            return self.eval(f, e.body, env2, depth)
        site = None
        # function reference: self._foo / foo
        for s in self.cg.out.get(f.qual, ()):
            if s["kind"] == "ref" and s["span"][0] == e.lineno and abs(s["span"][1] - e.col_offset) <= 1:
                site = s
            if s["kind"] == "classref" and s["span"][0] == e.lineno and abs(s["span"][1] - e.col_offset) <= 1:
                return NONE
        if site is not None:
            return joinall(self.summary(cq, depth + 1) for cq in site["callees"] if cq in self.repo.funcs)
        if isinstance(e, ast.Name) and e.id in env:
            v = env[e.id]
            return Val(ung=frozenset({f"$cb:{s[1:]}" for s in v.ung if s.startswith("$")}))
        return Val(und=True)


# ------------------------------------------------------------------ gates
_GATE_CACHE: dict[int, dict[str, set[str]]] = {}


def gate_wrappers(ctx, L: Linters) -> dict[str, set[str]]:
    """Functions that forward a violation parameter to the shared gate on every path that does not
    return constant True (or that exits early because there is no file content to hold a directive).
    -> {function qual: {gated parameter names}}"""
    key = id(ctx)
    if key in _GATE_CACHE:
        return _GATE_CACHE[key]
    repo, cg = ctx.repo, ctx.cg
    gates: dict[str, set[str]] = {GATE: {"violation"}}
    changed = True
    rounds = 0
    while changed and rounds < 6:
        changed = False
        rounds += 1
        cands = set()
        for gq in list(gates):
            for s in cg.inn.get(gq, ()):
                if s["kind"] == "call":
                    cands.add(s["caller"])
        # unresolved receivers calling .should_ignore_violation by name
        for s in cg.sites:
            if s["kind"] == "call" and s["name"] == "should_ignore_violation":
                cands.add(s["caller"])
        for fq in sorted(cands):
            if fq in gates:
                continue
            f = repo.funcs.get(fq)
            if f is None or f.name in ("check", "finalize") or f.name.startswith("_check_") or f.name == "_analyze":
                continue
            params = [a.arg for a in f.node.args.args if a.arg not in ("self", "cls")]
            vparams = [p for p in params if _is_violation_param(f, p)]
            if not vparams:
                continue
            paths = cfg.enumerate_paths(body_without_doc(f), 2000)
            if paths is None:
                continue
            good = set()
            for vp in vparams:
                ok = True
                for p in paths:
                    t = p[-1]
                    if t[0] == "return" and isinstance(t[1].value, ast.Constant) and t[1].value.value is True:
                        continue
                    if t[0] == "raise":
                        continue
                    hit = False
                    for ev in p:
                        for root in cfg.event_nodes(ev):
                            for n in ast.walk(root):
                                if isinstance(n, ast.Call) and _calls_gate(ctx, f, n, gates) and any(isinstance(a, ast.Name) and a.id == vp for a in list(n.args) + [k.value for k in n.keywords]):
                                    hit = True
                    if hit:
                        continue
                    if _no_content_exit(p):
                        continue
                    ok = False
                    break
                if ok:
                    good.add(vp)
            if good:
                gates[fq] = good
                changed = True
    _GATE_CACHE[key] = gates
    return gates


def _is_violation_param(f: Func, p: str) -> bool:
    for a in f.node.args.args:
        if a.arg == p:
            if a.annotation is not None:
                return "Violation" in ast.unparse(a.annotation) and "list" not in ast.unparse(a.annotation)
            return p in ("violation", "v")
    return False


def _calls_gate(ctx, f: Func, n: ast.Call, gates) -> bool:
    site = ctx.cg.site_at(f.module.name, n.lineno, n.col_offset)
    if site is None:
        return False
    if any(c in gates for c in site["callees"]):
        return True
    return not site["resolved"] and call_name(n) == "should_ignore_violation"


_CONTENT_NAMES = ("file_content", "file_contents", "content")


def _is_content_ref(n: ast.AST) -> bool:
    return isinstance(n, (ast.Attribute, ast.Name)) and (getattr(n, "attr", None) in _CONTENT_NAMES or getattr(n, "id", None) in _CONTENT_NAMES)


def no_content_test(test: ast.expr, taken: bool) -> bool:
    """The branch outcome implies that there is no file content (so nothing could hold a directive)."""
    if truth_of(test, taken, _is_content_ref) is False:
        return True
    if isinstance(test, ast.Compare) and len(test.ops) == 1 and isinstance(test.ops[0], ast.Is) and taken and _is_content_ref(test.left):
        return True
    if isinstance(test, ast.BoolOp) and isinstance(test.op, ast.And) and not taken and any(_is_content_ref(v) for v in test.values):
        return True
    return False


def _no_content_exit(path) -> bool:
    """Early False because the context has no file content (nothing could hold a directive)."""
    return any(ev[0] == "test" and no_content_test(ev[1], ev[2]) for ev in path)


# ------------------------------------------------------------------ driver
def run_t3(run, ctx, L: Linters) -> None:
    from .props.c04 import EXEMPT_RULES

    T3 = run.rule("I1-T3", "every Violation constructed under a rule flows through a gate idiom (if not gate(v): keep / if gate(v): drop / [v for v in vs if not gate(v)] / filter helper) before it reaches check()/finalize()'s return", floor=18,
                  decides="no individual construction site bypasses the directive parser inside an otherwise gated linter")
    gates = gate_wrappers(ctx, L)
    run.extra["gate_wrappers"] = sorted(g.replace("src.", "", 1) for g in gates)
    all_sinks = L.sinks()
    for r in L.rules:
        if r.short in EXEMPT_RULES:
            continue
        pr = L.reach(r)
        labels_expected = {}
        for sk in all_sinks:
            if sk["caller"] in pr and not shared.is_syntax_error_builder(ctx, sk["caller"]):
                labels_expected[f"{sk['caller']}@{norm(sk['call'].func)}"] = sk
        if not labels_expected:
            continue
        if GATE not in pr:
            # already a T1 finding; site-level verdicts would only repeat it
            continue
        gf = GateFlow(ctx, L, r)
        res = NONE
        for root in L.rule_roots(r):
            res = res.join(gf.summary(root, 0))
        for lab, sk in sorted(labels_expected.items()):
            short = lab.replace("src.linters.", "")
            sym = f"{r.short}:{short}"
            loc = f"{ctx.repo.funcs[sk['caller']].module.rel}:{sk['call'].lineno}"
            if lab in res.ung:
                run.finding(T3, sym, "ungated-flow", f"violation built at {short} reaches {r.short}.check()/finalize()'s return without passing an ignore gate", loc, path=ctx.cg.path_to(pr, sk["caller"]))
            elif lab in res.gat:
                run.ok(T3, sym, "flows to the return only through a gate idiom")
            else:
                run.undecided(T3, sym, "construction site reachable in the call graph but the value flow to the return could not be followed")
