"""Call-graph facade: loads (or rebuilds) the mypy-resolved graph and answers queries.

Cache: /verif/.cache/cg-<sha256(src)>.pkl, rebuilt whenever any byte under
/repo/src changes, so every run decides the current working tree.
"""

from __future__ import annotations

import fcntl
import os
import pickle
import subprocess
import sys
from collections import defaultdict, deque

from . import REPO, VERIF
from .facts import Repo


class CallGraph:
    def __init__(self, data: dict):
        self.data = data
        self.sites: list[dict] = data["sites"]
        self.funcs: dict[str, dict] = data["funcs"]
        self.classes: dict[str, dict] = data["classes"]
        self.out: dict[str, list[dict]] = defaultdict(list)
        self.inn: dict[str, list[dict]] = defaultdict(list)
        for s in self.sites:
            self.out[s["caller"]].append(s)
            for c in s["callees"]:
                self.inn[c].append(s)
        calls = [s for s in self.sites if s["kind"] == "call"]
        self.n_calls = len(calls)
        self.n_resolved = sum(1 for s in calls if s["resolved"])

    # ------------------------------------------------------------- queries
    def callees(self, fn: str, kinds: tuple[str, ...] = ("call", "ref", "prop", "nested", "classref")) -> set[str]:
        out: set[str] = set()
        for s in self.out.get(fn, ()):
            if s["kind"] in kinds:
                out.update(s["callees"])
        return out

    def reach(self, roots, kinds=("call", "ref", "prop", "nested", "classref"), stop=None, resolved_only: bool = False) -> dict[str, tuple[str, dict] | None]:
        """BFS over callees; returns {function: (predecessor, site) | None for roots}."""
        pred: dict[str, tuple[str, dict] | None] = {}
        dq = deque()
        for r in roots:
            if r not in pred:
                pred[r] = None
                dq.append(r)
        while dq:
            f = dq.popleft()
            if stop is not None and f in stop and pred[f] is not None:
                continue
            for s in self.out.get(f, ()):
                if s["kind"] not in kinds:
                    continue
                if resolved_only and not s["resolved"]:
                    continue
                for c in s["callees"]:
                    if c not in pred:
                        pred[c] = (f, s)
                        dq.append(c)
        return pred

    @staticmethod
    def path_to(pred: dict, target: str) -> list[str]:
        out = []
        cur = target
        while cur is not None and cur in pred:
            p = pred[cur]
            if p is None:
                out.append(cur)
                break
            out.append(f"{cur} (called at {p[1]['module']}:{p[1]['span'][0]})")
            cur = p[0]
        return list(reversed(out))

    def sites_calling(self, callee: str, kinds=("call",)) -> list[dict]:
        return [s for s in self.inn.get(callee, ()) if s["kind"] in kinds]

    def sites_in(self, caller: str, kinds=("call",)) -> list[dict]:
        return [s for s in self.out.get(caller, ()) if s["kind"] in kinds]

    def site_of(self, module: str, node) -> dict | None:
        """The call site of an ast.Call node: matched by its full span (start and end), falling back to the start."""
        idx = getattr(self, "_span_idx", None)
        if idx is None:
            idx = {}
            for s in self.sites:
                if s["kind"] == "call":
                    idx.setdefault((s["module"],) + tuple(s["span"]), s)
            self._span_idx = idx
        s = idx.get((module, node.lineno, node.col_offset, node.end_lineno, node.end_col_offset))
        return s if s is not None else self.site_at(module, node.lineno, node.col_offset)

    def site_at(self, module: str, line: int, col: int) -> dict | None:
        idx = getattr(self, "_site_idx", None)
        if idx is None:
            idx = {}
            for s in self.sites:
                if s["kind"] == "call":
                    idx.setdefault((s["module"], s["span"][0], s["span"][1]), s)
            self._site_idx = idx
        for dc in (0, 1, -1):
            s = idx.get((module, line, col + dc))
            if s is not None:
                return s
        return None


_INDEX: dict[tuple[str, int], list[dict]] | None = None


def load(repo: Repo) -> CallGraph:
    digest = repo.digest()
    cache_dir = os.environ.get("TLSA_CACHE_DIR") or os.path.join(VERIF, ".cache")
    os.makedirs(cache_dir, exist_ok=True)
    path = os.path.join(cache_dir, f"cg-{digest[:32]}.pkl")
    if not os.path.exists(path):
        lock = os.path.join(cache_dir, "cg.lock")
        with open(lock, "w") as lk:
            fcntl.flock(lk, fcntl.LOCK_EX)
            try:
                if not os.path.exists(path):
                    _build(repo.root, path)
                    _prune(cache_dir, keep=path)
            finally:
                fcntl.flock(lk, fcntl.LOCK_UN)
    with open(path, "rb") as fh:
        data = pickle.load(fh)
    return CallGraph(data)


def _build(root: str, out: str) -> None:
    env = dict(os.environ)
    env["PYTHONPATH"] = VERIF
    env.pop("MYPYPATH", None)
    p = subprocess.run(
        [sys.executable, "-m", "tlsa.cg_build", root, out],
        cwd=VERIF,
        env=env,
        capture_output=True,
        text=True,
        timeout=600,
    )
    if p.returncode != 0 or not os.path.exists(out):
        raise RuntimeError(f"call-graph build failed (rc={p.returncode}): {p.stderr[-2000:]}")


def _prune(cache_dir: str, keep: str, max_files: int = 6) -> None:
    files = sorted(
        (os.path.join(cache_dir, f) for f in os.listdir(cache_dir) if f.startswith("cg-") and f.endswith(".pkl")),
        key=os.path.getmtime,
    )
    for f in files[:-max_files]:
        if f != keep:
            try:
                os.unlink(f)
            except OSError:
                pass
