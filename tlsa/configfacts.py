"""Configuration facts: which top-level section keys a rule reads (and from which context
attribute), config dataclasses, from_dict key reads, field reads."""

from __future__ import annotations

import ast
from dataclasses import dataclass, field

from .facts import UNKNOWN, Cls, Func, Repo, call_name, dotted, norm
from .linters import ABSTRACT_BASES, Linters, RuleInfo

LANG_KEYS = ("python", "typescript", "javascript", "rust")


@dataclass
class KeyRead:
    key: str
    source: str  # metadata | config | unknown
    func: str
    loc: str
    how: str


def _ctx_attr_source(e: ast.AST) -> str | None:
    """metadata/config when e reads that attribute of the lint context."""
    if isinstance(e, ast.Attribute) and e.attr in ("metadata", "config") and isinstance(e.value, ast.Name) and e.value.id in ("context", "ctx"):
        return e.attr
    if isinstance(e, ast.Call) and call_name(e) == "getattr" and len(e.args) >= 2 and isinstance(e.args[1], ast.Constant) and e.args[1].value in ("metadata", "config"):
        return e.args[1].value
    if isinstance(e, ast.Call) and call_name(e) == "get_metadata":
        return "metadata"
    if isinstance(e, ast.BoolOp) and isinstance(e.op, ast.Or):
        srcs = [_ctx_attr_source(v) for v in e.values]
        srcs = [x for x in srcs if x]
        if srcs:
            return "metadata" if "metadata" in srcs else srcs[0]
    return None


def _helper_source(repo: Repo, f: Func, e: ast.AST) -> str | None:
    """x = self._get_config_dict(context): a same-class helper whose returns are context.config/metadata."""
    if not (isinstance(e, ast.Call) and isinstance(e.func, ast.Attribute) and isinstance(e.func.value, ast.Name) and e.func.value.id == "self" and f.cls is not None):
        return None
    g = repo.find_method(f.cls.qual, e.func.attr)
    if g is None:
        return None
    srcs = set()
    for n in ast.walk(g.node):
        if isinstance(n, ast.Return) and n.value is not None and not (isinstance(n.value, ast.Constant) and n.value.value is None):
            s = _ctx_attr_source(n.value)
            if s is None:
                return None
            srcs.add(s)
    if not srcs:
        return None
    return "metadata" if "metadata" in srcs else "config"


def _local_sources(f: Func, repo: Repo | None = None) -> dict[str, str]:
    """local names bound directly to context.metadata / context.config"""
    out: dict[str, str] = {}
    for a in f.node.args.args:
        if a.arg == "metadata":
            out[a.arg] = "metadata"
    changed = True
    rounds = 0
    while changed and rounds < 4:
        changed = False
        rounds += 1
        for n in ast.walk(f.node):
            if isinstance(n, ast.Assign) and len(n.targets) == 1 and isinstance(n.targets[0], ast.Name):
                src = _ctx_attr_source(n.value)
                if src is None and repo is not None:
                    src = _helper_source(repo, f, n.value)
                if src is None and isinstance(n.value, ast.Name) and n.value.id in out:
                    src = out[n.value.id]
                if src and out.get(n.targets[0].id) != src:
                    out[n.targets[0].id] = src
                    changed = True
    return out


def _container_source(e: ast.AST, local: dict[str, str]) -> str | None:
    s = _ctx_attr_source(e)
    if s:
        return s
    if isinstance(e, ast.Name) and e.id in local:
        return local[e.id]
    return None


def _key_values(L: Linters, f: Func, e: ast.AST, rule: RuleInfo | None = None) -> list[str]:
    d = dotted(e)
    if rule is not None and d and d.startswith("self.") and "." not in d[5:]:
        m = L.repo.find_method(rule.qual, d[5:])
        if m is not None:
            v = L.repo.fold_property(m)
            if isinstance(v, str):
                return [v]
    vals = L.const_values(f.qual, e)
    out = [v for v in vals if isinstance(v, str)]
    if out:
        return out
    # loop variable over a constant tuple:  for key in ("a", "b"): if key in metadata
    if isinstance(e, ast.Name):
        for n in ast.walk(f.node):
            if isinstance(n, (ast.For, ast.comprehension)) and isinstance(n.target, ast.Name) and n.target.id == e.id:
                it = n.iter
                v = L.repo.fold(f.module, it, f.cls)
                if v is UNKNOWN and isinstance(it, ast.Name):
                    for a in ast.walk(f.node):
                        if isinstance(a, ast.Assign) and any(isinstance(t, ast.Name) and t.id == it.id for t in a.targets):
                            v = L.repo.fold(f.module, a.value, f.cls)
                if isinstance(v, (tuple, list, set, frozenset)):
                    return [x for x in v if isinstance(x, str)]
    return []


def section_key_reads(L: Linters, rule: RuleInfo) -> list[KeyRead]:
    repo = L.repo
    reach = L.reach(rule)
    mro = [c for c in repo.mro(rule.qual)]
    out: list[KeyRead] = []
    for fq in sorted(reach):
        f = repo.funcs.get(fq)
        if f is None:
            continue
        in_pkg = f.module.name.startswith(rule.pkg + ".") or f.module.name == rule.pkg
        in_mro = f.cls is not None and f.cls.qual in mro
        if not (in_pkg or in_mro):
            continue
        local = _local_sources(f, L.repo)
        for n in ast.walk(f.node):
            if isinstance(n, ast.Call) and call_name(n) == "load_linter_config" and len(n.args) >= 2:
                for k in _key_values(L, f, n.args[1], rule):
                    out.append(KeyRead(k, "metadata", f.qual, f"{f.module.rel}:{n.lineno}", "load_linter_config"))
            elif isinstance(n, ast.Call) and call_name(n) == "get_metadata_value" and len(n.args) >= 2:
                for k in _key_values(L, f, n.args[1], rule):
                    out.append(KeyRead(k, "metadata", f.qual, f"{f.module.rel}:{n.lineno}", "get_metadata_value"))
            elif isinstance(n, ast.Call) and isinstance(n.func, ast.Attribute) and n.func.attr == "get" and n.args:
                src = _container_source(n.func.value, local)
                if src:
                    for k in _key_values(L, f, n.args[0], rule):
                        out.append(KeyRead(k, src, f.qual, f"{f.module.rel}:{n.lineno}", ".get"))
            elif isinstance(n, ast.Subscript) and not isinstance(n.slice, ast.Slice):
                src = _container_source(n.value, local)
                if src:
                    for k in _key_values(L, f, n.slice, rule):
                        out.append(KeyRead(k, src, f.qual, f"{f.module.rel}:{n.lineno}", "[]"))
            elif isinstance(n, ast.Compare) and len(n.ops) == 1 and isinstance(n.ops[0], (ast.In, ast.NotIn)):
                src = _container_source(n.comparators[0], local)
                if src:
                    for k in _key_values(L, f, n.left, rule):
                        out.append(KeyRead(k, src, f.qual, f"{f.module.rel}:{n.lineno}", "in"))
    # de-duplicate
    seen = set()
    res = []
    for k in out:
        t = (k.key, k.source, k.func)
        if t not in seen:
            seen.add(t)
            res.append(k)
    return res


def whole_dict_fallback(L: Linters, rule: RuleInfo) -> list[str]:
    """sites where the whole metadata/config dict is used as the linter's own section (X.get(key, X))."""
    out = []
    for fq in sorted(L.reach(rule)):
        f = L.repo.funcs.get(fq)
        if f is None or not (f.cls is not None and f.cls.qual == rule.qual):
            continue
        local = _local_sources(f, L.repo)
        for n in ast.walk(f.node):
            if isinstance(n, ast.Call) and isinstance(n.func, ast.Attribute) and n.func.attr == "get" and len(n.args) == 2:
                if _container_source(n.func.value, local) and isinstance(n.args[1], ast.Name) and isinstance(n.func.value, ast.Name) and n.args[1].id == n.func.value.id:
                    out.append(f"{f.qual}: {norm(n)}")
    return out


# ---------------------------------------------------------------- config classes
@dataclass
class ConfigClass:
    cls: Cls
    fields: dict[str, ast.expr | None]  # name -> default expr
    from_dict: Func | None
    keys: dict[str, list[ast.AST]] = field(default_factory=dict)  # key -> read nodes in from_dict (+helpers)
    key_to_field: dict[str, str] = field(default_factory=dict)
    key_default: dict[str, ast.expr | None] = field(default_factory=dict)
    lang_override: bool = False
    post_init: Func | None = None


def config_class_of(L: Linters, rule: RuleInfo) -> Cls | None:
    """The config dataclass a rule instantiates (third arg of load_linter_config or X.from_dict / X())."""
    repo = L.repo
    cands: list[str] = []
    for fq in sorted(L.reach(rule)):
        f = repo.funcs.get(fq)
        if f is None:
            continue
        if not (f.module.name.startswith(rule.pkg) or (f.cls is not None and f.cls.qual in repo.mro(rule.qual))):
            continue
        for n in ast.walk(f.node):
            if isinstance(n, ast.Call):
                nm = call_name(n)
                tgt = None
                if nm == "load_linter_config" and len(n.args) >= 3:
                    tgt = n.args[2]
                elif nm == "from_dict" and isinstance(n.func, ast.Attribute):
                    tgt = n.func.value
                if tgt is not None:
                    d = dotted(tgt)
                    if d and d.startswith("self."):
                        m = repo.find_method(rule.qual, d[5:])
                        if m is not None:
                            body = [s for s in m.node.body if isinstance(s, ast.Return)]
                            if body and body[0].value is not None:
                                d = dotted(body[0].value)
                                q = repo.resolve(m.module, d) if d else None
                                if q in repo.classes:
                                    cands.append(q)
                        continue
                    q = repo.resolve(f.module, d) if d else None
                    if q in repo.classes and q.startswith(rule.pkg):
                        cands.append(q)
    for q in cands:
        if q.endswith("Config"):
            return repo.classes[q]
    return repo.classes[cands[0]] if cands else None


def analyse_config_class(repo: Repo, c: Cls) -> ConfigClass:
    fields: dict[str, ast.expr | None] = {}
    for st in c.node.body:
        if isinstance(st, ast.AnnAssign) and isinstance(st.target, ast.Name):
            fields[st.target.id] = st.value
    fd = c.methods.get("from_dict")
    cc = ConfigClass(cls=c, fields=fields, from_dict=fd, post_init=c.methods.get("__post_init__"))
    if fd is None:
        return cc
    # functions of the same module called from from_dict (helpers) - depth 2
    funcs = [fd]
    seen = {fd.qual}
    for _ in range(2):
        for f in list(funcs):
            for n in ast.walk(f.node):
                if isinstance(n, ast.Call):
                    nm = call_name(n)
                    for cand in (f"{c.qual}.{nm}", f"{c.module.name}.{nm}"):
                        g = repo.funcs.get(cand)
                        if g is not None and g.qual not in seen:
                            seen.add(g.qual)
                            funcs.append(g)
    for f in funcs:
        for n in ast.walk(f.node):
            key = None
            dflt = None
            def skey(e):
                """a string key written in place or through a module/class constant (`_MAX_DEPTH_KEY`)"""
                if isinstance(e, ast.Constant):
                    return e.value if isinstance(e.value, str) else None
                if isinstance(e, (ast.Name, ast.Attribute)):
                    v = repo.fold(f.module, e, c) if isinstance(e, ast.Attribute) else repo.fold(f.module, e)
                    return v if isinstance(v, str) else None
                return None
            if isinstance(n, ast.Call) and isinstance(n.func, ast.Attribute) and n.func.attr in ("get", "pop") and n.args and skey(n.args[0]) is not None:
                key = skey(n.args[0])
                dflt = n.args[1] if len(n.args) > 1 else None
            elif isinstance(n, ast.Subscript) and skey(n.slice) is not None and not (isinstance(n.slice, ast.Name) and n.slice.id in ("language", "lang")):
                key = skey(n.slice)
            elif isinstance(n, ast.Compare) and len(n.ops) == 1 and isinstance(n.ops[0], ast.In) and skey(n.left) is not None and not (isinstance(n.left, ast.Name) and n.left.id in ("language", "lang")):
                key = skey(n.left)
            if key is None and isinstance(n, ast.Call) and isinstance(n.func, ast.Name):
                # helper(config, "key", "override_key", DEFAULT): constants bound to a parameter the helper uses as a dict key
                g = repo.funcs.get(f"{c.module.name}.{n.func.id}")
                if g is not None:
                    gp = [a.arg for a in g.node.args.args]
                    keyparams = set()
                    for x in ast.walk(g.node):
                        if isinstance(x, ast.Call) and isinstance(x.func, ast.Attribute) and x.func.attr in ("get", "pop") and x.args and isinstance(x.args[0], ast.Name):
                            keyparams.add(x.args[0].id)
                        if isinstance(x, ast.Subscript) and isinstance(x.slice, ast.Name):
                            keyparams.add(x.slice.id)
                        if isinstance(x, ast.Compare) and isinstance(x.ops[0], (ast.In, ast.NotIn)) and isinstance(x.left, ast.Name):
                            keyparams.add(x.left.id)
                    for i, a in enumerate(n.args):
                        if isinstance(a, ast.Constant) and isinstance(a.value, str) and i < len(gp) and gp[i] in keyparams:
                            cc.keys.setdefault(a.value, []).append(n)
            if key is not None:
                cc.keys.setdefault(key, []).append(n)
                if dflt is not None and key not in cc.key_default:
                    cc.key_default[key] = dflt
        # language override idiom
        for n in ast.walk(f.node):
            if isinstance(n, ast.Compare) and len(n.ops) == 1 and isinstance(n.ops[0], ast.In) and isinstance(n.left, ast.Name) and n.left.id == "language":
                cc.lang_override = True
            if isinstance(n, ast.Subscript) and isinstance(n.slice, ast.Name) and n.slice.id == "language":
                cc.lang_override = True
            if isinstance(n, ast.Call) and call_name(n) == "get" and n.args and isinstance(n.args[0], ast.Name) and n.args[0].id == "language":
                cc.lang_override = True
    # key -> field through the cls(...) keyword call in from_dict
    for n in ast.walk(fd.node):
        if isinstance(n, ast.Call) and isinstance(n.func, ast.Name) and n.func.id in ("cls", c.name):
            for k in n.keywords:
                if k.arg:
                    for key in cc.keys:
                        if any(isinstance(x, ast.Constant) and x.value == key for x in ast.walk(k.value)):
                            cc.key_to_field.setdefault(key, k.arg)
                    # local variable carrying the value
                    if isinstance(k.value, ast.Name):
                        for a in ast.walk(fd.node):
                            if isinstance(a, ast.Assign) and any(isinstance(t, ast.Name) and t.id == k.value.id for t in a.targets):
                                for key in cc.keys:
                                    if any(isinstance(x, ast.Constant) and x.value == key for x in ast.walk(a.value)):
                                        cc.key_to_field.setdefault(key, k.arg)
    for key in cc.keys:
        if key not in cc.key_to_field and key in fields:
            cc.key_to_field[key] = key
    return cc
