"""Declared-interface facts from docs/*.md and the config template (read as data)."""

from __future__ import annotations

import json
import os
import re
from functools import lru_cache

from .facts import AnchorVanished

FENCE = re.compile(r"^```+\s*([A-Za-z0-9_+-]*)[^\n]*\n(.*?)^```+\s*$", re.S | re.M)


def fenced_blocks(text: str) -> list[tuple[str, str]]:
    return [(m.group(1).lower(), m.group(2)) for m in FENCE.finditer(text)]


def yaml_docs(text: str) -> list[dict]:
    import yaml

    out = []
    for lang, body in fenced_blocks(text):
        if lang not in ("yaml", "yml"):
            continue
        try:
            for d in yaml.safe_load_all(body):
                if isinstance(d, dict):
                    out.append(d)
        except Exception:  # noqa: BLE001 - doc snippets with placeholders
            continue
    return out


def json_docs(text: str) -> list:
    out = []
    for lang, body in fenced_blocks(text):
        if lang != "json":
            continue
        try:
            out.append(json.loads(body))
        except Exception:  # noqa: BLE001
            continue
    return out


def toml_docs(text: str) -> list[dict]:
    import tomllib

    out = []
    for lang, body in fenced_blocks(text):
        if lang != "toml":
            continue
        try:
            out.append(tomllib.loads(body))
        except Exception:  # noqa: BLE001
            continue
    return out


def read(root: str, rel: str) -> str:
    p = os.path.join(root, rel)
    if not os.path.exists(p):
        raise AnchorVanished(f"{rel} not found")
    with open(p, encoding="utf-8") as fh:
        return fh.read()


def template(root: str) -> dict:
    import yaml

    txt = read(root, "src/templates/thailint_config_template.yaml")
    # placeholders {{X}} are substituted by init-config; make the file parseable
    txt = re.sub(r"\{\{[A-Z_]+\}\}", "0", txt)
    d = yaml.safe_load(txt)
    if not isinstance(d, dict):
        raise AnchorVanished("config template does not parse to a mapping")
    return d


def doc_sections(root: str, rel: str) -> dict[str, dict]:
    """Top-level mapping-valued keys in the yaml/json/toml examples of one doc page -> merged option dict."""
    txt = read(root, rel)
    out: dict[str, dict] = {}
    for d in yaml_docs(txt):
        for k, v in d.items():
            if isinstance(v, dict) and isinstance(k, str):
                out.setdefault(k, {}).update(v)
    for d in json_docs(txt):
        if isinstance(d, dict):
            for k, v in d.items():
                if isinstance(v, dict):
                    out.setdefault(k, {}).update(v)
    for d in toml_docs(txt):
        th = d.get("tool", {}).get("thailint", {}) if isinstance(d, dict) else {}
        for k, v in th.items():
            if isinstance(v, dict):
                out.setdefault(k, {}).update(v)
    return out
