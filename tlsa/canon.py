"""Rename canonicaliser: analyse the tree a behaviour-preserving rename of a private anchor was applied to as if the
rename had not happened.

Rules name private functions of thai-lint in string literals.  When such a function (recorded with a fingerprint in
tlsa/anchors_ref.json) no longer exists and exactly one *new* function of the same module has the same number of parameters and
a close identifier bag, and the new name is introduced by nothing else, the edit is a rename.  The tree is then copied to
a scratch directory with the new identifier spelled as the old one (word-boundary replacement over src/**.py - an
alpha-renaming, line numbers unchanged), and every layer (ast facts, mypy call graph, rules) analyses that copy.  The
report says so.  Anything less clear is left alone: the rules then run on the tree as it is and fail closed (exit 2) where
an anchor cannot be found.

Guards (each one keeps a behaviour-changing edit from being mistaken for a rename):
 * the old name must be gone from the defining scope, the new name must be unknown to the reference listing (all function
   names of src at reference time) and must not be a name the rules mention;
 * a method: neither the old nor the new name may be defined anywhere else in the class hierarchy (bases and subclasses)
   unless every such definition is itself a vanished anchor renamed to the same new name (a consistent rename of an
   override family) - renaming only one override changes dispatch and is *not* canonicalised;
 * every function of src carrying the new name must be one of the accepted rename targets;
 * the old name must not occur as an identifier in any module where the new name occurs, unless that module is the one
   defining it or the occurrence count of the old name there is explained by other vanished/renamed anchors (kept simple:
   a module that uses both names blocks the canonicalisation).
"""

from __future__ import annotations

import ast
import json
import os
import re
import shutil
import tempfile

from .anchors_ref import func_bag, func_params
from .facts import Repo

_REF = None


def ref() -> dict:
    global _REF
    if _REF is None:
        try:
            with open(os.path.join(os.path.dirname(__file__), "anchors_ref.json")) as fh:
                _REF = json.load(fh)
        except (OSError, ValueError):
            _REF = {}
    return _REF


def _np(ps):
    return [p for p in ps if p not in ("self", "cls")]


def detect(repo: Repo) -> dict[str, str]:
    """new simple name -> old simple name for every accepted rename."""
    R = ref()
    fns = R.get("functions", {})
    if not fns:
        return {}
    known_names = set(R.get("names", ()))
    mentioned = {r["name"] for r in fns.values()}
    vanished = {q: r for q, r in fns.items() if q not in repo.funcs and r["module"] in repo.modules}
    if not vanished:
        return {}
    pairs: dict[str, tuple] = {}  # old qual -> candidate Func
    for q, r in vanished.items():
        listed = set(R.get("modules", {}).get(r["module"], ()))
        cands = []
        for cq, g in repo.funcs.items():
            if g.module.name != r["module"] or g.parent is not None or cq in listed:
                continue
            if g.name in known_names or g.name in mentioned:
                continue
            if len(_np(func_params(g.node))) != len(_np(r["params"])):
                continue   # parameters may be renamed along with the function; their number may not change
            bag, rb = set(func_bag(g.node)), set(r["bag"])
            # the body may call the renamed function itself (recursion): compare modulo the two names
            bag = {("." + r["name"]) if b == "." + g.name else (r["name"] + "()") if b == g.name + "()" else b for b in bag}
            if len(bag & rb) / max(1, len(bag | rb)) >= 0.6:
                cands.append(g)
        if len(cands) == 1:
            pairs[q] = cands[0]
    if not pairs:
        return {}
    out: dict[str, str] = {}
    by_new: dict[str, list[str]] = {}
    for q, g in pairs.items():
        by_new.setdefault(g.name, []).append(q)
    for new, olds in by_new.items():
        old_names = {fns[q]["name"] for q in olds}
        if len(old_names) != 1:
            continue
        old = old_names.pop()
        targets = {pairs[q].qual for q in olds}
        if {cq for cq, g in repo.funcs.items() if g.name == new} != targets:
            continue  # the new name is also introduced by something that is not a rename target
        ok = True
        for q in olds:
            g = pairs[q]
            if g.cls is None:
                continue
            family = (set(repo.mro(g.cls.qual)) | set(repo.subclasses(g.cls.qual))) - {g.cls.qual}
            for c in family:
                cl = repo.classes.get(c)
                if cl is not None and old in cl.methods:
                    ok = False  # an un-renamed member of the override family: dispatch changed, not a rename
        if not ok:
            continue
        pn = re.compile(r"(?<![A-Za-z0-9_])" + re.escape(new) + r"(?![A-Za-z0-9_])")
        po = re.compile(r"(?<![A-Za-z0-9_])" + re.escape(old) + r"(?![A-Za-z0-9_])")
        defining = {pairs[q].module.name for q in olds}
        for m in repo.modules.values():
            if pn.search(m.src) and po.search(m.src) and m.name in defining:
                ok = False  # both spellings live in the defining module: not a plain rename
        if ok:
            out[new] = old
    return out


def canonical_root(root: str) -> tuple[str, dict[str, str], str | None]:
    """(root to analyse, accepted renames new->old, scratch dir to remove afterwards or None)"""
    try:
        repo = Repo(root)
    except Exception:  # noqa: BLE001  - the caller will hit (and report) the same problem on the real tree
        return root, {}, None
    ren = detect(repo)
    if not ren:
        return root, {}, None
    d = tempfile.mkdtemp(prefix="tlsa-canon-")
    pats = [(re.compile(r"(?<![A-Za-z0-9_])" + re.escape(n) + r"(?![A-Za-z0-9_])"), o) for n, o in ren.items()]
    for entry in os.listdir(root):
        src = os.path.join(root, entry)
        if entry == "src":
            continue
        if entry.startswith(".") or entry in ("tests", "node_modules", "htmlcov", "_cache", "_ev"):
            continue
        os.symlink(src, os.path.join(d, entry))
    for base, dirs, files in os.walk(os.path.join(root, "src")):
        dirs[:] = [x for x in dirs if x != "__pycache__"]
        rel = os.path.relpath(base, root)
        os.makedirs(os.path.join(d, rel), exist_ok=True)
        for fn in files:
            sp = os.path.join(base, fn)
            dp = os.path.join(d, rel, fn)
            if fn.endswith(".py"):
                s = open(sp, encoding="utf-8").read()
                for pat, o in pats:
                    s = pat.sub(o, s)
                try:
                    ast.parse(s)
                except SyntaxError:
                    shutil.rmtree(d, ignore_errors=True)
                    return root, {}, None
                open(dp, "w", encoding="utf-8").write(s)
            else:
                shutil.copy(sp, dp)
    return d, ren, d
