"""Audit runner (thorough tier): checks the checkers.

For every variant of the property: copy src/, docs/ and the template of /repo to a scratch directory outside /repo
and /verif, apply the single edit, run the property's check on the copy (child process, private cache dir) and demand
exit 1 with a VIOLATION of the expected rule.  Scratch copies are removed immediately.
An undetected variant means a rule is unarmed: that is an ANALYSIS-ERROR (exit 2) - it says nothing about /repo.
"""

from __future__ import annotations

import json
import os
import shutil
import subprocess
import sys
import tempfile
import time
from concurrent.futures import ThreadPoolExecutor

from .. import REPO, VERIF
from .variants import V


def _copy_tree(dst: str) -> None:
    for sub in ("src", "docs"):
        shutil.copytree(os.path.join(REPO, sub), os.path.join(dst, sub), ignore=shutil.ignore_patterns("__pycache__", "*.pyc"))


def _apply(root: str, var) -> str | None:
    vid, prop, rule, rel, old, new = var[:6]
    occ = var[6] if len(var) > 6 else None
    p = os.path.join(root, rel)
    if not os.path.exists(p):
        return f"file {rel} missing"
    s = open(p, encoding="utf-8").read()
    n = s.count(old)
    if n == 0:
        return "anchor text not found"
    if occ is None and n != 1:
        return f"anchor text occurs {n} times"
    if occ is not None:
        idx = -1
        for _ in range(occ):
            idx = s.find(old, idx + 1)
            if idx < 0:
                return f"anchor occurrence {occ} not found"
        s = s[:idx] + new + s[idx + len(old):]
    else:
        s = s.replace(old, new)
    open(p, "w", encoding="utf-8").write(s)
    if rel.endswith(".py"):
        try:
            compile(s, p, "exec")
        except SyntaxError as e:
            return f"variant does not compile: {e.msg[:80]}"
    return None


def seed_variants(prop: str) -> list[tuple]:
    """Stored seeded changes (/verif/seeded/<id>/patch.diff, written by independent sub-agents and confirmed by hand)
    that this property's check is on record as catching: (id, prop, rule, "@patch", path)."""
    out = []
    root = os.path.join(VERIF, "seeded")
    for d in sorted(os.listdir(root)) if os.path.isdir(root) else []:
        mp, pp = os.path.join(root, d, "meta.json"), os.path.join(root, d, "patch.diff")
        if not (os.path.exists(mp) and os.path.exists(pp)):
            continue
        try:
            meta = json.load(open(mp))
        except ValueError:
            continue
        hits = (meta.get("caught_by") or {}).get(prop)
        if not meta.get("confirmed") or not hits:
            continue
        out.append((f"seed-{d}", prop, hits[0].split()[0], "@patch", pp))
    return out


def refactor_variants(prop: str) -> list[tuple]:
    """Stored behaviour-preserving refactorings (/verif/refactors/<id>/patch.diff, written by independent sub-agents for
    this property's anchor files; the pinned suite is unchanged under each): the check must stay silent on them."""
    out = []
    root = os.path.join(VERIF, "refactors")
    for d in sorted(os.listdir(root)) if os.path.isdir(root) else []:
        mp, pp = os.path.join(root, d, "meta.json"), os.path.join(root, d, "patch.diff")
        if not (os.path.exists(mp) and os.path.exists(pp)):
            continue
        try:
            meta = json.load(open(mp))
        except ValueError:
            continue
        if prop in (meta.get("props") or []) and prop not in (meta.get("rekeyed_known_findings") or {}):
            out.append((f"refactor-{d}", prop, "-", "@silent", pp))
    return out


def _apply_patch(root: str, var) -> str | None:
    p = subprocess.run(["patch", "-p1", "-s", "-f", "-d", root, "-i", var[4]], capture_output=True, text=True)
    if p.returncode != 0:
        return "seed patch no longer applies: " + (p.stdout + p.stderr).strip().splitlines()[0][:100] if (p.stdout + p.stderr).strip() else "seed patch no longer applies"
    return None


def _run_one(var, scratch_root: str) -> dict:
    vid, prop, rule = var[0], var[1], var[2]
    d = tempfile.mkdtemp(prefix=f"tlsa-audit-{vid}-", dir=scratch_root)
    t0 = time.time()
    try:
        _copy_tree(d)
        err = _apply_patch(d, var) if var[3] in ("@patch", "@silent") else _apply(d, var)
        if err:
            return dict(id=vid, prop=prop, rule=rule, status="skipped", detail=err)
        ev = os.path.join(d, "_evidence")
        os.makedirs(ev)
        env = dict(os.environ)
        env["TLSA_CACHE_DIR"] = os.path.join(d, "_cache")
        env["PYTHONPATH"] = VERIF
        env["PYTHONDONTWRITEBYTECODE"] = "1"
        p = subprocess.run([sys.executable, "-m", "tlsa.main", prop, "--tier", "quick", "--root", d, "--evidence-dir", ev, "--known", os.path.join(VERIF, "known_findings.json")],
                           cwd=VERIF, env=env, capture_output=True, text=True, timeout=900)
        out = p.stdout
        if var[3] == "@silent":
            if p.returncode == 0:
                return dict(id=vid, prop=prop, rule=rule, status="silent", detail="no alarm on the refactored tree", wall=round(time.time() - t0, 1))
            lines = [ln.strip() for ln in out.splitlines() if (ln.startswith("  ") and " @ " in ln) or "ANALYSIS-ERROR" in ln][:2]
            return dict(id=vid, prop=prop, rule=rule, status="FALSE-ALARM", detail=f"rc={p.returncode} " + "; ".join(lines)[:260], wall=round(time.time() - t0, 1))
        hit = [ln for ln in out.splitlines() if ln.strip().startswith(rule + " ")]
        viol = "VIOLATION property=" in out
        if p.returncode == 1 and viol and hit:
            return dict(id=vid, prop=prop, rule=rule, status="detected", detail=hit[0].strip()[:200], wall=round(time.time() - t0, 1))
        if p.returncode == 1 and viol:
            other = [ln.strip() for ln in out.splitlines() if ln.startswith("  ") and " @ " in ln][:2]
            return dict(id=vid, prop=prop, rule=rule, status="detected-other-rule", detail="; ".join(other)[:240], wall=round(time.time() - t0, 1))
        tail = "\n".join(out.splitlines()[-3:]) + p.stderr[-200:]
        return dict(id=vid, prop=prop, rule=rule, status="MISSED" if p.returncode == 0 else f"rc={p.returncode}", detail=tail[:300], wall=round(time.time() - t0, 1))
    finally:
        shutil.rmtree(d, ignore_errors=True)


def run_variants(variants, jobs: int = 16) -> list[dict]:
    scratch_root = tempfile.mkdtemp(prefix="tlsa-audit-")
    try:
        with ThreadPoolExecutor(max_workers=jobs) as ex:
            return list(ex.map(lambda v: _run_one(v, scratch_root), variants))
    finally:
        shutil.rmtree(scratch_root, ignore_errors=True)


def audit_property(prop: str) -> int:
    vs = [v for v in V if v[1] == prop] + seed_variants(prop) + refactor_variants(prop)
    if not vs:
        print(f"[{prop}] audit: no variants defined")
        return 0
    t0 = time.time()
    res = run_variants(vs)
    det = [r for r in res if r["status"] in ("detected", "detected-other-rule", "silent")]
    skipped = [r for r in res if r["status"] == "skipped"]
    missed = [r for r in res if r not in det and r not in skipped]
    for r in res:
        print(f"[{prop}] audit {r['id']}: {r['status']} ({r['rule']}) {r.get('detail', '')[:160]}")
    # append the audit to the evidence file written by the check itself
    evp = os.path.join(VERIF, "evidence", f"{prop}.json")
    try:
        ev = json.load(open(evp))
        ev["coverage"]["audit"] = dict(variants=len(vs), detected=len([r for r in det if r["status"] != "silent"]), silent_on_refactorings=len([r for r in det if r["status"] == "silent"]), skipped=len(skipped), missed=[r["id"] for r in missed], wall_s=round(time.time() - t0, 1), results=res,
                                       rule="each variant is one textual edit (or one stored seeded patch, id seed-*) applied to a scratch copy of /repo that breaks one rule instance; the check must exit 1 naming that rule")
        ev["wall_s"] = round(ev.get("wall_s", 0) + time.time() - t0, 3)
        json.dump(ev, open(evp, "w"), indent=1, default=str)
    except Exception as e:  # noqa: BLE001
        print(f"ANALYSIS-ERROR property={prop} audit could not update evidence: {e!r}")
        return 2
    print(f"[{prop}] audit: {len(det)}/{len(vs)} variants as expected (breaking edits detected, refactorings silent), {len(skipped)} skipped, {len(missed)} wrong ({time.time() - t0:.0f}s)")
    if missed:
        print(f"ANALYSIS-ERROR property={prop} audit: rules unarmed (or alarming on a behaviour-preserving refactoring) for variants {[r['id'] for r in missed]} (this says nothing about /repo)")
        return 2
    if len(skipped) > len(vs) // 2:
        print(f"ANALYSIS-ERROR property={prop} audit: {len(skipped)} of {len(vs)} variants no longer apply to the tree")
        return 2
    return 0


def main() -> None:
    props = sys.argv[1:] or sorted({v[1] for v in V})
    rc = 0
    for p in props:
        rc = max(rc, audit_property(p))
    sys.exit(rc)


if __name__ == "__main__":
    main()
