"""Build the type-resolved call graph with mypy used as a library.

Run as ``/venv/bin/python -m tlsa.cg_build <repo_root> <out.pkl>`` in a child
process (mypy's interpreter teardown is slow, so the child leaves via os._exit).
Nothing in /repo is imported: mypy only parses and type-checks the sources.
"""

from __future__ import annotations

import os
import pickle
import sys
import time


def build(repo_root: str) -> dict:
    from mypy import build as mbuild
    from mypy import nodes as N
    from mypy.find_sources import create_source_list
    from mypy.options import Options
    from mypy.types import (
        AnyType,
        CallableType,
        Instance,
        NoneType,
        Overloaded,
        TupleType,
        TypeType,
        TypeVarType,
        UnionType,
        get_proper_type,
    )

    t0 = time.time()
    os.chdir(repo_root)
    o = Options()
    o.preserve_asts = True
    o.export_types = True
    o.incremental = False
    o.cache_dir = os.devnull
    o.ignore_missing_imports = True
    o.check_untyped_defs = True
    srcs = create_source_list(["src"], o)
    r = mbuild.build(srcs, o)
    types = r.types

    # ---- class hierarchy over src
    infos: dict[str, N.TypeInfo] = {}
    for name, f in r.files.items():
        if not (name == "src" or name.startswith("src.")):
            continue
        stack = [f.names]
        seen = set()
        while stack:
            tab = stack.pop()
            for sym in tab.values():
                n = sym.node
                if isinstance(n, N.TypeInfo) and n.fullname.startswith("src.") and n.fullname not in seen:
                    seen.add(n.fullname)
                    infos[n.fullname] = n
                    stack.append(n.names)
    subs: dict[str, list] = {}
    for info in infos.values():
        for b in info.mro[1:]:
            subs.setdefault(b.fullname, []).append(info)
    methods_by_name: dict[str, list[str]] = {}
    for info in infos.values():
        for mname, sym in info.names.items():
            n = sym.node
            if isinstance(n, (N.FuncDef, N.Decorator, N.OverloadedFuncDef)):
                methods_by_name.setdefault(mname, []).append(f"{info.fullname}.{mname}")

    def node_fullname(n) -> str | None:
        if isinstance(n, N.Decorator):
            return n.func.fullname
        if isinstance(n, (N.FuncDef, N.OverloadedFuncDef)):
            return n.fullname
        return None

    def is_prop(n) -> bool:
        if isinstance(n, N.Decorator):
            return bool(n.func.is_property)
        if isinstance(n, N.OverloadedFuncDef):
            return bool(n.is_property)
        if isinstance(n, N.Var):
            return bool(n.is_property)
        return False

    def lookup_in_info(info, name: str, cha: bool) -> list[str]:
        out = []
        sym = info.get(name)
        if sym is not None and sym.node is not None:
            fn = node_fullname(sym.node)
            if fn:
                out.append(fn)
            elif isinstance(sym.node, N.Var):
                # attribute holding a callable, or a property Var
                out.append(f"{sym.node.info.fullname if sym.node.info else info.fullname}.{name}")
        if cha:
            for sub in subs.get(info.fullname, ()):
                s = sub.names.get(name)
                if s is not None and s.node is not None:
                    fn = node_fullname(s.node)
                    if fn and fn not in out:
                        out.append(fn)
        return out

    def ctor(info) -> list[str]:
        out = [f"new:{info.fullname}"]
        for nm in ("__init__", "__post_init__", "__new__"):
            sym = info.get(nm)
            if sym is not None and sym.node is not None:
                fn = node_fullname(sym.node)
                if fn and not fn.startswith("builtins.object"):
                    out.append(fn)
        return out

    def type_infos(t, depth=0) -> list:
        """(info, cha) pairs for a receiver type; [] if unknown."""
        if t is None or depth > 4:
            return []
        t = get_proper_type(t)
        if isinstance(t, Instance):
            return [(t.type, True)]
        if isinstance(t, UnionType):
            out = []
            for it in t.items:
                out.extend(type_infos(it, depth + 1))
            return out
        if isinstance(t, TupleType):
            return type_infos(t.partial_fallback, depth + 1)
        if isinstance(t, TypeType):
            return type_infos(t.item, depth + 1)
        if isinstance(t, TypeVarType):
            return type_infos(t.upper_bound, depth + 1)
        if isinstance(t, CallableType) and t.is_type_obj():
            return type_infos(t.ret_type, depth + 1)
        if isinstance(t, NoneType):
            return []
        return []

    def tname(t) -> str:
        if t is None:
            return "?"
        try:
            return str(get_proper_type(t))
        except Exception:
            return "?"

    sites: list[dict] = []
    funcs: dict[str, dict] = {}

    SKIP = {
        "node", "info", "type", "unanalyzed_type", "original_def", "var", "def_", "fullname",
        "analyzed", "partial_fallback", "names", "mro", "defn", "type_annotation", "expanded",
    }

    def resolve_callee(cal, local_defs: dict[str, str]):
        """-> (callees, resolved, recv_types, name)"""
        if isinstance(cal, N.SuperExpr):
            info = cal.info
            if info is not None:
                for b in info.mro[1:]:
                    s = b.names.get(cal.name)
                    if s is not None and s.node is not None:
                        fn = node_fullname(s.node)
                        if fn:
                            return [fn], True, [f"super:{info.fullname}"], cal.name
            return [], True, [], cal.name
        if isinstance(cal, N.NameExpr):
            n = cal.node
            if isinstance(n, (N.FuncDef, N.Decorator, N.OverloadedFuncDef)):
                fn = node_fullname(n)
                if fn and "." not in fn and fn in local_defs:
                    fn = local_defs[fn]
                return [fn], True, [], cal.name
            if isinstance(n, N.TypeInfo):
                return ctor(n), True, [], cal.name
            if isinstance(n, N.TypeAlias):
                infs = type_infos(n.target)
                out = []
                for inf, _ in infs:
                    out.extend(ctor(inf))
                return out, bool(out), [], cal.name
            if isinstance(n, N.Var):
                t = get_proper_type(types.get(cal)) if types.get(cal) is not None else get_proper_type(n.type) if n.type else None
                if isinstance(t, CallableType) and t.is_type_obj():
                    out = []
                    for inf, _ in type_infos(t.ret_type):
                        out.extend(ctor(inf))
                        for sub in subs.get(inf.fullname, ()):
                            out.extend(ctor(sub))
                    return out, bool(out), [tname(t)], cal.name
                if isinstance(t, TypeType):
                    out = []
                    for inf, _ in type_infos(t.item):
                        out.extend(ctor(inf))
                        for sub in subs.get(inf.fullname, ()):
                            out.extend(ctor(sub))
                    return out, bool(out), [tname(t)], cal.name
                if isinstance(t, Instance):
                    return lookup_in_info(t.type, "__call__", True), True, [tname(t)], cal.name
                return [], False, [tname(t)], cal.name
            return [], False, [], cal.name
        if isinstance(cal, N.MemberExpr):
            ex = cal.expr
            if isinstance(ex, N.RefExpr) and isinstance(ex.node, N.MypyFile):
                return [cal.fullname or f"{ex.node.fullname}.{cal.name}"], True, [f"module:{ex.node.fullname}"], cal.name
            if isinstance(ex, N.RefExpr) and isinstance(ex.node, N.TypeInfo):
                info = ex.node
                sym = info.get(cal.name)
                if sym is not None and isinstance(sym.node, N.TypeInfo):
                    return ctor(sym.node), True, [f"class:{info.fullname}"], cal.name
                res = lookup_in_info(info, cal.name, False)
                return res, bool(res), [f"class:{info.fullname}"], cal.name
            rt = types.get(ex)
            infs = type_infos(rt)
            out: list[str] = []
            for inf, cha in infs:
                # method returning a class object (e.g. self._config_class(...))
                for c in lookup_in_info(inf, cal.name, cha):
                    if c not in out:
                        out.append(c)
            ct = get_proper_type(types.get(cal)) if types.get(cal) is not None else None
            if isinstance(ct, CallableType) and ct.is_type_obj():
                for inf, _ in type_infos(ct.ret_type):
                    out.extend(x for x in ctor(inf) if x not in out)
                    for sub in subs.get(inf.fullname, ()):
                        out.extend(x for x in ctor(sub) if x not in out)
            if isinstance(ct, TypeType):
                for inf, _ in type_infos(ct.item):
                    out.extend(x for x in ctor(inf) if x not in out)
                    for sub in subs.get(inf.fullname, ()):
                        out.extend(x for x in ctor(sub) if x not in out)
            if infs:
                return out, True, [inf.fullname for inf, _ in infs], cal.name
            # unresolved receiver: over-approximate by method name over src
            return list(methods_by_name.get(cal.name, [])), False, [tname(rt)], cal.name
        return [], False, [], ""

    def span(n):
        return (n.line, n.column, getattr(n, "end_line", None) or n.line, getattr(n, "end_column", None) or -1)

    def walk(n, caller: str, modname: str, cls: str | None, local_defs: dict[str, str], seen: set, callee_ids: set):
        if id(n) in seen:
            return
        seen.add(id(n))
        if isinstance(n, N.Decorator):
            # decorators evaluated in the enclosing scope
            for d in n.decorators:
                walk(d, caller, modname, cls, local_defs, seen, callee_ids)
            walk(n.func, caller, modname, cls, local_defs, seen, callee_ids)
            return
        if isinstance(n, N.FuncDef):
            if cls and caller.endswith(".<module>"):
                q = f"{cls}.{n.name}"
            elif caller.endswith(".<module>"):
                q = f"{modname}.{n.name}"
            else:
                q = f"{caller}.{n.name}"
                sites.append(dict(caller=caller, module=modname, span=span(n), kind="nested", callees=[q], name=n.name, resolved=True, recv=[], argtypes={}))
                local_defs = dict(local_defs)
                local_defs[n.name] = q
            if q in funcs:
                q = f"{q}#{n.line}"
            ret = None
            params = []
            if isinstance(n.type, CallableType):
                ret = tname(n.type.ret_type)
                params = [(a or "", tname(t)) for a, t in zip(n.type.arg_names, n.type.arg_types)]
            funcs[q] = dict(module=modname, line=n.line, end_line=n.end_line, cls=cls, ret=ret, params=params, is_property=bool(n.is_property), is_abstract=n.abstract_status != 0)
            # pre-register nested defs so forward references resolve
            inner_defs = dict(local_defs)
            for st in _iter_nested_defs(n.body):
                inner_defs[st.name] = f"{q}.{st.name}"
            for a in n.arguments:
                if a.initializer is not None:
                    walk(a.initializer, caller, modname, cls, local_defs, seen, callee_ids)
            walk(n.body, q, modname, None if not caller.endswith(".<module>") else cls, inner_defs, seen, callee_ids)
            return
        if isinstance(n, N.ClassDef):
            for d in n.decorators:
                walk(d, caller, modname, cls, local_defs, seen, callee_ids)
            for b in n.base_type_exprs:
                walk(b, caller, modname, cls, local_defs, seen, callee_ids)
            cq = n.info.fullname if n.info else f"{modname}.{n.name}"
            walk(n.defs, caller if caller.endswith(".<module>") else caller, modname, cq, local_defs, seen, callee_ids)
            return
        if isinstance(n, N.CallExpr):
            cal = n.callee
            callee_ids.add(id(cal))
            callees, resolved, recv, name = resolve_callee(cal, local_defs)
            at = {}
            for i, (a, an) in enumerate(zip(n.args, n.arg_names)):
                at[an if an else i] = tname(types.get(a))
            sites.append(dict(caller=caller, module=modname, span=span(n), kind="call", callees=callees, name=name, resolved=resolved, recv=recv, argtypes=at, rtype=tname(types.get(n))))
        elif isinstance(n, N.MemberExpr) and id(n) not in callee_ids:
            ex = n.expr
            done = False
            if isinstance(ex, N.RefExpr) and isinstance(ex.node, N.MypyFile):
                tgt = n.node if hasattr(n, "node") else None
                if isinstance(tgt, (N.FuncDef, N.Decorator, N.OverloadedFuncDef)):
                    sites.append(dict(caller=caller, module=modname, span=span(n), kind="ref", callees=[node_fullname(tgt)], name=n.name, resolved=True, recv=[], argtypes={}))
                done = True
            if not done:
                if isinstance(ex, N.RefExpr) and isinstance(ex.node, N.TypeInfo):
                    infs = [(ex.node, False)]
                else:
                    infs = type_infos(types.get(ex))
                for inf, cha in infs:
                    sym = inf.get(n.name)
                    if sym is None or sym.node is None:
                        continue
                    if is_prop(sym.node):
                        sites.append(dict(caller=caller, module=modname, span=span(n), kind="prop", callees=lookup_in_info(inf, n.name, cha), name=n.name, resolved=True, recv=[inf.fullname], argtypes={}))
                    elif isinstance(sym.node, (N.FuncDef, N.Decorator, N.OverloadedFuncDef)):
                        sites.append(dict(caller=caller, module=modname, span=span(n), kind="ref", callees=lookup_in_info(inf, n.name, cha), name=n.name, resolved=True, recv=[inf.fullname], argtypes={}))
        elif isinstance(n, N.NameExpr) and id(n) not in callee_ids:
            tgt = n.node
            if isinstance(tgt, (N.FuncDef, N.Decorator, N.OverloadedFuncDef)):
                fn = node_fullname(tgt)
                if fn and "." not in fn and fn in local_defs:
                    fn = local_defs[fn]
                sites.append(dict(caller=caller, module=modname, span=span(n), kind="ref", callees=[fn], name=n.name, resolved=True, recv=[], argtypes={}))
            elif isinstance(tgt, N.TypeInfo) and tgt.fullname.startswith("src."):
                sites.append(dict(caller=caller, module=modname, span=span(n), kind="classref", callees=ctor(tgt), name=n.name, resolved=True, recv=[], argtypes={}))
        for a in dir(type(n)):
            if a.startswith("_") or a in SKIP:
                continue
            try:
                v = getattr(n, a)
            except Exception:
                continue
            if isinstance(v, N.Node):
                walk(v, caller, modname, cls, local_defs, seen, callee_ids)
            elif isinstance(v, (list, tuple)):
                for x in v:
                    if isinstance(x, N.Node):
                        walk(x, caller, modname, cls, local_defs, seen, callee_ids)
                    elif isinstance(x, (list, tuple)):
                        for y in x:
                            if isinstance(y, N.Node):
                                walk(y, caller, modname, cls, local_defs, seen, callee_ids)

    def _iter_nested_defs(block):
        out = []
        stack = list(block.body) if block is not None else []
        while stack:
            s = stack.pop()
            if isinstance(s, N.FuncDef):
                out.append(s)
                continue
            if isinstance(s, N.Decorator):
                out.append(s.func)
                continue
            if isinstance(s, N.ClassDef):
                continue
            for a in ("body", "else_body", "finally_body", "handlers"):
                v = getattr(s, a, None)
                if isinstance(v, N.Block):
                    stack.extend(v.body)
                elif isinstance(v, list):
                    for x in v:
                        if isinstance(x, N.Block):
                            stack.extend(x.body)
        return out

    sys.setrecursionlimit(10000)
    nfiles = 0
    for name, f in sorted(r.files.items()):
        if not (name == "src" or name.startswith("src.")):
            continue
        nfiles += 1
        seen: set = set()
        callee_ids: set = set()
        for d in f.defs:
            walk(d, f"{name}.<module>", name, None, {}, seen, callee_ids)

    class_info = {}
    for fn, info in infos.items():
        class_info[fn] = dict(
            mro=[b.fullname for b in info.mro],
            methods=sorted(k for k, s in info.names.items() if isinstance(s.node, (N.FuncDef, N.Decorator, N.OverloadedFuncDef))),
            fields={k: tname(s.node.type) for k, s in info.names.items() if isinstance(s.node, N.Var)},
        )
    return dict(
        sites=sites,
        funcs=funcs,
        classes=class_info,
        mypy_errors=list(r.errors),
        files=nfiles,
        build_s=time.time() - t0,
    )


def main() -> None:
    repo_root, out = sys.argv[1], sys.argv[2]
    try:
        data = build(repo_root)
    except BaseException as e:  # noqa: BLE001
        import traceback

        traceback.print_exc()
        sys.stderr.write(f"cg_build failed: {e!r}\n")
        sys.stderr.flush()
        os._exit(3)
    tmp = out + f".{os.getpid()}.tmp"
    with open(tmp, "wb") as fh:
        pickle.dump(data, fh, protocol=pickle.HIGHEST_PROTOCOL)
    os.replace(tmp, out)
    sys.stdout.flush()
    os._exit(0)


if __name__ == "__main__":
    main()
