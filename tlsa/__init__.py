"""tlsa - thai-lint static analysis: repository-specific structural checkers.

Nothing under /repo/src is imported or executed by this package; sources are read
as text, parsed with ``ast`` and type-resolved with mypy used as a library.
"""

REPO = "/repo"
VERIF = "/verif"
