"""Helper inlining for structural rules.

Most rules ask "does this function do X" by scanning the function's syntax tree.  A maintainer who extracts part of
the function into a private helper (or moves a helper next door) must not change the verdict, so rules scan the
*flattened* function instead: the function's own statements plus, for every call that resolves to a function of the
repository (same module, same class / a base class, or an imported src.* function), a copy of the callee's body in
which each parameter is replaced by the argument expression of that call (`ast.NodeTransformer`, parameters bound to
non-trivial argument expressions are substituted as the expression itself).  Expansion is recursive up to a depth
bound and never re-enters a function already on the expansion stack.

flat_nodes(repo, f)      -> iterator over ast nodes of f and of every expanded callee body
flat_bodies(repo, f)     -> list of (callee Func, call node, substituted body statements, depth)
flat_unparse(repo, f)    -> text of f followed by the substituted callee bodies (for rules that test text)
"""

from __future__ import annotations

import ast
import copy

from .facts import Func

MAX_DEPTH = 3


class _Subst(ast.NodeTransformer):
    def __init__(self, mapping: dict[str, ast.expr]):
        self.mapping = mapping

    def visit_Name(self, node: ast.Name):
        if isinstance(node.ctx, ast.Load) and node.id in self.mapping:
            return ast.copy_location(copy.deepcopy(self.mapping[node.id]), node)
        return node


def resolve_call(repo, f: Func, call: ast.Call) -> Func | None:
    """The repository function a call inside f refers to: `name(...)` (same module or imported), `self.m(...)` /
    `cls.m(...)` (f's class and its bases), `Class.m(...)` / `module.func(...)` through the module's imports."""
    fn = call.func
    if isinstance(fn, ast.Name):
        q = f"{f.module.name}.{fn.id}"
        g = repo.funcs.get(q)
        if g is not None and g.parent is None:
            return g
        r = repo.resolve(f.module, fn.id)
        if r and r in repo.funcs:
            return repo.funcs[r]
        return None
    if isinstance(fn, ast.Attribute):
        if isinstance(fn.value, ast.Name) and fn.value.id in ("self", "cls") and f.cls is not None:
            return repo.find_method(f.cls.qual, fn.attr)
        try:
            dotted = ast.unparse(fn)
        except Exception:  # noqa: BLE001
            return None
        if dotted.count(".") <= 2 and all(part.isidentifier() for part in dotted.split(".")):
            r = repo.resolve(f.module, dotted)
            if r and r in repo.funcs:
                return repo.funcs[r]
    return None


def _bind(g: Func, call: ast.Call) -> dict[str, ast.expr]:
    a = g.node.args
    params = [p.arg for p in a.posonlyargs + a.args]
    if g.cls is not None and params and params[0] in ("self", "cls") and not any(isinstance(d, ast.Name) and d.id == "staticmethod" for d in g.node.decorator_list):
        params = params[1:]
    mapping: dict[str, ast.expr] = {}
    for i, arg in enumerate(call.args):
        if isinstance(arg, ast.Starred):
            break
        if i < len(params):
            mapping[params[i]] = arg
    names = set(params) | {p.arg for p in a.kwonlyargs}
    for k in call.keywords:
        if k.arg and k.arg in names:
            mapping[k.arg] = k.value
    # defaults for parameters the call does not pass
    defaults = dict(zip([p.arg for p in (a.posonlyargs + a.args)][-len(a.defaults):] if a.defaults else [], a.defaults))
    for p, d in defaults.items():
        mapping.setdefault(p, d)
    for p, d in zip(a.kwonlyargs, a.kw_defaults):
        if d is not None:
            mapping.setdefault(p.arg, d)
    # a parameter that the callee re-binds cannot be substituted
    for n in ast.walk(g.node):
        if isinstance(n, ast.Name) and isinstance(n.ctx, ast.Store) and n.id in mapping:
            mapping.pop(n.id, None)
    return mapping


def parg(repo, f: Func, call: ast.Call, i: int, callee: Func | None = None):
    """The expression bound to the i-th parameter (self excluded) of the called function, whether it was written
    positionally or by keyword.  Without a resolvable callee: the i-th positional argument, if any."""
    if i < len(call.args) and not any(isinstance(a, ast.Starred) for a in call.args[: i + 1]):
        return call.args[i]
    g = callee or resolve_call(repo, f, call)
    if g is None:
        return None
    a = g.node.args
    params = [p.arg for p in a.posonlyargs + a.args]
    if g.cls is not None and params and params[0] in ("self", "cls"):
        params = params[1:]
    if i >= len(params):
        return None
    return next((k.value for k in call.keywords if k.arg == params[i]), None)


def flat_bodies(repo, f: Func, depth: int = MAX_DEPTH, only_module_local: bool = False) -> list[tuple[Func, ast.Call, list[ast.stmt], int]]:
    cache = getattr(repo, "_flat_cache", None)
    if cache is None:
        cache = repo._flat_cache = {}
    key = (f.qual, depth, only_module_local)
    if key in cache:
        return cache[key]
    out: list[tuple[Func, ast.Call, list[ast.stmt], int]] = []

    def expand(owner: Func, stmts: list[ast.AST], stack: tuple[str, ...], d: int) -> None:
        if d <= 0:
            return
        for root in stmts:
            for call in [n for n in ast.walk(root) if isinstance(n, ast.Call)]:
                g = resolve_call(repo, owner, call)
                if g is None or g.qual in stack or not g.module.name.startswith("src"):
                    continue
                if only_module_local and g.module is not owner.module:
                    continue
                mapping = _bind(g, call)
                body = [copy.deepcopy(s) for s in g.node.body]
                if body and isinstance(body[0], ast.Expr) and isinstance(body[0].value, ast.Constant) and isinstance(body[0].value.value, str):
                    body = body[1:]
                sub = _Subst(mapping)
                body = [ast.fix_missing_locations(sub.visit(s)) for s in body]
                out.append((g, call, body, MAX_DEPTH - d + 1))
                # calls inside the substituted body are resolved in the callee's own module/class context
                expand(g, body, stack + (g.qual,), d - 1)

    expand(f, list(f.node.body), (f.qual,), depth)
    cache[key] = out
    return out


def flat_nodes(repo, f: Func, depth: int = MAX_DEPTH):
    yield from ast.walk(f.node)
    for _g, _call, body, _d in flat_bodies(repo, f, depth):
        for s in body:
            yield from ast.walk(s)


def flat_stmts(repo, f: Func, depth: int = MAX_DEPTH) -> list[ast.stmt]:
    out = list(f.node.body)
    for _g, _call, body, _d in flat_bodies(repo, f, depth):
        out.extend(body)
    return out


def flat_unparse(repo, f: Func, depth: int = MAX_DEPTH) -> str:
    parts = [ast.unparse(f.node)]
    for g, _call, body, _d in flat_bodies(repo, f, depth):
        parts.append(f"# <- {g.qual}\n" + "\n".join(ast.unparse(s) for s in body))
    return "\n".join(parts)


def callees(repo, f: Func, depth: int = MAX_DEPTH) -> list[Func]:
    seen, out = set(), []
    for g, _c, _b, _d in flat_bodies(repo, f, depth):
        if g.qual not in seen:
            seen.add(g.qual)
            out.append(g)
    return out


def flat_calls(repo, f: Func, depth: int = MAX_DEPTH) -> list[tuple[ast.Call, bool]]:
    """Every call of the flattened function with a flag: is it (transitively) executed inside a loop of the flattened
    function - i.e. inside a for/while of the body it stands in, or in a helper whose call site is inside a loop."""
    out: list[tuple[ast.Call, bool]] = []

    def in_loop_map(stmts: list[ast.AST]) -> dict[int, bool]:
        m: dict[int, bool] = {}

        def rec(n: ast.AST, flag: bool) -> None:
            if isinstance(n, ast.Call):
                m[id(n)] = flag
            inner = flag or isinstance(n, (ast.For, ast.AsyncFor, ast.While, ast.ListComp, ast.SetComp, ast.DictComp, ast.GeneratorExp))
            for c in ast.iter_child_nodes(n):
                rec(c, inner)

        for s in stmts:
            rec(s, False)
        return m

    def expand(owner: Func, stmts: list[ast.AST], stack: tuple[str, ...], d: int, outer: bool) -> None:
        flags = in_loop_map(stmts)
        for root in stmts:
            for call in [n for n in ast.walk(root) if isinstance(n, ast.Call)]:
                fl = outer or flags.get(id(call), False)
                out.append((call, fl))
                if d <= 0:
                    continue
                g = resolve_call(repo, owner, call)
                if g is None or g.qual in stack or not g.module.name.startswith("src"):
                    continue
                mapping = _bind(g, call)
                body = [copy.deepcopy(s) for s in g.node.body]
                sub = _Subst(mapping)
                body = [ast.fix_missing_locations(sub.visit(s)) for s in body]
                expand(g, body, stack + (g.qual,), d - 1, fl)

    expand(f, list(f.node.body), (f.qual,), depth, False)
    return out


_REPO = None


def set_repo(repo) -> None:
    global _REPO
    _REPO = repo


def W(f: Func, depth: int = 2):
    """Drop-in for ast.walk(f.node) in rules that scan one function for a construct: the function's own nodes followed
    by the bodies of the same-module helpers it calls (parameters substituted), so that `extract method` is invisible."""
    yield from ast.walk(f.node)
    if _REPO is None:
        return
    for _g, _call, body, _d in flat_bodies(_REPO, f, depth, only_module_local=True):
        for s in body:
            yield from ast.walk(s)


def expr_nodes(repo, owner: Func, e: ast.AST, depth: int = 2):
    """Nodes of an expression/statement plus, for every call in it that resolves to a repository function, the nodes
    of that function's (substituted) body - recursively up to depth."""
    yield from ast.walk(e)
    if depth <= 0:
        return
    for call in [n for n in ast.walk(e) if isinstance(n, ast.Call)]:
        g = resolve_call(repo, owner, call)
        if g is None or not g.module.name.startswith("src"):
            continue
        mapping = _bind(g, call)
        sub = _Subst(mapping)
        for s in g.node.body:
            body = ast.fix_missing_locations(sub.visit(copy.deepcopy(s)))
            yield from expr_nodes(repo, g, body, depth - 1)
