"""Shared AST predicates used by the property rules."""

from __future__ import annotations

import ast
from typing import Callable, Iterable

from . import cfg
from .facts import Func, call_name, dotted


def is_call_named(n: ast.AST, *names: str) -> bool:
    return isinstance(n, ast.Call) and call_name(n) in names


def contains(root: ast.AST, pred: Callable[[ast.AST], bool]) -> bool:
    return any(pred(n) for n in ast.walk(root))


def find_all(root: ast.AST, pred: Callable[[ast.AST], bool]) -> list[ast.AST]:
    return [n for n in ast.walk(root) if pred(n)]


def truth_of(test: ast.expr, taken: bool, pred: Callable[[ast.AST], bool]) -> bool | None:
    """Given that `test` evaluated to `taken`, what is the truth value of the sub-expression
    matching pred?  True/False when implied, None when not implied."""
    if pred(test):
        return taken
    if isinstance(test, ast.UnaryOp) and isinstance(test.op, ast.Not):
        r = truth_of(test.operand, not taken, pred)
        return r
    if isinstance(test, ast.BoolOp):
        if isinstance(test.op, ast.Or) and not taken:
            # all operands false
            for v in test.values:
                r = truth_of(v, False, pred)
                if r is not None:
                    return r
        if isinstance(test.op, ast.And) and taken:
            for v in test.values:
                r = truth_of(v, True, pred)
                if r is not None:
                    return r
    return None


def known_before(path: cfg.Path, idx: int, pred: Callable[[ast.AST], bool]) -> bool | None:
    """Truth value of the (first) expression matching pred as established by test events before idx."""
    for ev in path[:idx]:
        if ev[0] == "test":
            r = truth_of(ev[1], ev[2], pred)
            if r is not None:
                return r
    return None


def names_in(node: ast.AST) -> set[str]:
    return {n.id for n in ast.walk(node) if isinstance(n, ast.Name)}


def attr_chain(e: ast.AST) -> str | None:
    return dotted(e)


def str_consts(node: ast.AST) -> list[str]:
    return [n.value for n in ast.walk(node) if isinstance(n, ast.Constant) and isinstance(n.value, str)]


def body_without_doc(f: Func) -> list[ast.stmt]:
    b = f.node.body
    if b and isinstance(b[0], ast.Expr) and isinstance(b[0].value, ast.Constant) and isinstance(b[0].value.value, str):
        return b[1:]
    return b


def func_paths(f: Func, limit: int = 4000):
    return cfg.enumerate_paths(body_without_doc(f), limit)


def handlers_covering(func_node: ast.AST, target: ast.AST) -> list[ast.ExceptHandler]:
    """Exception handlers of try statements whose *body* encloses target (innermost first)."""
    out: list[ast.ExceptHandler] = []

    def rec(n: ast.AST, stack: list[ast.ExceptHandler]) -> bool:
        if n is target:
            out.extend(reversed(stack))
            return True
        if isinstance(n, ast.Try) or n.__class__.__name__ == "TryStar":
            for st in n.body:
                if rec(st, stack + list(n.handlers)):
                    return True
            for part in (n.handlers, n.orelse, n.finalbody):
                for st in part:
                    if rec(st, stack):
                        return True
            return False
        if isinstance(n, (ast.With, ast.AsyncWith)):
            sup = []
            for it in n.items:
                c = it.context_expr
                if isinstance(c, ast.Call) and call_name(c) == "suppress":
                    h = ast.ExceptHandler(type=ast.Tuple(elts=list(c.args), ctx=ast.Load()) if len(c.args) != 1 else c.args[0], name=None, body=[])
                    sup.append(h)
            for it in n.items:
                if rec(it.context_expr, stack):
                    return True
            for st in n.body:
                if rec(st, stack + sup):
                    return True
            return False
        for c in ast.iter_child_nodes(n):
            if rec(c, stack):
                return True
        return False

    rec(func_node, [])
    return out


def handler_names(h: ast.ExceptHandler) -> set[str]:
    if h.type is None:
        return {"BaseException"}
    t = h.type
    elts = t.elts if isinstance(t, ast.Tuple) else [t]
    out = set()
    for e in elts:
        d = dotted(e)
        if d:
            out.add(d.split(".")[-1])
    return out


EXC_PARENTS = {
    "UnicodeDecodeError": ["UnicodeError", "ValueError"],
    "UnicodeEncodeError": ["UnicodeError", "ValueError"],
    "UnicodeError": ["ValueError"],
    "JSONDecodeError": ["ValueError"],
    "TOMLDecodeError": ["ValueError"],
    "ValueError": ["Exception"],
    "KeyError": ["LookupError", "Exception"],
    "IndexError": ["LookupError", "Exception"],
    "LookupError": ["Exception"],
    "SyntaxError": ["Exception"],
    "IndentationError": ["SyntaxError", "Exception"],
    "RecursionError": ["RuntimeError", "Exception"],
    "RuntimeError": ["Exception"],
    "OSError": ["Exception"],
    "FileNotFoundError": ["OSError", "Exception"],
    "PermissionError": ["OSError", "Exception"],
    "IOError": ["OSError", "Exception"],
    "TypeError": ["Exception"],
    "AttributeError": ["Exception"],
    "YAMLError": ["Exception"],
    "ConfigParseError": ["Exception"],
    "MemoryError": ["Exception"],
    "Exception": ["BaseException"],
}


def exc_ancestors(name: str) -> set[str]:
    out = {name}
    todo = [name]
    while todo:
        n = todo.pop()
        for p in EXC_PARENTS.get(n, ["Exception", "BaseException"] if n not in ("BaseException",) else []):
            if p not in out:
                out.add(p)
                todo.append(p)
    return out


def _reraises(h: ast.ExceptHandler) -> bool:
    """handler whose body is a bare `raise` (comments/docstrings aside): the exception keeps propagating"""
    body = [s for s in h.body if not (isinstance(s, ast.Expr) and isinstance(s.value, ast.Constant))]
    return len(body) == 1 and isinstance(body[0], ast.Raise) and body[0].exc is None


def is_caught(func_node: ast.AST, target: ast.AST, exc: str) -> bool:
    """Is an exception of class `exc` raised at `target` stopped inside func_node?  Handlers are consulted
    innermost try first and, within one try, in source order (first match wins); a matching handler that only
    re-raises passes the exception on to the next enclosing try."""
    anc = exc_ancestors(exc)
    hs = handlers_covering(func_node, target)
    # group consecutive handlers that belong to the same try statement
    groups: list[list[ast.ExceptHandler]] = []
    owner = {}
    for n in ast.walk(func_node):
        if isinstance(n, ast.Try) or n.__class__.__name__ == "TryStar":
            for h in n.handlers:
                owner[id(h)] = id(n)
    for h in hs:
        key = owner.get(id(h), id(h))
        if groups and owner.get(id(groups[-1][0]), id(groups[-1][0])) == key:
            groups[-1].append(h)
        else:
            groups.append([h])
    for g in groups:
        g_sorted = sorted(g, key=lambda h: getattr(h, "lineno", 0))
        for h in g_sorted:
            if handler_names(h) & anc:
                if _reraises(h):
                    break  # propagates to the next enclosing try
                return True
    return False


def enclosing_stmt_chain(func_node: ast.AST, target: ast.AST) -> list[ast.AST]:
    """Ancestors of target inside func_node (outermost first)."""
    chain: list[ast.AST] = []

    def rec(n: ast.AST) -> bool:
        if n is target:
            return True
        for c in ast.iter_child_nodes(n):
            if rec(c):
                chain.append(n)
                return True
        return False

    rec(func_node)
    return list(reversed(chain))


class Implication:
    """Does `expr evaluating to val` imply that the atomic predicate has truth value `want`?

    atom(node) -> True when node *is* the atomic predicate (e.g. `value in config.allowed_numbers`).
    Calls to methods of `cls_qual` (self.x(...)) and to functions of the same module are summarised
    over their CFG paths: every path on which the result can equal `val` must establish the atom."""

    def __init__(self, repo, cls_qual, atom, depth: int = 3):
        self.repo = repo
        self.cls_qual = cls_qual
        self.atom = atom
        self.depth = depth

    def _callee(self, f_module, e: ast.Call):
        if isinstance(e.func, ast.Attribute) and isinstance(e.func.value, ast.Name) and e.func.value.id == "self" and self.cls_qual:
            return self.repo.find_method(self.cls_qual, e.func.attr)
        if isinstance(e.func, ast.Name) and f_module is not None:
            q = self.repo.resolve(f_module, e.func.id)
            return self.repo.funcs.get(q) if q else None
        return None

    def implies(self, e: ast.AST, val: bool, want: bool, module=None, depth: int | None = None) -> bool:
        depth = self.depth if depth is None else depth
        if self.atom(e):
            return val == want
        if isinstance(e, ast.UnaryOp) and isinstance(e.op, ast.Not):
            return self.implies(e.operand, not val, want, module, depth)
        if isinstance(e, ast.BoolOp):
            if isinstance(e.op, ast.And) and val:
                return any(self.implies(v, True, want, module, depth) for v in e.values)
            if isinstance(e.op, ast.Or) and not val:
                return any(self.implies(v, False, want, module, depth) for v in e.values)
            return False
        if isinstance(e, ast.Call) and depth > 0:
            g = self._callee(module, e)
            if g is None:
                return False
            gp = func_paths(g, 800)
            if gp is None:
                return False
            relevant = False
            for p in gp:
                t = p[-1]
                if t[0] != "return" or t[1].value is None:
                    if t[0] == "end" and val is False:
                        # falls off the end: returns None (falsy)
                        relevant = True
                        if not self.established(p, len(p), want, g.module, depth - 1):
                            return False
                    continue
                rv = t[1].value
                if isinstance(rv, ast.Constant) and bool(rv.value) != val:
                    continue
                relevant = True
                if self.established(p, len(p) - 1, want, g.module, depth - 1):
                    continue
                if not self.implies(rv, val, want, g.module, depth - 1):
                    return False
            return relevant
        return False

    def established(self, path, idx: int, want: bool, module=None, depth: int | None = None) -> bool:
        depth = self.depth if depth is None else depth
        return any(ev[0] == "test" and self.implies(ev[1], ev[2], want, module, depth) for ev in path[:idx])


def expand_locals(fnode: ast.AST, e: ast.expr | None, depth: int = 3) -> ast.expr | None:
    """e with every local name that has exactly one definition in fnode replaced by that definition (also through
    `a, b = x, y` tuple assignments), repeatedly: `line=row + 1` with `row, col = n.start_point[0], n.start_point[1]`
    becomes `n.start_point[0] + 1`.  Names with zero or several definitions (parameters, loop variables) stay."""
    import copy

    if e is None:
        return None
    defs: dict[str, list[ast.expr]] = {}
    for n in ast.walk(fnode):
        if isinstance(n, ast.Assign):
            for t in n.targets:
                if isinstance(t, ast.Name):
                    defs.setdefault(t.id, []).append(n.value)
                elif isinstance(t, (ast.Tuple, ast.List)) and isinstance(n.value, (ast.Tuple, ast.List)) and len(t.elts) == len(n.value.elts):
                    for a, b in zip(t.elts, n.value.elts):
                        if isinstance(a, ast.Name):
                            defs.setdefault(a.id, []).append(b)
                elif isinstance(t, (ast.Tuple, ast.List)):
                    for a in t.elts:
                        if isinstance(a, ast.Name):
                            defs.setdefault(a.id, []).extend([n.value, n.value])  # opaque: never substituted
        elif isinstance(n, (ast.AnnAssign,)) and isinstance(n.target, ast.Name) and n.value is not None:
            defs.setdefault(n.target.id, []).append(n.value)
        elif isinstance(n, (ast.For, ast.comprehension)):
            for a in ast.walk(n.target):
                if isinstance(a, ast.Name):
                    defs.setdefault(a.id, []).extend([n.iter, n.iter])
        elif isinstance(n, ast.AugAssign) and isinstance(n.target, ast.Name):
            defs.setdefault(n.target.id, []).extend([n.value, n.value])

    class S(ast.NodeTransformer):
        def visit_Name(self, node):
            if isinstance(node.ctx, ast.Load) and len(defs.get(node.id, ())) == 1:
                return copy.deepcopy(defs[node.id][0])
            return node

    out = copy.deepcopy(e)
    for _ in range(depth):
        new = S().visit(out)
        if ast.dump(new) == ast.dump(out):
            break
        out = new
    return ast.fix_missing_locations(out)


def alpha(fnode, node) -> str:
    """Text of `node` with every local variable / parameter of the enclosing function replaced by v1, v2, ... in order of
    first appearance: a key that survives a rename of locals (finding keys must not contain the author's variable names)."""
    import copy

    local = {a.arg for a in ast.walk(fnode) if isinstance(a, ast.arg)}
    local |= {n.id for n in ast.walk(fnode) if isinstance(n, ast.Name) and isinstance(n.ctx, (ast.Store, ast.Del))}
    cp = copy.deepcopy(node)
    order: dict[str, str] = {}
    # deterministic order: position in the unparsed text = pre-order of Name nodes by (lineno, col)
    names = sorted([n for n in ast.walk(cp) if isinstance(n, ast.Name) and n.id in local], key=lambda n: (getattr(n, "lineno", 0), getattr(n, "col_offset", 0)))
    for n in names:
        order.setdefault(n.id, f"v{len(order) + 1}")
    for n in names:
        n.id = order[n.id]
    return " ".join(ast.unparse(cp).split())
