#!/usr/bin/env python3
"""Confirm a seeded breakage and run the checks against it.

usage: seed_eval.py <id> <property> <patch> <demo.py> [--needs "..."] [--keep]
 1. fresh scratch worktree of /repo HEAD: demo must exit 0; apply patch; demo must exit != 0; pinned test suite must
    still match BASELINE stable_pass; worktree removed.
 2. git -C /repo apply <patch>; run every check (quick); git -C /repo checkout -- . ; report which checks raised VIOLATION.
 3. with --keep: store patch, demo and meta.json under /verif/seeded/<id>/.
"""
import json, os, shutil, subprocess, sys, tempfile, time

args = sys.argv[1:]
sid, prop, patch, demo = args[:4]
needs = args[args.index("--needs") + 1] if "--needs" in args else ""
keep = "--keep" in args
env_for = lambda wt: dict(os.environ, PYTHONPATH=wt, PYTHONDONTWRITEBYTECODE="1")

def run(cmd, cwd, env=None, timeout=1800):
    p = subprocess.run(cmd, cwd=cwd, env=env, capture_output=True, text=True, timeout=timeout)
    return p.returncode, (p.stdout + p.stderr)

wt = tempfile.mkdtemp(prefix=f"seedwt-{sid}-", dir="/tmp")
os.rmdir(wt)
meta = dict(id=sid, property=prop, needs=needs, ran=[])
try:
    rc, out = run(["git", "-C", "/repo", "worktree", "add", "-q", "--detach", wt, "HEAD"], "/repo")
    assert rc == 0, out
    open(os.path.join(wt, "_demo.py"), "w").write(open(demo).read().replace("/tmp/wt/" + prop + "/", wt + "/").replace("/tmp/wt/" + prop, wt))
    rc0, out0 = run(["/venv/bin/python", "_demo.py"], wt, env_for(wt))
    meta["ran"].append(f"clean tree: demo exit {rc0}")
    rc, out = run(["git", "apply", os.path.abspath(patch)], wt)
    assert rc == 0, "patch does not apply: " + out
    rc1, out1 = run(["/venv/bin/python", "_demo.py"], wt, env_for(wt))
    meta["ran"].append(f"patched tree: demo exit {rc1}")
    rcb, outb = run(["/venv/bin/python", "/verif/tools/baseline_check.py", wt], wt, env_for(wt))
    meta["ran"].append("patched tree: pinned suite " + outb.strip().splitlines()[0])
    meta["confirmed"] = (rc0 == 0 and rc1 != 0 and rcb == 0)
    print(f"[{sid}] demo clean={rc0} patched={rc1} suite={'ok' if rcb == 0 else 'CHANGED'} -> confirmed={meta['confirmed']}")
    if rc0 != 0:
        print(out0[-600:])
    if rcb != 0:
        print(outb[-800:])
    via_root = "--via-root" in args
    caught = {}
    if via_root:
        # run the checks on the patched scratch worktree (does not touch /repo: safe to run in the background)
        ev = tempfile.mkdtemp(prefix="seed-ev-")
        envc = dict(os.environ, PYTHONDONTWRITEBYTECODE="1", TLSA_CACHE_DIR=os.path.join(ev, "cache"))
        for i in range(1, 21):
            p = f"C{i:02d}"
            rc, out = run(["/venv/bin/python", "-m", "tlsa.main", p, "--root", wt, "--evidence-dir", ev], "/verif", envc)
            if rc == 1:
                caught[p] = [l.strip() for l in out.splitlines() if l.startswith("  ") and " @ " in l][:3]
            elif rc == 2:
                caught[p] = ["ANALYSIS-ERROR " + " | ".join(l for l in out.splitlines() if "ANALYSIS-ERROR" in l)[:200]]
        shutil.rmtree(ev, ignore_errors=True)
finally:
    subprocess.run(["git", "-C", "/repo", "worktree", "remove", "--force", wt], capture_output=True)
    shutil.rmtree(wt, ignore_errors=True)

if not via_root:
    # run the checks against the patched /repo itself
    st = subprocess.run(["git", "-C", "/repo", "status", "--porcelain"], capture_output=True, text=True).stdout.strip()
    assert not st, "/repo is not clean: " + st
    rc, out = run(["git", "-C", "/repo", "apply", os.path.abspath(patch)], "/repo")
    assert rc == 0, out
    try:
        ev = tempfile.mkdtemp(prefix="seed-ev-")
        for i in range(1, 21):
            p = f"C{i:02d}"
            rc, out = run(["/venv/bin/python", "-m", "tlsa.main", p, "--evidence-dir", ev], "/verif", dict(os.environ, PYTHONDONTWRITEBYTECODE="1"))
            if rc == 1:
                caught[p] = [l.strip() for l in out.splitlines() if l.startswith("  ") and " @ " in l][:3]
            elif rc == 2:
                caught[p] = ["ANALYSIS-ERROR " + " | ".join(l for l in out.splitlines() if "ANALYSIS-ERROR" in l)[:200]]
        shutil.rmtree(ev, ignore_errors=True)
    finally:
        subprocess.run(["git", "-C", "/repo", "checkout", "--", "."], check=True)
meta["caught_by"] = caught
print(f"[{sid}] caught by: {json.dumps(caught, indent=1)[:1500] if caught else 'NOTHING'}")
if keep:
    d = f"/verif/seeded/{sid}"
    os.makedirs(d, exist_ok=True)
    for src_, dst_ in ((patch, os.path.join(d, "patch.diff")), (demo, os.path.join(d, "demo.py"))):
        if os.path.abspath(src_) != os.path.abspath(dst_):
            shutil.copy(src_, dst_)
    try:   # keep hand-written fields across re-evaluations
        old_ = json.load(open(os.path.join(d, "meta.json")))
        for k_ in ("needs", "first_contact", "note", "declined", "what"):
            if old_.get(k_) and not meta.get(k_):
                meta[k_] = old_[k_]
    except (OSError, ValueError):
        pass
    meta["what_ran"] = "tools/seed_eval.py: demo on clean and patched scratch worktree, pinned suite vs BASELINE.json on the patched worktree, all 20 quick checks on /repo with the patch applied (then reverted)"
    json.dump(meta, open(os.path.join(d, "meta.json"), "w"), indent=1)
