#!/usr/bin/env python3
"""Local-rename probe: for every module of src, rename every local variable of every function (not parameters, not
names bound by import/except/global/nonlocal/match) to <name>_lv - an alpha-renaming, behaviour-preserving - in a scratch
copy and run all 20 quick checks on the copy.  Every non-zero exit is reported.
usage: locals_probe.py [jobs] [module-substring ...]"""
import ast, os, shutil, subprocess, sys, tempfile
from concurrent.futures import ThreadPoolExecutor

jobs = int(sys.argv[1]) if len(sys.argv) > 1 else 8
only = sys.argv[2:]


def rename_module(src: str) -> tuple[str, int]:
    tree = ast.parse(src)
    edits = []  # (lineno, col, old, new)
    lines = src.split("\n")

    def byte_to_char(lineno, col):
        return len(lines[lineno - 1].encode("utf-8")[:col].decode("utf-8"))

    tops = []
    def collect(node, inside):
        for ch in ast.iter_child_nodes(node):
            if isinstance(ch, (ast.FunctionDef, ast.AsyncFunctionDef)):
                if not inside:
                    tops.append(ch)
                collect(ch, True)
            else:
                collect(ch, inside)
    collect(tree, False)
    for fn in tops:
        if any(isinstance(n, (ast.Match, ast.Global, ast.Nonlocal)) for n in ast.walk(fn)):
            continue
        excluded = set()
        for n in ast.walk(fn):
            if isinstance(n, ast.arg):
                excluded.add(n.arg)
            elif isinstance(n, (ast.Import, ast.ImportFrom)):
                excluded |= {(a.asname or a.name).split(".")[0] for a in n.names}
            elif isinstance(n, ast.ExceptHandler) and n.name:
                excluded.add(n.name)
            elif isinstance(n, (ast.FunctionDef, ast.AsyncFunctionDef, ast.ClassDef)) and n is not fn:
                excluded.add(n.name)
        stored = {n.id for n in ast.walk(fn) if isinstance(n, ast.Name) and isinstance(n.ctx, (ast.Store, ast.Del))} - excluded
        stored = {s for s in stored if not s.startswith("__")}
        if not stored:
            continue
        for n in ast.walk(fn):
            if isinstance(n, ast.Name) and n.id in stored:
                edits.append((n.lineno, byte_to_char(n.lineno, n.col_offset), n.id, n.id + "_lv"))
    if not edits:
        return src, 0
    for lineno, col, old, new in sorted(set(edits), reverse=True):
        ln = lines[lineno - 1]
        if ln[col:col + len(old)] != old:
            return src, 0   # positions unreliable (e.g. inside an f-string on an older parser): leave the module alone
        lines[lineno - 1] = ln[:col] + new + ln[col + len(old):]
    out = "\n".join(lines)
    ast.parse(out)
    return out, len(set(edits))


def one(rel):
    d = tempfile.mkdtemp(prefix="lvprobe-", dir="/tmp")
    try:
        shutil.copytree("/repo/src", d + "/src", ignore=shutil.ignore_patterns("__pycache__"))
        shutil.copytree("/repo/docs", d + "/docs")
        p = os.path.join(d, rel)
        new, n = rename_module(open(p, encoding="utf-8").read())
        if n == 0:
            return rel, 0, None
        open(p, "w", encoding="utf-8").write(new)
        bad = []
        env = dict(os.environ, PYTHONDONTWRITEBYTECODE="1", TLSA_CACHE_DIR=d + "/_cache")
        for i in range(1, 21):
            pr = subprocess.run(["/venv/bin/python", "-m", "tlsa.main", f"C{i:02d}", "--root", d, "--evidence-dir", d + "/_ev"], cwd="/verif", env=env, capture_output=True, text=True)
            if pr.returncode != 0:
                lines_ = [l.strip()[:260] for l in pr.stdout.splitlines() if "ANALYSIS-ERROR" in l or (l.startswith("  ") and " @ " in l)][:3]
                bad.append((f"C{i:02d}", pr.returncode, lines_))
        return rel, n, bad
    finally:
        shutil.rmtree(d, ignore_errors=True)


rels = []
for base, dirs, files in os.walk("/repo/src"):
    dirs[:] = [x for x in dirs if x != "__pycache__"]
    for fn in files:
        if fn.endswith(".py"):
            r = os.path.relpath(os.path.join(base, fn), "/repo")
            if not only or any(o in r for o in only):
                rels.append(r)
rels.sort()
nbad = ntried = 0
with ThreadPoolExecutor(jobs) as ex:
    for rel, n, bad in ex.map(one, rels):
        if n == 0:
            continue
        ntried += 1
        if bad:
            nbad += 1
            print(f"{rel} ({n} renamed occurrences):")
            for b in bad:
                print("   ", b)
print(f"{ntried} modules with local renames tried, {nbad} with a non-zero exit")
