#!/usr/bin/env python3
"""Rename probe: for every private anchor recorded in tlsa/anchors_ref.json, rename it consistently (word-boundary
replacement over src/**.py, a behaviour-preserving refactoring) in a scratch copy and run all 20 quick checks on the
copy.  Every non-zero exit is reported.  usage: rename_probe.py [jobs]"""
import json, os, re, shutil, subprocess, sys, tempfile
from concurrent.futures import ThreadPoolExecutor

ref = json.load(open("/verif/tlsa/anchors_ref.json"))
jobs = int(sys.argv[1]) if len(sys.argv) > 1 else 8
only = sys.argv[2:] 

def one(q):
    name = q.rsplit(".", 1)[1]
    new = name + "_impl"
    d = tempfile.mkdtemp(prefix="renprobe-", dir="/tmp")
    try:
        shutil.copytree("/repo/src", d + "/src", ignore=shutil.ignore_patterns("__pycache__"))
        shutil.copytree("/repo/docs", d + "/docs")
        pat = re.compile(r"(?<![A-Za-z0-9_])" + re.escape(name) + r"(?![A-Za-z0-9_])")
        for root, _, files in os.walk(d + "/src"):
            for fn in files:
                if fn.endswith(".py"):
                    p = os.path.join(root, fn)
                    s = open(p, encoding="utf-8").read()
                    t = pat.sub(new, s)
                    if t != s:
                        open(p, "w", encoding="utf-8").write(t)
        bad = []
        env = dict(os.environ, PYTHONDONTWRITEBYTECODE="1", TLSA_CACHE_DIR=d + "/_cache")
        for i in range(1, 21):
            pr = subprocess.run(["/venv/bin/python", "-m", "tlsa.main", f"C{i:02d}", "--root", d, "--evidence-dir", d + "/_ev"], cwd="/verif", env=env, capture_output=True, text=True)
            if pr.returncode != 0:
                lines = [l.strip()[:260] for l in pr.stdout.splitlines() if "ANALYSIS-ERROR" in l or (l.startswith("  ") and " @ " in l)][:3]
                bad.append((f"C{i:02d}", pr.returncode, lines))
        return q, bad
    finally:
        shutil.rmtree(d, ignore_errors=True)

qs = [q for q in sorted(ref["functions"]) if not only or any(o in q for o in only)]
with ThreadPoolExecutor(jobs) as ex:
    n = 0
    for q, bad in ex.map(one, qs):
        if bad:
            n += 1
            print(f"{q}:")
            for b in bad:
                print("   ", b)
        else:
            print(f"{q}: silent")
print(f"{len(qs)} renames, {n} with a non-zero exit")
