#!/usr/bin/env python3
"""Re-run the 20 quick checks against stored seeds on scratch copies (no pinned-suite re-run) and refresh meta.caught_by.
usage: seed_recheck.py <id-glob e.g. '*-r6*'> [jobs]     first_contact is written once (from the caught_by found at first evaluation)."""
import fnmatch, json, os, shutil, subprocess, sys, tempfile
from concurrent.futures import ThreadPoolExecutor
pat = sys.argv[1]; jobs = int(sys.argv[2]) if len(sys.argv) > 2 else 6
ids = sorted(d for d in os.listdir("/verif/seeded") if fnmatch.fnmatch(d, pat))
def one(sid):
    d = f"/verif/seeded/{sid}"; meta = json.load(open(f"{d}/meta.json"))
    clean = lambda cb: {p: v for p, v in (cb or {}).items() if v and not v[0].startswith("ANALYSIS-ERROR")}
    if "first_contact" not in meta:
        meta["first_contact"] = sorted(clean(meta.get("caught_by")))
    wt = tempfile.mkdtemp(prefix=f"rc-{sid}-", dir="/tmp")
    try:
        for sub in ("src", "docs"):
            shutil.copytree(f"/repo/{sub}", f"{wt}/{sub}", ignore=shutil.ignore_patterns("__pycache__"))
        p = subprocess.run(["patch", "-p1", "-s", "-f", "-d", wt, "-i", f"{d}/patch.diff"], capture_output=True, text=True)
        assert p.returncode == 0, p.stdout + p.stderr
        env = dict(os.environ, PYTHONDONTWRITEBYTECODE="1", TLSA_CACHE_DIR=f"{wt}/_cache")
        caught = {}
        for i in range(1, 21):
            pr = f"C{i:02d}"
            r = subprocess.run(["/venv/bin/python", "-m", "tlsa.main", pr, "--root", wt, "--evidence-dir", f"{wt}/_ev"], cwd="/verif", env=env, capture_output=True, text=True)
            lines = [l.strip() for l in r.stdout.splitlines() if l.startswith("  ") and " @ " in l][:3]
            if "VIOLATION property=" in r.stdout and lines:
                caught[pr] = lines
        meta["caught_by"] = caught
        json.dump(meta, open(f"{d}/meta.json", "w"), indent=1)
        return sid, meta["first_contact"], sorted(caught)
    finally:
        shutil.rmtree(wt, ignore_errors=True)
with ThreadPoolExecutor(jobs) as ex:
    for sid, fc, cb in ex.map(one, ids):
        print(f"{sid}: first_contact={fc} now={cb}", flush=True)
