#!/bin/sh
# usage: tools/eval_r2.sh C03 [C04 ...]  - evaluate round-2 seeds in /tmp/wt2/<P>/ (seed.patch/demo.py, seed2.patch/demo2.py)
cd /verif
for p in "$@"; do
  for n in "" 2; do
    if [ -f /tmp/wt2/$p/seed$n.patch ]; then
      id=$p-r2$( [ -z "$n" ] && echo a || echo b )
      sed "s#/tmp/wt2/$p#/tmp/wt/$p#g" /tmp/wt2/$p/demo$n.py > /tmp/_r2demo_$id.py
      /venv/bin/python tools/seed_eval.py $id $p /tmp/wt2/$p/seed$n.patch /tmp/_r2demo_$id.py --keep --via-root 2>&1 | grep -v "^   \|^  \]\|^ \]" | cut -c1-330 | head -5
      rm -f /tmp/_r2demo_$id.py
    fi
  done
done
