#!/usr/bin/env python3
"""Markdown table of one seeded round from seeded/*/meta.json.  usage: round_table.py r6"""
import json, os, sys
tag = sys.argv[1]
rows = []
for d in sorted(os.listdir("/verif/seeded")):
    if f"-{tag}" not in d:
        continue
    m = json.load(open(f"/verif/seeded/{d}/meta.json"))
    now = []
    for p, hits in sorted((m.get("caught_by") or {}).items()):
        now.append(f"{p}-{hits[0].split()[0]}")
    fc = m.get("first_contact") or []
    rows.append(f"| {d} {m.get('what', '')} | {m.get('needs', '')} | {'yes' if fc else 'no'} | {', '.join(now) or '**not caught**'} |")
print(f"| seeded change (round {tag[1:]}) | needs | first contact | caught by (now) |\n|---|---|---|---|")
print("\n".join(rows))
