#!/usr/bin/env python3
"""Run the repository's pinned test suite (in parallel, no coverage) and compare with /root/.vp/BASELINE.json stable_pass."""
import json, subprocess, sys, tempfile, os, xml.etree.ElementTree as ET
root = sys.argv[1] if len(sys.argv) > 1 else "/repo"
base = json.load(open("/root/.vp/BASELINE.json"))
want = set(base["stable_pass"])
with tempfile.TemporaryDirectory() as d:
    x = os.path.join(d, "j.xml")
    subprocess.run(["/venv/bin/python", "-m", "pytest", "-q", "-p", "no:cacheprovider", "--timeout=900", "--continue-on-collection-errors", "-n", "12", "--no-cov", f"--junitxml={x}"], cwd=root, stdout=subprocess.DEVNULL, stderr=subprocess.DEVNULL)
    t = ET.parse(x)
passed = set()
for tc in t.iter("testcase"):
    if not any(c.tag in ("failure", "error", "skipped") for c in tc):
        passed.add(f"{tc.get('classname')}::{tc.get('name')}")
missing = sorted(want - passed)
print(f"stable_pass={len(want)} passed_now={len(passed)} missing={len(missing)}")
for m in missing[:40]:
    print("  MISSING", m)
sys.exit(1 if missing else 0)
