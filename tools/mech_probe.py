#!/usr/bin/env python3
"""Mechanical refactoring probes (behaviour-preserving by construction), one module at a time on a scratch copy, all 20
quick checks on the copy; every non-zero exit is reported.

modes:
  hoist    every string literal (len >= 2) used inside a function body as a comparison operand, subscript key, call
           argument or container element is replaced by a module-level constant _LIT_<n> defined after the module
           docstring / __future__ imports
  retvar   every `return <expr>` whose value is not a bare name/constant becomes `result_rv = <expr>; return result_rv`
usage: mech_probe.py <mode> [jobs] [module-substring ...]"""
import ast, os, shutil, subprocess, sys, tempfile
from concurrent.futures import ThreadPoolExecutor

mode = sys.argv[1]
jobs = int(sys.argv[2]) if len(sys.argv) > 2 else 8
only = sys.argv[3:]


def _char(lines, lineno, col):
    return len(lines[lineno - 1].encode("utf-8")[:col].decode("utf-8"))


def hoist(src):
    tree = ast.parse(src)
    lines = src.split("\n")
    par = {c: p for p in ast.walk(tree) for c in ast.iter_child_nodes(p)}
    edits, consts = [], {}
    funcs = [n for n in ast.walk(tree) if isinstance(n, (ast.FunctionDef, ast.AsyncFunctionDef))]
    skip = set()
    for fn in funcs:
        for d in fn.decorator_list + fn.args.defaults + [x for x in fn.args.kw_defaults if x is not None]:
            skip |= set(ast.walk(d))
        for a in ast.walk(fn.args):
            if isinstance(a, ast.arg) and a.annotation is not None:
                skip |= set(ast.walk(a.annotation))
        if fn.returns is not None:
            skip |= set(ast.walk(fn.returns))
        if fn.body and isinstance(fn.body[0], ast.Expr) and isinstance(fn.body[0].value, ast.Constant):
            skip.add(fn.body[0].value)
    for n in ast.walk(tree):
        if isinstance(n, (ast.JoinedStr, ast.Match, ast.AnnAssign)):
            skip |= set(ast.walk(n)) if not isinstance(n, ast.AnnAssign) else set(ast.walk(n.annotation))
    for fn in funcs:
        for n in ast.walk(fn):
            if not (isinstance(n, ast.Constant) and isinstance(n.value, str) and len(n.value) >= 2) or n in skip:
                continue
            up = par.get(n)
            if not isinstance(up, (ast.Compare, ast.Subscript, ast.Call, ast.Tuple, ast.List, ast.Set)):
                continue
            if isinstance(up, ast.Subscript) and up.slice is not n:
                continue
            if n.lineno != n.end_lineno or "\n" in n.value:
                continue
            c0, c1 = _char(lines, n.lineno, n.col_offset), _char(lines, n.end_lineno, n.end_col_offset)
            seg = lines[n.lineno - 1][c0:c1]
            if not seg or seg[0] not in "'\"":   # prefixed (r"", b"") or implicit concatenation: leave alone
                continue
            try:
                if ast.literal_eval(seg) != n.value:
                    continue
            except Exception:
                continue
            name = consts.setdefault(n.value, f"_LIT_{len(consts)}")
            edits.append((n.lineno, c0, c1, name))
    if not edits:
        return src, 0
    for lineno, c0, c1, name in sorted(set(edits), reverse=True):
        ln = lines[lineno - 1]
        lines[lineno - 1] = ln[:c0] + name + ln[c1:]
    # insertion point: after the docstring and the __future__ imports
    ins = 0
    body = tree.body
    i = 0
    if body and isinstance(body[0], ast.Expr) and isinstance(body[0].value, ast.Constant) and isinstance(body[0].value.value, str):
        ins = body[0].end_lineno
        i = 1
    while i < len(body) and isinstance(body[i], ast.ImportFrom) and body[i].module == "__future__":
        ins = body[i].end_lineno
        i += 1
    decl = [f"{name} = {value!r}" for value, name in consts.items()]
    lines[ins:ins] = decl
    out = "\n".join(lines)
    ast.parse(out)
    return out, len(set(edits))


def retvar(src):
    tree = ast.parse(src)
    lines = src.split("\n")
    edits = []
    for fn in [n for n in ast.walk(tree) if isinstance(n, (ast.FunctionDef, ast.AsyncFunctionDef))]:
        k = 0
        nested = {id(x) for sub in ast.walk(fn) if sub is not fn and isinstance(sub, (ast.FunctionDef, ast.AsyncFunctionDef, ast.Lambda)) for x in ast.walk(sub)}
        for n in ast.walk(fn):
            if id(n) in nested:
                continue
            if isinstance(n, ast.Return) and n.value is not None and not isinstance(n.value, (ast.Name, ast.Constant)) and n.lineno == n.end_lineno:
                ln = lines[n.lineno - 1]
                c0 = _char(lines, n.lineno, n.col_offset)
                if ln[:c0].strip():     # `if x: return y` on one line
                    continue
                v0, v1 = _char(lines, n.value.lineno, n.value.col_offset), _char(lines, n.value.end_lineno, n.value.end_col_offset)
                tail = ln[v1:]
                if tail.strip() and not tail.strip().startswith("#"):
                    continue
                indent = ln[:c0]
                k += 1   # one name per return: a single name for returns of different types would not type-check
                edits.append((n.lineno, [f"{indent}result_rv{k} = {ln[v0:v1]}{tail}", f"{indent}return result_rv{k}"]))
    if not edits:
        return src, 0
    for lineno, new in sorted(edits, reverse=True):
        lines[lineno - 1:lineno] = new
    out = "\n".join(lines)
    ast.parse(out)
    return out, len(edits)


def kwargs(src):
    """calls of same-module functions / same-class methods with only positional arguments get keyword arguments"""
    tree = ast.parse(src)
    lines = src.split("\n")
    mod_funcs = {n.name: n for n in tree.body if isinstance(n, (ast.FunctionDef, ast.AsyncFunctionDef))}
    edits = []
    def simple(fn, drop_self):
        a = fn.args
        if a.vararg or a.kwarg or a.posonlyargs or fn.decorator_list:
            return None
        ps = [x.arg for x in a.args]
        return ps[1:] if drop_self else ps
    for cls in [None] + [n for n in tree.body if isinstance(n, ast.ClassDef)]:
        methods = {n.name: n for n in cls.body if isinstance(n, (ast.FunctionDef, ast.AsyncFunctionDef))} if cls else {}
        scope = cls if cls else tree
        for c in ast.walk(scope):
            if not isinstance(c, ast.Call) or c.keywords or not c.args or any(isinstance(x, ast.Starred) for x in c.args):
                continue
            ps = None
            if isinstance(c.func, ast.Name) and c.func.id in mod_funcs:
                ps = simple(mod_funcs[c.func.id], False)
            elif cls and isinstance(c.func, ast.Attribute) and isinstance(c.func.value, ast.Name) and c.func.value.id == "self" and c.func.attr in methods:
                ps = simple(methods[c.func.attr], True)
            if ps is None or len(c.args) > len(ps):
                continue
            for i, a in enumerate(c.args):
                edits.append((a.lineno, _char(lines, a.lineno, a.col_offset), ps[i] + "="))
    if not edits:
        return src, 0
    for lineno, col, txt in sorted(set(edits), reverse=True):
        ln = lines[lineno - 1]
        lines[lineno - 1] = ln[:col] + txt + ln[col:]
    out = "\n".join(lines)
    ast.parse(out)
    return out, len(set(edits))


def ifswap(src):
    """`if c: A else: B` (no elif, both arms present, single-line test) becomes `if not (c): B else: A`"""
    tree = ast.parse(src)
    lines = src.split("\n")
    edits = []
    par = {c: p for p in ast.walk(tree) for c in ast.iter_child_nodes(p)}
    cands = []
    for n in ast.walk(tree):
        if isinstance(n, ast.If) and n.orelse and not (len(n.orelse) == 1 and isinstance(n.orelse[0], ast.If)) and n.test.lineno == n.test.end_lineno == n.lineno:
            up = par.get(n)
            if isinstance(up, ast.If) and n in up.orelse and len(up.orelse) == 1:
                continue   # this is an elif arm
            cands.append(n)
    # only outermost, non-overlapping ifs (line-block swap)
    cands.sort(key=lambda n: n.lineno)
    taken, last_end = [], 0
    for n in cands:
        if n.lineno > last_end:
            taken.append(n)
            last_end = n.end_lineno
    for n in reversed(taken):
        body_s, body_e = n.body[0].lineno, n.body[-1].end_lineno
        else_s, else_e = n.orelse[0].lineno, n.orelse[-1].end_lineno
        # the `else:` line is between body_e and else_s
        else_line = next((i for i in range(body_e + 1, else_s) if lines[i - 1].strip().startswith("else")), None)
        if else_line is None or body_s == n.lineno or else_s == else_line:
            continue
        if any(lines[i - 1].strip() == "" or lines[i - 1].lstrip().startswith("#") for i in ()):
            continue
        hdr = lines[n.lineno - 1]
        t0, t1 = _char(lines, n.test.lineno, n.test.col_offset), _char(lines, n.test.end_lineno, n.test.end_col_offset)
        # decorators/comments between header and body stay with the header
        new_hdr = hdr[:t0] + "not (" + hdr[t0:t1] + ")" + hdr[t1:]
        pre_body = lines[n.lineno:body_s - 1]          # comment lines between header and first body stmt
        body = lines[body_s - 1:body_e]
        mid = lines[body_e:else_line - 1]               # blank/comment lines before else
        pre_else = lines[else_line:else_s - 1]
        els = lines[else_s - 1:else_e]
        lines[n.lineno - 1:else_e] = [new_hdr] + pre_else + els + mid + [lines[else_line - 1]] + pre_body + body
    if not taken:
        return src, 0
    out = "\n".join(lines)
    try:
        ast.parse(out)
    except SyntaxError:
        return src, 0
    return out, len(taken)


def condvar(src):
    """`if <test>:` (single-line, not an elif) becomes `cond_cvN = <test>` / `if cond_cvN:`"""
    tree = ast.parse(src)
    lines = src.split("\n")
    par = {c: p for p in ast.walk(tree) for c in ast.iter_child_nodes(p)}
    edits = []
    k = 0
    for fn in [n for n in ast.walk(tree) if isinstance(n, (ast.FunctionDef, ast.AsyncFunctionDef))]:
        for n in ast.walk(fn):
            if not isinstance(n, ast.If) or isinstance(n.test, (ast.Name, ast.Constant)) or n.test.lineno != n.test.end_lineno or n.test.lineno != n.lineno:
                continue
            up = par.get(n)
            if isinstance(up, ast.If) and n in up.orelse:
                continue
            if any(isinstance(x, (ast.NamedExpr, ast.Await, ast.Yield)) for x in ast.walk(n.test)):
                continue
            # keep the edit type-preserving: a test that narrows a type for the checker (None tests, isinstance, bare
            # truthiness of a name/attribute) cannot be moved into a variable without new mypy errors
            def narrowing(t):
                if isinstance(t, ast.Compare):
                    return any(isinstance(o, (ast.Is, ast.IsNot)) for o in t.ops)
                if isinstance(t, ast.Call):
                    return isinstance(t.func, ast.Name) and t.func.id in ("isinstance", "callable", "hasattr", "issubclass")
                if isinstance(t, (ast.Name, ast.Attribute, ast.Subscript)):
                    return True
                if isinstance(t, ast.UnaryOp):
                    return narrowing(t.operand)
                if isinstance(t, ast.BoolOp):
                    return any(narrowing(v) for v in t.values)
                return False
            if narrowing(n.test):
                continue
            ln = lines[n.lineno - 1]
            c0 = _char(lines, n.lineno, n.col_offset)
            if ln[:c0].strip() or not ln[c0:].startswith("if "):
                continue
            t0, t1 = _char(lines, n.lineno, n.test.col_offset), _char(lines, n.lineno, n.test.end_col_offset)
            rest = ln[t1:]
            if not rest.lstrip(") ").startswith(":") or rest.count(":") != 1 and "#" not in rest:
                continue
            if rest.split(":", 1)[1].strip() and not rest.split(":", 1)[1].strip().startswith("#"):
                continue   # one-line if
            k += 1
            # parentheses around the test written by the author: keep them with the test text
            open_par = ln[c0 + 3:t0]
            close_par = rest[: rest.index(":")]
            edits.append((n.lineno, [f"{ln[:c0]}cond_cv{k} = {open_par}{ln[t0:t1]}{close_par}", f"{ln[:c0]}if cond_cv{k}:{rest.split(':', 1)[1]}"]))
    if not edits:
        return src, 0
    for lineno, new in sorted(edits, reverse=True):
        lines[lineno - 1:lineno] = new
    out = "\n".join(lines)
    try:
        ast.parse(out)
    except SyntaxError:
        return src, 0
    return out, len(edits)


FN = dict(hoist=hoist, retvar=retvar, kwargs=kwargs, ifswap=ifswap, condvar=condvar)[mode]


def one(rel):
    d = tempfile.mkdtemp(prefix=f"mech-{mode}-", dir="/tmp")
    try:
        shutil.copytree("/repo/src", d + "/src", ignore=shutil.ignore_patterns("__pycache__"))
        shutil.copytree("/repo/docs", d + "/docs")
        p = os.path.join(d, rel)
        try:
            new, n = FN(open(p, encoding="utf-8").read())
        except SyntaxError as e:
            return rel, 0, [("transform", 0, [str(e)])]
        if n == 0:
            return rel, 0, None
        open(p, "w", encoding="utf-8").write(new)
        bad = []
        env = dict(os.environ, PYTHONDONTWRITEBYTECODE="1", TLSA_CACHE_DIR=d + "/_cache")
        for i in range(1, 21):
            pr = subprocess.run(["/venv/bin/python", "-m", "tlsa.main", f"C{i:02d}", "--root", d, "--evidence-dir", d + "/_ev"], cwd="/verif", env=env, capture_output=True, text=True)
            if pr.returncode != 0:
                ls = [l.strip()[:260] for l in pr.stdout.splitlines() if "ANALYSIS-ERROR" in l or (l.startswith("  ") and " @ " in l)][:3]
                bad.append((f"C{i:02d}", pr.returncode, ls))
        return rel, n, bad
    finally:
        shutil.rmtree(d, ignore_errors=True)


rels = []
for base, dirs, files in os.walk("/repo/src"):
    dirs[:] = [x for x in dirs if x != "__pycache__"]
    for fn in files:
        if fn.endswith(".py"):
            r = os.path.relpath(os.path.join(base, fn), "/repo")
            if not only or any(o in r for o in only):
                rels.append(r)
rels.sort()
nbad = ntried = 0
with ThreadPoolExecutor(jobs) as ex:
    for rel, n, bad in ex.map(one, rels):
        if n == 0 and not bad:
            continue
        ntried += 1
        if bad:
            nbad += 1
            print(f"{rel} ({n} edits):")
            for b in bad:
                print("   ", b)
print(f"{mode}: {ntried} modules edited, {nbad} with a non-zero exit")
