#!/bin/sh
# usage: tools/try_patch.sh <patch> <prop> [<prop> ...]   - run checks on a scratch copy of /repo/{src,docs} with the patch applied
P=$1; shift
D=$(mktemp -d /tmp/trypatch-XXXXXX)
cp -r /repo/src /repo/docs $D/ 2>/dev/null
find $D -name __pycache__ -prune -exec rm -rf {} + 2>/dev/null
patch -p1 -s -f -d $D -i $P || { echo "patch failed"; rm -rf $D; exit 3; }
for prop in "$@"; do
  TLSA_CACHE_DIR=$D/_cache PYTHONDONTWRITEBYTECODE=1 /venv/bin/python -m tlsa.main $prop --root $D --evidence-dir $D/_ev 2>&1 | grep -E "^  [A-Z]+[0-9]+ |ANALYSIS-ERROR|instances over" | cut -c1-260
done
rm -rf $D
