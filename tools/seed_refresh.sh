#!/bin/sh
# re-evaluate every stored seed against the current checks (on scratch worktrees; /repo is not touched)
cd /verif
for d in seeded/*/; do
  id=$(basename $d); prop=$(python3 -c "import json;print(json.load(open('$d/meta.json'))['property'])")
  needs=$(python3 -c "import json;print(json.load(open('$d/meta.json')).get('needs',''))")
  cp $d/patch.diff /tmp/_p_$id.diff; cp $d/demo.py /tmp/_d_$id.py
  /venv/bin/python tools/seed_eval.py $id $prop /tmp/_p_$id.diff /tmp/_d_$id.py --needs "$needs" --keep --via-root 2>&1 | grep -E "confirmed=|caught by: NOTHING" 
  rm -f /tmp/_p_$id.diff /tmp/_d_$id.py
done
