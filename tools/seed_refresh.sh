#!/bin/sh
# re-evaluate every stored seed against the current checks (on scratch worktrees; /repo is not touched)
# usage: tools/seed_refresh.sh [jobs]   (default 2 at a time: the pinned suite has timing-sensitive tests)
cd /verif
J=${1:-2}
ls -d seeded/*/ | xargs -P "$J" -I{} sh -c '
  d={}; id=$(basename $d)
  prop=$(python3 -c "import json;print(json.load(open(\"$d/meta.json\"))[\"property\"])")
  needs=$(python3 -c "import json;print(json.load(open(\"$d/meta.json\")).get(\"needs\",\"\"))")
  cp $d/patch.diff /tmp/_p_$id.diff; cp $d/demo.py /tmp/_d_$id.py
  /venv/bin/python tools/seed_eval.py $id $prop /tmp/_p_$id.diff /tmp/_d_$id.py --needs "$needs" --keep --via-root 2>&1 | grep -E "confirmed=|caught by: NOTHING"
  rm -f /tmp/_p_$id.diff /tmp/_d_$id.py'
