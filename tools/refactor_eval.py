#!/usr/bin/env python3
"""Run every check against a behaviour-preserving refactoring (a false-alarm probe).

usage: refactor_eval.py <id> <props e.g. C01,C16> <patch> [--keep] [--suite]
 fresh scratch worktree of /repo HEAD, apply the patch, (with --suite) confirm the pinned suite is unchanged, run all
 20 quick checks with --root <worktree>; every non-zero exit is a false alarm (1) or an analysis error (2) to look into.
 --keep stores patch + meta.json under /verif/refactors/<id>/ (used by the thorough tier: the checks must stay silent).
"""
import json, os, shutil, subprocess, sys, tempfile

args = sys.argv[1:]
rid, props, patch = args[0], args[1].split(","), args[2]
keep, suite = "--keep" in args, "--suite" in args

def run(cmd, cwd, env=None, timeout=1800):
    p = subprocess.run(cmd, cwd=cwd, env=env, capture_output=True, text=True, timeout=timeout)
    return p.returncode, p.stdout + p.stderr

wt = tempfile.mkdtemp(prefix=f"refwt-{rid}-", dir="/tmp")
os.rmdir(wt)
meta = dict(id=rid, props=props, ran=[], alarms={})
try:
    rc, out = run(["git", "-C", "/repo", "worktree", "add", "-q", "--detach", wt, "HEAD"], "/repo")
    assert rc == 0, out
    rc, out = run(["git", "apply", os.path.abspath(patch)], wt)
    if rc != 0:
        print(f"[{rid}] patch does not apply: {out[:200]}")
        sys.exit(3)
    if suite:
        rcb, outb = run(["/venv/bin/python", "/verif/tools/baseline_check.py", wt], wt, dict(os.environ, PYTHONPATH=wt, PYTHONDONTWRITEBYTECODE="1"))
        meta["ran"].append("pinned suite on the refactored tree: " + outb.strip().splitlines()[0])
        meta["suite_ok"] = rcb == 0
    ev = tempfile.mkdtemp(prefix="ref-ev-")
    envc = dict(os.environ, PYTHONDONTWRITEBYTECODE="1", TLSA_CACHE_DIR=os.path.join(ev, "cache"))
    for i in range(1, 21):
        p = f"C{i:02d}"
        rc, out = run(["/venv/bin/python", "-m", "tlsa.main", p, "--root", wt, "--evidence-dir", ev], "/verif", envc)
        if rc != 0:
            meta["alarms"][p] = [l.strip()[:300] for l in out.splitlines() if (l.startswith("  ") and " @ " in l) or "ANALYSIS-ERROR" in l][:4] or [f"rc={rc}"]
    shutil.rmtree(ev, ignore_errors=True)
finally:
    subprocess.run(["git", "-C", "/repo", "worktree", "remove", "--force", wt], capture_output=True)
    shutil.rmtree(wt, ignore_errors=True)
meta["ran"].append("all 20 quick checks on the refactored scratch worktree")
print(f"[{rid}] suite={'-' if not suite else ('ok' if meta.get('suite_ok') else 'CHANGED')} alarms: {json.dumps(meta['alarms'], indent=1) if meta['alarms'] else 'none'}")
if keep:
    d = f"/verif/refactors/{rid}"
    os.makedirs(d, exist_ok=True)
    try:   # keep hand-written annotations across re-evaluations
        old = json.load(open(os.path.join(d, "meta.json")))
        for k in ("rekeyed_known_findings", "note"):
            if k in old:
                meta[k] = old[k]
    except (OSError, ValueError):
        pass
    if os.path.abspath(patch) != os.path.abspath(os.path.join(d, "patch.diff")):
        shutil.copy(patch, os.path.join(d, "patch.diff"))
    json.dump(meta, open(os.path.join(d, "meta.json"), "w"), indent=1)
