#!/bin/sh
# usage: tools/eval_round.sh <worktree-root e.g. /tmp/wt5> <tag e.g. r3> C03 [C04 ...]
# evaluate the seeds a sub-agent left in <root>/<P>/ (seed.patch/demo.py, seed2.patch/demo2.py) as <P>-<tag>a / <P>-<tag>b
cd /verif
ROOT=$1; TAG=$2; shift 2
for p in "$@"; do
  for n in "" 2; do
    if [ -f $ROOT/$p/seed$n.patch ]; then
      id=$p-$TAG$( [ -z "$n" ] && echo a || echo b )
      sed "s#$ROOT/$p#/tmp/wt/$p#g" $ROOT/$p/demo$n.py > /tmp/_rdemo_$id.py
      /venv/bin/python tools/seed_eval.py $id $p $ROOT/$p/seed$n.patch /tmp/_rdemo_$id.py --keep --via-root 2>&1 | grep -v "^   \|^  \]\|^ \]" | cut -c1-330 | head -6
      rm -f /tmp/_rdemo_$id.py
    fi
  done
done
